#!/usr/bin/env python3
"""Regenerates MANIFEST.json from the table below (kept in one place so it stays valid)."""
import json, os
HERE = os.path.dirname(os.path.abspath(__file__))
PY = 'python3-vt'
CLAIMS = json.load(open(os.path.join(HERE, 'claims.json')))
checks = []
for c in CLAIMS['claimed']:
    pid = c['id']
    checks.append({
        'property_id': pid,
        'quick_cmd': '%s -m hv.check %s --tier quick' % (PY, pid),
        'thorough_cmd': '%s -m hv.check %s --tier thorough' % (PY, pid),
        'evidence_file': 'evidence/%s.json' % pid,
        'replay_cmd_template': PY + ' -m hv.replay {path}',
        'engine': 'hv',
        'level_claimed': {'category': 'other', 'text': c['text'], 'design_ref': c.get('design_ref', 'DESIGN.md section 3, ' + pid)},
        'level_note': c['note'],
        'technique': c['technique'],
    })
m = {
    'version': 1,
    'setup_cmd': PY + ' -c "import lark, networkx, numpy, ast, sys; sys.path.insert(0, \'.\'); import hv.check"',
    'hooks': {'guard': 'PY4HW_VERIF', 'enable': 'none needed: the checks only read /repo source text; no hook is compiled into py4hw',
              'baseline_off_cmd': 'cd /repo && /venv/bin/python -m pytest -ra -q -p no:cacheprovider --timeout=900 --continue-on-collection-errors',
              'source_commits': [], 'add_only': True},
    'engines': [{'name': 'hv', 'path': 'hv/', 'serves_properties': [c['id'] for c in CLAIMS['claimed']],
                 'kind_free_text': 'repository-specific static analysis over Python ast: class/port facts, structured CFG paths, call graph, symbolic summaries, emitter templates, Verilog-subset parser'}],
    'checks': checks,
    'notes': CLAIMS.get('notes', ''),
    'not_applicable': CLAIMS['not_applicable'],
}
json.dump(m, open(os.path.join(HERE, 'MANIFEST.json'), 'w'), indent=1)
print('MANIFEST.json written:', len(checks), 'checks,', len(m['not_applicable']), 'not applicable')
