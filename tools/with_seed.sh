#!/bin/bash
# tools/with_seed.sh <seed-name> <PROP> [tier]: one check against one seeded change in a scratch worktree (removed afterwards); prints the report tail
n=$1; q=$2; tier=${3:-quick}; wt=/tmp/ws_${n}_$$
git -C /repo worktree add -q --detach $wt HEAD || exit 3
git -C $wt apply /verif/seeded/$n/patch.diff 2>/dev/null || { echo "patch does not apply"; git -C /repo worktree remove --force $wt; exit 3; }
cd /verif; VERIF_OUT=/tmp/wsout_$$ python3-vt -m hv.check $q --tier $tier --repo $wt 2>&1 | grep -v "^  ok\|^    ok" | tail -${LINES_:-25}; echo "rc=${PIPESTATUS[0]}"
git -C /repo worktree remove --force $wt; rm -rf /tmp/wsout_$$
