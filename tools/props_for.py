#!/usr/bin/env python3
"""props_for.py <patch.diff> [own property] -> the checks that consult the files a patch touches (for quick, targeted corpus runs;
the recorded matrices are produced with every check)."""
import json, re, sys
ALL = [c['property_id'] for c in json.load(open('/verif/MANIFEST.json'))['checks']]
MAP = [
    ('py4hw/schematic', 'C18'),
    ('py4hw/debug.py', 'C11'),
    ('py4hw/rtl_generation.py', 'C01 C02 C03 C19'),
    ('py4hw/transpilation/', 'C01 C02 C03 C19'),
    ('py4hw/helper.py', 'C01 C07 C08 C09 C12 C14 C16 C17 C20'),
    ('py4hw/emulation/', 'C01 C02 C03 C16 C19 C20'),
    ('py4hw/logic/protocol/', 'C01 C02 C03 C17 C19'),
    ('py4hw/logic/simulation.py', 'C04 C05 C06 C10 C15 C17 C20'),
    ('py4hw/simulation.py', 'C04 C05 C06 C10 C11 C15'),
    ('py4hw/logic/storage.py', 'C01 C02 C03 C05 C06 C09 C10 C16 C17 C19'),
    ('py4hw/logic/arithmetic_fxp.py', 'C01 C03 C07 C14'),
    ('py4hw/logic/arithmetic_fp.py', 'C01 C03 C07 C08'),
]
files = re.findall(r'^\+\+\+ b/(\S+)', open(sys.argv[1]).read(), re.M)
props = set(sys.argv[2:3])
for f in files:
    hit = [p for pre, p in MAP if f.startswith(pre)]
    if not hit:
        props = set(ALL)
        break
    for h in hit:
        props.update(h.split())
print(' '.join(p for p in ALL if p in props))
