#!/bin/bash
# applies each behaviour-preserving refactoring (from /tmp/refactor_out/<G>/<k>/patch.diff or $HERE/refactors/<name>) in a scratch worktree
# and runs the quick checks: every check must stay silent (exit 0).
HERE=$(cd "$(dirname "$0")/.." && pwd); export HERE; cd $HERE   # works from a snapshot of /verif too (vp run)
PROPS=${PROPS:-$(python3 -c "import json;print(' '.join(c['property_id'] for c in json.load(open('MANIFEST.json'))['checks']))")}
one() {
  pf=$1; n=$(echo $pf | tr '/' '_'); wt=/tmp/rfrun_$n; out=/tmp/rfout_$n
  rm -rf $wt $out; git -C /repo worktree add -q --detach $wt HEAD 2>/dev/null || { echo "$pf: worktree failed"; return; }
  if ! git -C $wt apply $pf 2>/dev/null; then echo "$pf: PATCH DOES NOT APPLY"; git -C /repo worktree remove --force $wt; return; fi
  hits=""
  PL="$PROPS"; [ -n "${TARGETED:-}" ] && PL=$(for q in $(python3 $HERE/tools/props_for.py $pf); do case " $PROPS " in *" $q "*) echo $q;; esac; done | tr '\n' ' ')
  for q in $PL; do
    o=$(VERIF_OUT=$out python3-vt -m hv.check $q --repo $wt 2>&1); rc=$?
    if [ $rc = 1 ]; then hits="$hits $q(FALSE-ALARM:$(echo "$o" | grep -m1 '  rule' | cut -c1-160))"; elif [ $rc = 2 ]; then hits="$hits $q(ERR:$(echo "$o" | grep -m1 ANALYSIS | cut -c1-200))"; fi
  done
  git -C /repo worktree remove --force $wt; rm -rf $out
  echo "$pf: ${hits:- silent}"
  [ -n "${PROGRESS:-}" ] && echo "$pf: ${hits:- silent}" >> $PROGRESS
}
export -f one; export PROPS TARGETED PROGRESS
ls ${@:-$HERE/refactors/*/patch.diff} | xargs -P 12 -I{} bash -c 'one {}' | sort
git -C /repo worktree prune
