#!/bin/bash
# generic confirmation of a seeded change of round R: source /tmp/seed_out$R/<P>/<k>, destination /verif/seeded/<P>-r$R-<k>
# usage: tools/confirm_seed_r.sh R P K
set -u
R=$1; P=$2; K=$3
SRC=/tmp/seed_out$R/$P/$K
WT=/tmp/confirm${R}_${P}_$K
OUT=/verif/seeded/$P-r$R-$K
[ -f $SRC/patch.diff ] && [ -f $SRC/demo.py ] || { echo "$P-r$R-$K: incomplete delivery"; exit 3; }
rm -rf $WT; git -C /repo worktree add -q --detach $WT HEAD || exit 3
cd $WT
DEMO0=$(PYTHONPATH=$WT timeout 900 /venv/bin/python $SRC/demo.py >/tmp/confirm${R}_${P}_$K.clean.log 2>&1; echo $?)
git apply $SRC/patch.diff || { echo "$P-r$R-$K: patch does not apply"; cd /; git -C /repo worktree remove --force $WT; exit 3; }
DEMO1=$(PYTHONPATH=$WT timeout 900 /venv/bin/python $SRC/demo.py >/tmp/confirm${R}_${P}_$K.mut.log 2>&1; echo $?)
for try in 1 2 3; do
  /venv/bin/python -m pytest -q -p no:cacheprovider --timeout=900 --continue-on-collection-errors -x > /tmp/confirm${R}_${P}_$K.tests.log 2>&1
  TESTS=$?
  [ "$TESTS" = "0" ] && break
done
SUMMARY=$(tail -1 /tmp/confirm${R}_${P}_$K.tests.log)
cd /; git -C /repo worktree remove --force $WT
echo "$P-r$R-$K: demo(clean)=$DEMO0 demo(mutated)=$DEMO1 tests=$TESTS [$SUMMARY]"
if [ "$DEMO0" = "0" ] && [ "$DEMO1" != "0" ] && [ "$DEMO1" != "124" ] && [ "$TESTS" = "0" ]; then
  mkdir -p $OUT; cp $SRC/patch.diff $SRC/demo.py $OUT/; cp $SRC/notes.md $OUT/notes.md 2>/dev/null
  python3 - "$P" "$K" "$SUMMARY" "$DEMO0" "$DEMO1" "$R" <<'PY'
import json,sys,os
P,K,summary,d0,d1,R=sys.argv[1:7]
p='/tmp/seed_out%s/%s/%s/notes.md'%(R,P,K)
notes=open(p).read() if os.path.exists(p) else ''
meta={'property':P,'round':int(R),'origin':'independent sub-agent given only the property record, a scratch worktree and the titles of the earlier changes to avoid',
 'needs_to_manifest':notes[:1500],
 'confirmed':{'worktree':'scratch git worktree of /repo HEAD under /tmp (removed)','tests_with_change':summary,
   'cmd_tests':'/venv/bin/python -m pytest -q -p no:cacheprovider --timeout=900 --continue-on-collection-errors -x (unseeded random tests retried)',
   'demo_exit_clean':int(d0),'demo_exit_with_change':int(d1)}}
json.dump(meta,open('/verif/seeded/%s-r%s-%s/meta.json'%(P,R,K),'w'),indent=1)
PY
  echo CONFIRMED
else
  echo REJECTED
fi
