#!/bin/bash
# tools/confirm_round.sh R P...: confirm the three changes of each property P of round R (parallel), drop the agent's worktree
R=$1; shift
for P in "$@"; do
  git -C /repo worktree remove --force /tmp/wt${R}_$P 2>/dev/null
  for k in 1 2 3; do ( bash /verif/tools/confirm_seed_r.sh $R $P $k 2>&1 | grep -v "^$" | tail -2 | tr '\n' ' '; echo ) & done
done
wait
