#!/bin/bash
# Runs every confirmed seeded change against the quick checks, in parallel, each in its own scratch
# worktree of /repo HEAD (the checks take --repo), so /repo itself is never touched.
# OWN=1: only the check of the property the change was written against (fast: one check per change)
# usage: tools/run_seeded.sh [seeded/<name> ...]      env PROPS="C01 C05" restricts the checks, TIER=thorough
HERE=$(cd "$(dirname "$0")/.." && pwd); export HERE; cd $HERE   # works from a snapshot of /verif too (vp run)
PROPS=${PROPS:-$(python3 -c "import json;print(' '.join(c['property_id'] for c in json.load(open('MANIFEST.json'))['checks']))")}
TIER=${TIER:-quick}
one() {
  n=$(basename $1); wt=/tmp/seedrun_${n}_$RUNID; out=/tmp/seedout_${n}_$RUNID
  rm -rf $wt $out; git -C /repo worktree add -q --detach $wt HEAD 2>/dev/null || { echo "$n: worktree failed"; return; }
  if ! git -C $wt apply $HERE/seeded/$n/patch.diff 2>/dev/null; then echo "$n: PATCH DOES NOT APPLY"; git -C /repo worktree remove --force $wt; return; fi
  hits=""
  PL="$PROPS"; [ -n "${OWN:-}" ] && PL=${n%%-*}; [ -z "${OWN:-}" ] && [ -n "${TARGETED:-}" ] && PL=$(python3 $HERE/tools/props_for.py $HERE/seeded/$n/patch.diff ${n%%-*})
  for q in $PL; do
    o=$(VERIF_OUT=$out python3-vt -m hv.check $q --tier $TIER --repo $wt 2>&1); rc=$?
    if [ $rc = 1 ]; then hits="$hits $q($(echo "$o" | grep -c '^VIOLATION'))"; elif [ $rc = 2 ]; then hits="$hits $q(ERR)"; fi
  done
  git -C /repo worktree remove --force $wt; rm -rf $out
  echo "$n: ${hits:- MISSED}"
  [ -n "${PROGRESS:-}" ] && echo "$n: ${hits:- MISSED}" >> $PROGRESS
}
RUNID=$$; export -f one; export PROPS TIER RUNID TARGETED PROGRESS OWN
ls -d ${@:-seeded/*/} | xargs -P 14 -I{} bash -c 'one {}' | sort
git -C /repo worktree prune
