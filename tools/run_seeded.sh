#!/bin/bash
# run every confirmed seeded change against the checks: applies to /repo, runs quick checks of all claimed
# properties (or the ones given), reverts.  Prints which checks report a violation.
cd /verif
PROPS=${PROPS:-$(python3 -c "import json;print(' '.join(c['property_id'] for c in json.load(open('MANIFEST.json'))['checks']))")}
for d in ${@:-seeded/*/}; do
  n=$(basename $d)
  if ! git -C /repo apply --check /verif/seeded/$n/patch.diff 2>/dev/null; then echo "$n: PATCH DOES NOT APPLY"; continue; fi
  git -C /repo apply /verif/seeded/$n/patch.diff 2>/dev/null
  hits=""
  for q in $PROPS; do
    out=$(python3-vt -m hv.check $q 2>&1); rc=$?
    if [ $rc = 1 ]; then hits="$hits $q($(echo "$out" | grep -c '^VIOLATION'))"; elif [ $rc = 2 ]; then hits="$hits $q(ERR)"; fi
  done
  git -C /repo checkout -- .
  echo "$n: ${hits:- MISSED}"
done
git -C /repo status --short | head -3
