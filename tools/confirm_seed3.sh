#!/bin/bash
# like confirm_seed.sh but for round 3: source /tmp/seed_out3/<P>/<k>, destination /verif/seeded/<P>-r3-<k>
set -u
P=$1; K=$2
SRC=/tmp/seed_out3/$P/$K
WT=/tmp/confirm3_${P}_$K
OUT=/verif/seeded/$P-r3-$K
rm -rf $WT; git -C /repo worktree add -q --detach $WT HEAD || exit 3
cd $WT
sed -i "s/'wt_$P' in py4hw.__file__/os.getcwd() in py4hw.__file__/" $SRC/demo.py
DEMO0=$(/venv/bin/python $SRC/demo.py >/tmp/confirm3_${P}_$K.clean.log 2>&1; echo $?)
git apply $SRC/patch.diff || { echo "$P-r3-$K: patch does not apply"; git -C /repo worktree remove --force $WT; exit 3; }
DEMO1=$(/venv/bin/python $SRC/demo.py >/tmp/confirm3_${P}_$K.mut.log 2>&1; echo $?)
for try in 1 2 3; do
  /venv/bin/python -m pytest -q -p no:cacheprovider --timeout=900 --continue-on-collection-errors -x > /tmp/confirm3_${P}_$K.tests.log 2>&1
  TESTS=$?
  [ "$TESTS" = "0" ] && break
done
SUMMARY=$(tail -1 /tmp/confirm3_${P}_$K.tests.log)
cd /; git -C /repo worktree remove --force $WT
echo "$P-r3-$K: demo(clean)=$DEMO0 demo(mutated)=$DEMO1 tests=$TESTS [$SUMMARY]"
if [ "$DEMO0" = "0" ] && [ "$DEMO1" != "0" ] && [ "$TESTS" = "0" ]; then
  mkdir -p $OUT; cp $SRC/patch.diff $SRC/demo.py $OUT/; cp $SRC/notes.md $OUT/notes.md 2>/dev/null
  python3 - "$P" "$K" "$SUMMARY" "$DEMO0" "$DEMO1" <<'PY'
import json,sys
P,K,summary,d0,d1=sys.argv[1:6]
notes=open('/tmp/seed_out3/%s/%s/notes.md'%(P,K)).read()
meta={'property':P,'round':3,'origin':'independent sub-agent given only the property text, a scratch worktree and the titles of the round-1 changes to avoid',
 'needs_to_manifest':notes[:1500],
 'confirmed':{'worktree':'scratch git worktree of /repo HEAD under /tmp (removed)','tests_with_change':summary,
   'cmd_tests':'/venv/bin/python -m pytest -q -p no:cacheprovider --timeout=900 --continue-on-collection-errors -x (unseeded random tests retried)',
   'demo_exit_clean':int(d0),'demo_exit_with_change':int(d1)}}
json.dump(meta,open('/verif/seeded/%s-r3-%s/meta.json'%(P,K),'w'),indent=1)
PY
  echo CONFIRMED
else
  echo REJECTED
fi
