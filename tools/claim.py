#!/usr/bin/env python3
"""claim.py ID 'text' 'note' 'technique'  -- move a property from not_applicable to claimed (or update it)"""
import json, sys, os
HERE = os.path.dirname(os.path.dirname(os.path.abspath(__file__)))
c = json.load(open(os.path.join(HERE, 'claims.json')))
pid, text, note, tech = sys.argv[1:5]
c['claimed'] = [x for x in c['claimed'] if x['id'] != pid] + [dict(id=pid, text=text, note=note, technique=tech)]
c['claimed'].sort(key=lambda x: x['id'])
c['not_applicable'] = [x for x in c['not_applicable'] if x['property_id'] != pid]
json.dump(c, open(os.path.join(HERE, 'claims.json'), 'w'), indent=1)
os.system('python3 %s/tools_manifest.py' % HERE)
