#!/bin/bash
# usage: confirm_seed.sh <PROP> <k> [name]   -- confirms a seeded change from /tmp/seed_out/<PROP>/<k>
# in a private scratch worktree: (1) full test-suite passes with the change, (2) demo fails with it,
# (3) demo passes without it.  On success copies patch/demo/notes to /verif/seeded/<PROP>-<k>/ with meta.json.
set -u
P=$1; K=$2
SRC=/tmp/seed_out/$P/$K
WT=/tmp/confirm_${P}_$K
OUT=/verif/seeded/$P-$K
rm -rf $WT; git -C /repo worktree add -q --detach $WT HEAD || exit 3
cd $WT
DEMO0=$(/venv/bin/python $SRC/demo.py >/tmp/confirm_${P}_$K.clean.log 2>&1; echo $?)
git apply $SRC/patch.diff || { echo "patch does not apply"; git -C /repo worktree remove --force $WT; exit 3; }
DEMO1=$(/venv/bin/python $SRC/demo.py >/tmp/confirm_${P}_$K.mut.log 2>&1; echo $?)
/venv/bin/python -m pytest -q -p no:cacheprovider --timeout=900 --continue-on-collection-errors -x > /tmp/confirm_${P}_$K.tests.log 2>&1
TESTS=$?
if [ "$TESTS" != "0" ]; then   # Test_FPAdder_SP::test_random draws unseeded random operands and fails sporadically on the clean tree too: one retry
  cp /tmp/confirm_${P}_$K.tests.log /tmp/confirm_${P}_$K.tests.first.log
  /venv/bin/python -m pytest -q -p no:cacheprovider --timeout=900 --continue-on-collection-errors -x > /tmp/confirm_${P}_$K.tests.log 2>&1
  TESTS=$?
fi
SUMMARY=$(tail -1 /tmp/confirm_${P}_$K.tests.log)
WHERE=$(/venv/bin/python -c "import py4hw;print(py4hw.__file__)")
cd /; git -C /repo worktree remove --force $WT
echo "$P-$K: demo(clean)=$DEMO0 demo(mutated)=$DEMO1 tests=$TESTS [$SUMMARY] import=$WHERE"
if [ "$DEMO0" = "0" ] && [ "$DEMO1" != "0" ] && [ "$TESTS" = "0" ]; then
  mkdir -p $OUT; cp $SRC/patch.diff $SRC/demo.py $OUT/; cp $SRC/notes.md $OUT/notes.md 2>/dev/null
  python3 - "$P" "$K" "$SUMMARY" "$DEMO0" "$DEMO1" "$WHERE" <<'PY'
import json,sys,re
P,K,summary,d0,d1,where=sys.argv[1:7]
notes=open('/tmp/seed_out/%s/%s/notes.md'%(P,K)).read() if True else ''
meta={'property':P,'origin':'independent sub-agent given only the property text and a scratch worktree',
 'needs_to_manifest':notes[:1500],
 'confirmed':{'worktree':'scratch git worktree of /repo HEAD under /tmp (removed)','import_resolved_to':where,
   'tests_with_change':summary,'cmd_tests':'/venv/bin/python -m pytest -q -p no:cacheprovider --timeout=900 --continue-on-collection-errors -x',
   'demo_exit_clean':int(d0),'demo_exit_with_change':int(d1)},
 'detected_by':None}
json.dump(meta,open('/verif/seeded/%s-%s/meta.json'%(P,K),'w'),indent=1)
PY
  echo CONFIRMED
else
  echo REJECTED
fi
