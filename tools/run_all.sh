#!/bin/bash
# every claimed check on the unchanged tree, in parallel; prints one line per property (rc + summary)
cd /verif
TIER=${1:-quick}
PROPS=$(python3 -c "import json;print(' '.join(c['property_id'] for c in json.load(open('MANIFEST.json'))['checks']))")
for p in $PROPS; do
  ( python3-vt -m hv.check $p --tier $TIER > /tmp/runall_$p.log 2>&1; echo "$p rc=$? $(tail -1 /tmp/runall_$p.log | cut -c1-170)" ) &
done
wait
