"""Finite-domain evaluation of extracted IR expressions (never of repository code).

A configuration fixes widths, list arities, constructor constants; an input
assignment fixes port values and state attributes."""


class Nondet(Exception):
    pass


class EvalError(Exception):
    pass


class Cfg:
    def __init__(self, width=None, val=None, attr=None, param=None, plen=None):
        self.width = width or {}
        self.val = val or {}
        self.attr = attr or {}
        self.param = param or {}
        self.plen = plen or {}

    def copy(self):
        return Cfg(dict(self.width), dict(self.val), dict(self.attr), dict(self.param), dict(self.plen))


def signed(v, w):
    if w <= 0:
        raise EvalError('signed with width %s' % w)
    v &= (1 << w) - 1
    return v - (1 << w) if v >> (w - 1) & 1 else v


def pkey(p, cfg, env):
    if p[0] == 'pe':
        i = ev(p[2], cfg, env)
        return ('pe', p[1], i)
    return p


def ev(x, cfg, env=None):
    env = env or {}
    k = x[0]
    if k == 'c':
        return x[1]
    if k == 'get':
        pk = pkey(x[1], cfg, env)
        if pk not in cfg.val:
            raise EvalError('no value for port %s' % (pk,))
        return cfg.val[pk]
    if k == 'w':
        pk = pkey(x[1], cfg, env)
        if pk not in cfg.width:
            raise EvalError('no width for port %s' % (pk,))
        return cfg.width[pk]
    if k == 'attr':
        if x[1] not in cfg.attr:
            raise EvalError('no value for attribute %s' % x[1])
        return cfg.attr[x[1]]
    if k == 'param':
        if x[1] not in cfg.param:
            raise EvalError('no value for parameter %s' % x[1])
        return cfg.param[x[1]]
    if k == 'var':
        return env[x[1]]
    if k == 'acc':
        return env[('acc', x[1], x[2])]
    if k == 'bin':
        a = ev(x[2], cfg, env)
        b = ev(x[3], cfg, env)
        op = x[1]
        if op in ('//', '%'):
            if b == 0:
                raise Nondet('division by zero')
            return a // b if op == '//' else a % b
        if op == '/':
            if b == 0:
                raise Nondet('division by zero')
            return a / b
        if op == '<<':
            if b < 0:
                raise EvalError('negative shift count')
            if b > 4096:
                raise EvalError('huge shift')
            return a << b
        if op == '>>':
            if b < 0:
                raise EvalError('negative shift count')
            return a >> b
        if op == '**':
            if b < 0 or b > 4096:
                raise EvalError('pow')
            return a ** b
        return {'+': lambda: a + b, '-': lambda: a - b, '*': lambda: a * b, '&': lambda: a & b,
                '|': lambda: a | b, '^': lambda: a ^ b}[op]()
    if k == 'un':
        a = ev(x[2], cfg, env)
        return {'~': lambda: ~a, '-': lambda: -a, 'not': lambda: int(not a)}[x[1]]()
    if k == 'cmp':
        a = ev(x[2], cfg, env)
        b = ev(x[3], cfg, env)
        return int({'==': lambda: a == b, '!=': lambda: a != b, '<': lambda: a < b, '<=': lambda: a <= b,
                    '>': lambda: a > b, '>=': lambda: a >= b}[x[1]]())
    if k == 'and':
        a = ev(x[1], cfg, env)
        return ev(x[2], cfg, env) if a else a
    if k == 'or':
        a = ev(x[1], cfg, env)
        return a if a else ev(x[2], cfg, env)
    if k == 'ite':
        return ev(x[2], cfg, env) if ev(x[1], cfg, env) else ev(x[3], cfg, env)
    if k == 'signed':
        return signed(ev(x[1], cfg, env), ev(x[2], cfg, env))
    if k == 'index':
        seq = ev(x[1], cfg, env)
        i = ev(x[2], cfg, env)
        try:
            return seq[i]
        except (IndexError, TypeError, KeyError):
            raise EvalError('index %s out of range' % i)
    if k == 'len':
        t = x[1]
        if t[0] == 'plist':
            return cfg.plen[t[1]]
        if t[0] == 'attr':
            return len(cfg.attr[t[1]])
        return len(ev(t, cfg, env))
    if k == 'ord':
        return ord(ev(x[1], cfg, env))
    if k == 'isnone':
        t = x[1]
        if t[0] == 'attr':
            return int(cfg.attr.get(t[1], 'absent') is None)
        return int(ev(t, cfg, env) is None)
    if k == 'fn':
        import math
        args = [ev(a, cfg, env) for a in x[2]]
        try:
            return {'math.ceil': math.ceil, 'math.floor': math.floor, 'math.log2': math.log2, 'math.log': math.log,
                    'math.sqrt': math.sqrt, 'math.pow': math.pow}[x[1]](*args)
        except (ValueError, ZeroDivisionError) as e:
            raise EvalError('%s%s: %s' % (x[1], tuple(args), e))
    if k == 'nondet':
        raise Nondet('nondeterministic value')
    if k == 'hold':
        return HOLDV
    if k == 'undef':
        raise EvalError('use of a local that is not defined on this path: %s' % x[1])
    if k == 'fold':
        var, lo, hi, init, step, res = x[1:7]
        lo_v, hi_v = ev(lo, cfg, env), ev(hi, cfg, env)
        # accumulator ids: ('acc', name, fresh) - fresh is encoded in var name suffix
        fresh = int(var.split('#')[1])
        e2 = dict(env)
        for n, v in init:
            e2[('acc', n, fresh)] = ev(v, cfg, env)
        for i in range(lo_v, hi_v):
            e2[var] = i
            new = {n: ev(v, cfg, e2) for n, v in step}
            for n, v in new.items():
                e2[('acc', n, fresh)] = v
        return e2[('acc', res, fresh)]
    raise EvalError('cannot evaluate %s' % (x,))


class _Hold:
    def __repr__(self):
        return '<hold>'


HOLDV = _Hold()
