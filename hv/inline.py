"""Inlining of small helper calls, so that path / shape rules read through helper extraction.

A maintainer who tidies a function by moving a few lines into a private helper
(`self._helper(...)`, `Class._helper(...)`, a module-level `_helper(...)`) does not change
behaviour; rules that look at *one* function body would otherwise stop recognising the
construct (or, worse, report its absence).  `inline_function` returns a copy of a function
in which such calls are replaced by the callee's body:

  * only callees whose name starts with an underscore (or is listed in `force`) and is not
    listed in `keep` (calls a rule wants to see as calls) are inlined;
  * parameters bound to simple expressions (names, attribute chains, constants) are
    substituted, others are bound to a temporary first;
  * early `return`s are lowered to structured `if` nesting, a returned value goes through a
    result variable; a `return` inside a loop / try / with, recursion, generators, nested
    functions, *args / **kwargs make the call not inlinable - it is then left as it is;
  * calls inside conditions of `while`, inside boolean operators, conditional expressions,
    comprehensions or lambdas are inlined only if the callee is expressible as a single
    (conditional) expression.

This is purely syntactic and only used by the analysis."""
import ast

MAX_DEPTH = 3
MAX_STMTS = 80


class NotInlinable(Exception):
    pass


def clone(node):
    """deep copy over the syntax fields only (the source map decorates nodes with _parent links, which
    copy.deepcopy would follow up to the whole module)"""
    if isinstance(node, list):
        return [clone(x) for x in node]
    if not isinstance(node, ast.AST):
        return node
    new = type(node)()
    for f in node._fields:
        if hasattr(node, f):
            setattr(new, f, clone(getattr(node, f)))
    for a in ('lineno', 'col_offset', 'end_lineno', 'end_col_offset'):
        if hasattr(node, a):
            setattr(new, a, getattr(node, a))
    return new


def _simple(e):
    if isinstance(e, (ast.Name, ast.Constant)):
        return True
    if isinstance(e, ast.Attribute):
        return _simple(e.value)
    return False


def _contains(node_or_list, kinds):
    nodes = node_or_list if isinstance(node_or_list, list) else [node_or_list]
    for n in nodes:
        for x in ast.walk(n):
            if isinstance(x, kinds):
                return True
    return False


def _stored_names(fn):
    out = set()
    for n in ast.walk(fn):
        if isinstance(n, ast.Name) and isinstance(n.ctx, (ast.Store, ast.Del)):
            out.add(n.id)
        elif isinstance(n, ast.ExceptHandler) and n.name:
            out.add(n.name)
    return out


class _Subst(ast.NodeTransformer):
    def __init__(self, expr_map, name_map):
        self.expr_map = expr_map
        self.name_map = name_map

    def visit_Name(self, n):
        if n.id in self.expr_map and isinstance(n.ctx, ast.Load):
            return clone(self.expr_map[n.id])
        if n.id in self.name_map:
            return ast.copy_location(ast.Name(id=self.name_map[n.id], ctx=n.ctx), n)
        return n

    def visit_ExceptHandler(self, n):
        self.generic_visit(n)
        if n.name in self.name_map:
            n.name = self.name_map[n.name]
        return n


def _prune_constant_tests(stmts):
    def const_truth(t):
        if isinstance(t, ast.Constant) and isinstance(t.value, (bool, int, type(None))):
            return bool(t.value)
        if isinstance(t, ast.UnaryOp) and isinstance(t.op, ast.Not):
            v = const_truth(t.operand)
            return None if v is None else (not v)
        return None

    def block(ss):
        out = []
        for st in ss:
            if isinstance(st, ast.If):
                v = const_truth(st.test)
                if v is None:
                    st.body = block(st.body) or [ast.Pass()]
                    st.orelse = block(st.orelse)
                    out.append(st)
                else:
                    out.extend(block(st.body if v else st.orelse))
            elif isinstance(st, (ast.For, ast.While)):
                st.body = block(st.body) or [ast.Pass()]
                st.orelse = block(st.orelse)
                out.append(st)
            elif isinstance(st, ast.With):
                st.body = block(st.body) or [ast.Pass()]
                out.append(st)
            elif isinstance(st, ast.Try):
                st.body = block(st.body) or [ast.Pass()]
                for h in st.handlers:
                    h.body = block(h.body) or [ast.Pass()]
                st.orelse = block(st.orelse)
                st.finalbody = block(st.finalbody)
                out.append(st)
            else:
                out.append(st)
        return out
    return block(stmts) or [ast.Pass()]


def _lower(stmts, res):
    """lower returns to structured code; -> (stmts, always_returns)"""
    out = []
    for i, st in enumerate(stmts):
        if isinstance(st, ast.Return):
            if res is not None:
                out.append(ast.Assign(targets=[ast.Name(id=res, ctx=ast.Store())], value=st.value or ast.Constant(value=None), lineno=st.lineno, col_offset=0))
            return out, True
        if _contains(st, ast.Return):
            if not isinstance(st, ast.If):
                raise NotInlinable('return inside %s' % type(st).__name__)
            b, br = _lower(st.body, res)
            o, orr = _lower(st.orelse, res)
            rest = stmts[i + 1:]
            if br and orr:
                out.append(ast.If(test=st.test, body=b or [ast.Pass()], orelse=o))
                return out, True
            if br and not _contains(o, ast.Return):
                r, rr = _lower(rest, res)
                out.append(ast.If(test=st.test, body=b or [ast.Pass()], orelse=o + r))
                return out, rr
            if orr and not _contains(b, ast.Return):
                r, rr = _lower(rest, res)
                out.append(ast.If(test=st.test, body=(b + r) or [ast.Pass()], orelse=o or []))
                return out, rr
            # a return on some nested paths only: the continuation is copied into both branches (still structured, no flag variable)
            if sum(1 for x in rest for _ in ast.walk(x)) > 400:
                raise NotInlinable('return on some nested paths only, long continuation')
            bb, br2 = _lower(list(st.body) + clone(rest), res)
            oo, or2 = _lower(list(st.orelse) + clone(rest), res)
            out.append(ast.If(test=st.test, body=bb or [ast.Pass()], orelse=oo))
            return out, br2 and or2
        out.append(st)
    return out, False


def _to_expr(stmts):
    """a body made only of if / return -> one (conditional) expression"""
    if not stmts:
        raise NotInlinable('falls off the end')
    st = stmts[0]
    if isinstance(st, ast.Return):
        return st.value or ast.Constant(value=None)
    if isinstance(st, ast.If):
        a = _to_expr(st.body)
        b = _to_expr(st.orelse + stmts[1:])
        return ast.IfExp(test=st.test, body=a, orelse=b)
    raise NotInlinable('statement in expression position')


class Inliner:
    def __init__(self, facts, cinfo, rel, keep=(), force=(), depth=MAX_DEPTH):
        self.facts = facts
        self.cinfo = cinfo
        self.rel = rel
        self.keep = set(keep)
        self.force = set(force)
        self.depth = depth
        self.counter = 0
        self.inlined = []       # names of inlined callees (for the evidence)

    # ---- resolution -------------------------------------------------------
    def resolve(self, call):
        """-> (callee FunctionDef, receiver expr or None, skip_self: bool) or None"""
        f = call.func
        name = f.attr if isinstance(f, ast.Attribute) else f.id if isinstance(f, ast.Name) else None
        if name is None or name in self.keep:
            return None
        if not (name.startswith('_') or name in self.force) or name.startswith('__'):
            return None
        if isinstance(f, ast.Attribute):
            if isinstance(f.value, ast.Name) and f.value.id == 'self' and self.cinfo is not None:
                m = self.facts.lookup(self.cinfo, name)
                if m is not None:
                    return m, f.value, self._is_static(m)
            if _simple(f.value) and not (isinstance(f.value, ast.Name) and f.value.id == 'self') and self.cinfo is not None:
                # other._helper(...): a private helper of the same class called on another object of that class
                m = self.facts.lookup(self.cinfo, name)
                ndef = sum(1 for lst in self.facts.classes.values() for k in lst if name in k.methods)
                if m is not None and ndef == 1 and not self._is_static(m) and not (isinstance(f.value, ast.Name) and any(k.name == f.value.id for k in self.facts.mro(self.cinfo))):
                    return m, f.value, False
            if isinstance(f.value, ast.Name) and self.cinfo is not None:
                # Class._helper(...): static / class-level helper of the same class hierarchy
                for k in self.facts.mro(self.cinfo):
                    if k.name == f.value.id and name in k.methods:
                        m = k.methods[name]
                        if self._is_static(m):
                            return m, None, True
            if isinstance(f.value, ast.Name) and name in self.force:
                # OtherClass.helper(...): a static helper of another class, inlined only when asked for by name
                k = self.facts.cls(f.value.id, required=False)
                if k is not None and name in k.methods and (self._is_static(k.methods[name]) or not k.methods[name].args.args or k.methods[name].args.args[0].arg != 'self'):
                    return k.methods[name], None, True
            return None
        # module-level function of the same file
        try:
            fn = self.facts.func(self.rel, name, required=False)
        except Exception:
            fn = None
        if fn is not None:
            return fn, None, True
        return None

    @staticmethod
    def _is_static(m):
        return any(isinstance(d, ast.Name) and d.id == 'staticmethod' for d in m.decorator_list)

    # ---- one call -----------------------------------------------------------
    def bind(self, call, callee, recv, static):
        a = callee.args
        if a.vararg or a.kwarg or a.kwonlyargs or a.posonlyargs:
            raise NotInlinable('varargs')
        if any(isinstance(x, ast.Starred) for x in call.args) or any(k.arg is None for k in call.keywords):
            raise NotInlinable('starred call')
        params = [p.arg for p in a.args]
        bound = {}
        if not static:
            if not params:
                raise NotInlinable('no self')
            bound[params[0]] = recv
            params = params[1:]
        if len(call.args) > len(params):
            raise NotInlinable('arity')
        for p, x in zip(params, call.args):
            bound[p] = x
        for k in call.keywords:
            if k.arg not in params or k.arg in bound:
                raise NotInlinable('keyword')
            bound[k.arg] = k.value
        defaults = dict(zip([p.arg for p in a.args][len(a.args) - len(a.defaults):], a.defaults))
        for p in params:
            if p not in bound:
                if p not in defaults:
                    raise NotInlinable('missing argument')
                bound[p] = defaults[p]
        return bound

    def body_of(self, callee, bound, caller_names, res):
        if _contains(callee.body, (ast.Yield, ast.YieldFrom, ast.FunctionDef, ast.AsyncFunctionDef, ast.Lambda, ast.Global, ast.Nonlocal, ast.ClassDef, ast.Await)):
            raise NotInlinable('nested scope / generator')
        body = list(callee.body)
        if body and isinstance(body[0], ast.Expr) and isinstance(body[0].value, ast.Constant) and isinstance(body[0].value.value, str):
            body = body[1:]
        if sum(1 for _ in ast.walk(ast.Module(body=body, type_ignores=[]))) > MAX_STMTS * 12:
            raise NotInlinable('callee too large')
        self.counter += 1
        k = self.counter
        stored = _stored_names(callee)
        expr_map, name_map, prelude = {}, {}, []
        for p, x in bound.items():
            if _simple(x) and p not in stored:
                expr_map[p] = x
            else:
                t = '_i%d_%s' % (k, p)
                name_map[p] = t
                prelude.append(ast.Assign(targets=[ast.Name(id=t, ctx=ast.Store())], value=clone(x), lineno=getattr(x, 'lineno', 1), col_offset=0))
        for n in stored:
            if n not in bound and n in caller_names:
                name_map[n] = '_i%d_%s' % (k, n)
        body = [_Subst(expr_map, name_map).visit(clone(s)) for s in body]
        # a flag parameter bound to a literal decides its tests: dead branches are dropped (`if True: A else: B` -> A)
        body = _prune_constant_tests(body)
        return prelude, body

    # ---- statements ---------------------------------------------------------
    def inline_stmts(self, stmts, caller_names, depth, stack):
        out = []
        for st in stmts:
            out.extend(self.inline_stmt(st, caller_names, depth, stack))
        return out

    def _hoistable_call(self, expr):
        """first inlinable call in expr that is evaluated unconditionally (not under and/or, if-else, comprehension, lambda)"""
        found = []

        def walk(n, cond):
            if isinstance(n, ast.Call) and not cond and self.resolve(n) is not None:
                found.append(n)
            for f, v in ast.iter_fields(n):
                vs = v if isinstance(v, list) else [v]
                for i, c in enumerate(vs):
                    if not isinstance(c, ast.AST):
                        continue
                    cc = cond
                    if isinstance(n, ast.BoolOp) and i > 0:
                        cc = True
                    if isinstance(n, ast.IfExp) and f != 'test':
                        cc = True
                    if isinstance(n, (ast.ListComp, ast.SetComp, ast.DictComp, ast.GeneratorExp, ast.Lambda)):
                        cc = True
                    walk(c, cc)
        if expr is not None:
            walk(expr, False)
        return found[0] if found else None

    def _expr_inline(self, expr, caller_names, depth, stack):
        """replace calls whose callee is a pure conditional-expression body, anywhere in expr"""
        if expr is None or depth <= 0:
            return expr
        me = self

        class T(ast.NodeTransformer):
            def visit_Call(self, n):
                self.generic_visit(n)
                r = me.resolve(n)
                if r is None:
                    return n
                callee, recv, static = r
                if callee.name in stack:
                    return n
                try:
                    bound = me.bind(n, callee, recv, static)
                    if any(not _simple(x) for x in bound.values()):
                        raise NotInlinable('argument not simple')
                    prelude, body = me.body_of(callee, bound, caller_names, None)
                    if prelude:
                        raise NotInlinable('needs a temporary')
                    e = _to_expr(body)
                except NotInlinable:
                    return n
                me.inlined.append(callee.name)
                return me._expr_inline(e, caller_names, depth - 1, stack + [callee.name])
        return T().visit(expr)

    def inline_stmt(self, st, caller_names, depth, stack):
        if depth <= 0:
            return [st]
        # expression-level first (works in any position, including while tests)
        for field in ('test', 'value', 'iter'):
            if hasattr(st, field) and isinstance(getattr(st, field), ast.AST):
                setattr(st, field, self._expr_inline(getattr(st, field), caller_names, depth, stack))
        if isinstance(st, ast.Expr) and isinstance(st.value, ast.Call):
            r = self.resolve(st.value)
            if r is not None and r[0].name not in stack:
                callee, recv, static = r
                try:
                    bound = self.bind(st.value, callee, recv, static)
                    prelude, body = self.body_of(callee, bound, caller_names, None)
                    body, _ = _lower(body, None)
                except NotInlinable:
                    return [st]
                self.inlined.append(callee.name)
                return prelude + self.inline_stmts(body, caller_names, depth - 1, stack + [callee.name]) or [ast.Pass()]
        head = None
        if isinstance(st, (ast.Assign, ast.AugAssign, ast.Return, ast.Expr, ast.AnnAssign)):
            head = 'value'
        elif isinstance(st, ast.If):
            head = 'test'
        elif isinstance(st, ast.For):
            head = 'iter'
        if head is not None and getattr(st, head, None) is not None:
            call = self._hoistable_call(getattr(st, head))
            if call is not None:
                callee, recv, static = self.resolve(call)
                if callee.name not in stack:
                    try:
                        bound = self.bind(call, callee, recv, static)
                        self.counter += 1
                        res = '_r%d_%s' % (self.counter, callee.name.strip('_'))
                        prelude, body = self.body_of(callee, bound, caller_names, res)
                        body, always = _lower(body, res)
                        if not always:
                            body = [ast.Assign(targets=[ast.Name(id=res, ctx=ast.Store())], value=ast.Constant(value=None), lineno=1, col_offset=0)] + body
                        # simplify: body that ends with `res = expr` directly followed by the use
                        class R(ast.NodeTransformer):
                            def visit_Call(self, n):
                                if n is call:
                                    return ast.Name(id=res, ctx=ast.Load())
                                self.generic_visit(n)
                                return n
                        setattr(st, head, R().visit(getattr(st, head)))
                        self.inlined.append(callee.name)
                        pre = prelude + self.inline_stmts(body, caller_names, depth - 1, stack + [callee.name])
                        return pre + self.inline_stmt(st, caller_names, depth, stack)
                    except NotInlinable:
                        pass
        # recurse into compound statements
        for field in ('body', 'orelse', 'finalbody'):
            v = getattr(st, field, None)
            if isinstance(v, list) and v and isinstance(v[0], ast.stmt):
                setattr(st, field, self.inline_stmts(v, caller_names, depth, stack))
        if isinstance(st, ast.Try):
            for h in st.handlers:
                h.body = self.inline_stmts(h.body, caller_names, depth, stack)
        if isinstance(st, ast.Match):
            for c in st.cases:
                c.body = self.inline_stmts(c.body, caller_names, depth, stack)
        return [st]


def inline_function(facts, cinfo, fn, rel=None, keep=(), force=(), depth=MAX_DEPTH):
    """copy of fn with helper calls inlined; attribute `_inlined` lists the callees; the original is returned
    unchanged (same object) when nothing was inlined"""
    rel = rel or (cinfo.rel if cinfo is not None else None)
    inl = Inliner(facts, cinfo, rel, keep, force, depth)
    new = clone(fn)
    # deepcopy follows _parent links upwards: cut them first on the copy
    names = _stored_names(fn) | {a.arg for a in fn.args.args}
    new.body = inl.inline_stmts(new.body, names, depth, [fn.name])
    if not inl.inlined:
        return fn
    ast.fix_missing_locations(new)
    for n in ast.walk(new):
        for c in ast.iter_child_nodes(n):
            c._parent = n
    new._parent = getattr(fn, '_parent', None)
    new._inlined = sorted(set(inl.inlined))
    return new


def _pure_arg(e):
    """argument expression that may be duplicated / moved: names, attribute chains, constants, and get()/getWidth() reads on them"""
    if _simple(e):
        return True
    if isinstance(e, ast.Call) and isinstance(e.func, ast.Attribute) and e.func.attr in ('get', 'getWidth') and not e.args and not e.keywords:
        return _pure_arg(e.func.value)
    if isinstance(e, ast.Subscript):
        return _pure_arg(e.value) and _pure_arg(e.slice)
    return False


def beta_reduce(fn):
    """Local single-expression functions disappear: `def f(x): return E` / `f = lambda x: E` defined in the body of fn and only ever called directly, and
    calls whose callee is a lambda expression, are replaced by E with the parameters substituted.  Returns a new function, or fn itself."""
    def single_expr(node):
        if isinstance(node, ast.Lambda):
            a, body = node.args, node.body
        else:
            a = node.args
            st = [x for x in node.body if not (isinstance(x, ast.Expr) and isinstance(x.value, ast.Constant))]
            if len(st) != 1 or not isinstance(st[0], ast.Return) or st[0].value is None:
                return None
            body = st[0].value
        if a.vararg or a.kwarg or a.kwonlyargs or a.defaults or a.posonlyargs:
            return None
        if _contains(body, (ast.Lambda, ast.Yield, ast.YieldFrom, ast.Await, ast.NamedExpr)):
            return None
        return [p.arg for p in a.args], body

    def apply(params, body, call):
        if call.keywords or len(call.args) != len(params) or any(isinstance(x, ast.Starred) for x in call.args):
            return None
        uses = {p: sum(1 for n in ast.walk(body) if isinstance(n, ast.Name) and n.id == p) for p in params}
        for p, arg in zip(params, call.args):
            if uses[p] > 1 and not _pure_arg(arg):
                return None
        return _Subst({p: arg for p, arg in zip(params, call.args)}, {}).visit(clone(body))

    defs = {}
    for st in fn.body:
        if isinstance(st, ast.FunctionDef) and not st.decorator_list:
            se = single_expr(st)
            if se and not any(isinstance(n, ast.Name) and n.id == st.name for n in ast.walk(se[1])):
                defs[st.name] = (st, se)
        elif isinstance(st, ast.Assign) and len(st.targets) == 1 and isinstance(st.targets[0], ast.Name) and isinstance(st.value, ast.Lambda):
            se = single_expr(st.value)
            if se:
                defs[st.targets[0].id] = (st, se)
    # every other occurrence of the name must be the callee of a direct call, and the name is bound once
    for name in list(defs):
        dst = defs[name][0]
        binds = sum(1 for n in ast.walk(fn) if (isinstance(n, ast.FunctionDef) and n is not fn and n.name == name) or
                    (isinstance(n, ast.Name) and n.id == name and isinstance(n.ctx, ast.Store)))
        callees = {id(n.func) for n in ast.walk(fn) if isinstance(n, ast.Call) and isinstance(n.func, ast.Name) and n.func.id == name}
        loads = [n for n in ast.walk(fn) if isinstance(n, ast.Name) and n.id == name and isinstance(n.ctx, ast.Load)]
        if binds != 1 or any(id(n) not in callees for n in loads):
            del defs[name]
    direct = any(isinstance(n, ast.Call) and isinstance(n.func, ast.Lambda) for n in ast.walk(fn))
    if not defs and not direct:
        return fn
    new = clone(fn)
    failed = set()

    class R(ast.NodeTransformer):
        def visit_Call(self, n):
            self.generic_visit(n)
            if isinstance(n.func, ast.Lambda):
                se = single_expr(n.func)
                r = apply(se[0], se[1], n) if se else None
                return r if r is not None else n
            if isinstance(n.func, ast.Name) and n.func.id in defs:
                r = apply(defs[n.func.id][1][0], defs[n.func.id][1][1], n)
                if r is None:
                    failed.add(n.func.id)
                    return n
                return r
            return n
    R().visit(new)
    if failed:
        # keep the definitions that could not be reduced everywhere: redo without them
        for k in failed:
            defs.pop(k, None)
        if not defs and not direct:
            return fn
        new = clone(fn)
        failed.clear()
        R().visit(new)
    drop = {id(v[0]) for v in defs.values()}
    names = set(defs)
    new.body = [st for st in new.body if not ((isinstance(st, ast.FunctionDef) and st.name in names) or
                                              (isinstance(st, ast.Assign) and len(st.targets) == 1 and isinstance(st.targets[0], ast.Name)
                                               and st.targets[0].id in names and isinstance(st.value, ast.Lambda)))] or [ast.Pass()]
    ast.fix_missing_locations(new)
    for n in ast.walk(new):
        for ch in ast.iter_child_nodes(n):
            ch._parent = n
    new._parent = getattr(fn, '_parent', None)
    new._inlined = sorted(set(getattr(fn, '_inlined', [])) | {'<local %s>' % k for k in names} | ({'<lambda>'} if direct else set()))
    return new


def normalise(sm, facts=None, keep=None):
    """source map in which every function of the package has its private helper calls inlined; files without
    such calls keep their original text (the same SourceMap object is returned when nothing changes)"""
    from .facts import Facts
    facts = facts or Facts(sm)
    keep = keep if keep is not None else Facts.KEEP
    overlay = {}
    report = {}
    for rel in sorted(sm.files):
        t = sm.try_tree(rel)
        if t is None:
            continue
        changed = False
        by_class = {}
        for lst in facts.classes.values():
            for c in lst:
                if c.rel == rel:
                    by_class[c.name] = c

        def process(body, cinfo):
            nonlocal changed
            for i, st in enumerate(body):
                if isinstance(st, (ast.FunctionDef,)):
                    new = inline_function(facts, cinfo, st, rel=rel, keep=keep)
                    new = beta_reduce(new)
                    if new is not st:
                        body[i] = new
                        changed = True
                        report.setdefault(rel, []).append('%s%s <- %s' % ((cinfo.name + '.') if cinfo else '', st.name, ','.join(new._inlined)))
                elif isinstance(st, ast.ClassDef):
                    ci = by_class.get(st.name)
                    process(st.body, ci)
        # work on a clone so that the cached original tree stays intact
        t2 = clone(t)
        process(t2.body, None)
        if changed:
            ast.fix_missing_locations(t2)
            overlay[rel] = ast.unparse(t2)
    if not overlay:
        return sm, {}
    return sm.with_overlay(overlay), report
