"""Both-ways self-validation on an in-memory overlay (thorough tier).

Each case replaces one text fragment of one file in the source map and re-runs
the property's rules.  `expect` = rule id that must newly fire (breaking
mutation), or None (behaviour-preserving refactor: nothing new may fire and the
analysis must stay evaluable).  A case whose anchor text is no longer present
(the tree under analysis was edited there) is skipped and reported as such.
"""
from .facts import Facts
from .report import Ctx


def sub_run(run, sm, pid='SELFVAL'):
    c = Ctx(pid, 'quick', sm.root)
    try:
        run(c, sm, Facts(sm))
    except Exception as e:      # noqa
        c.error('engine', '%s: %s' % (type(e).__name__, e))
    return c


def run_selfval(ctx, sm, run, cases):
    base = sub_run(run, sm)
    bkeys = {(v['rule'], v['key']) for v in base.violations}
    res = []
    for case in cases:
        text = sm.files.get(case['file'])
        if text is None or case['old'] not in text:
            res.append(dict(case=case['name'], outcome='skipped (anchor text not present in this tree)'))
            continue
        sm2 = sm.with_overlay({case['file']: text.replace(case['old'], case['new'], 1)})
        c = sub_run(run, sm2)
        new = [(v['rule'], v['key']) for v in c.violations if (v['rule'], v['key']) not in bkeys]
        if case.get('expect'):
            hit = [k for k in new if k[0].startswith(case['expect'])]
            ok = bool(hit)
            res.append(dict(case=case['name'], kind='breaking', expect=case['expect'],
                            reported=[list(k) for k in new][:4], errors=c.errors[:2],
                            outcome='detected' if ok else 'MISSED'))
            if not ok:
                ctx.error('selfval', 'breaking mutation `%s` not reported by %s (new=%s errors=%s)'
                          % (case['name'], case['expect'], new[:3], c.errors[:2]))
        else:
            ok = not new and len(c.errors) <= len(base.errors)
            res.append(dict(case=case['name'], kind='preserving', reported=[list(k) for k in new][:4],
                            errors=c.errors[:2], outcome='silent' if ok else 'FALSE-ALARM'))
            if not ok:
                ctx.error('selfval', 'behaviour-preserving refactor `%s` raised %s / errors %s'
                          % (case['name'], new[:3], c.errors[:2]))
    ctx.selfval = dict(cases=len(cases), results=res)
