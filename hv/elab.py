"""M9 (generalised): elaboration of structural constructors by abstract interpretation.

The constructors of the library only *build* circuits: they create wires, register
ports and instantiate children; no wire ever carries a value while they run.  This
module interprets that construction code (the constructor of the block under
analysis, the constructors of everything it instantiates, and the registration code
of base.py itself) over an object model whose only data are integers, strings, lists
and circuit objects - i.e. constant propagation with loop unrolling under one entry
context (concrete widths / arities / parameters).  The result is the netlist of leaf
instances that *every* block of that configuration consists of.  Behaviour is never
interpreted here: leaves are later evaluated through their symbolic summaries.

Anything outside the supported subset raises ElabError (-> the class is reported as
not elaborated, never as a violation).  ElabRaise = the constructor itself refuses
the configuration (raise / failed assert)."""
import ast
import math

from .srcmap import norm


ITERTOOLS = ('permutations', 'combinations', 'product', 'chain', 'accumulate', 'zip_longest', 'combinations_with_replacement', 'islice', 'starmap', 'pairwise')


class ElabError(Exception):
    pass


class ElabRaise(Exception):
    pass


class _Return(Exception):
    def __init__(self, v):
        self.v = v


class _Break(Exception):
    pass


class _Continue(Exception):
    pass


class PyExc(Exception):
    """a Python exception raised inside interpreted code (KeyError, IndexError, ...) that the code may catch"""

    def __init__(self, kind, msg=''):
        Exception.__init__(self, '%s: %s' % (kind, msg))
        self.kind = kind


class ObjV:
    _n = 0

    def __init__(self, cinfo):
        self.cinfo = cinfo
        self.attrs = {}
        ObjV._n += 1
        self.oid = ObjV._n

    def __repr__(self):
        return '<%s#%d %s>' % (self.cinfo.name, self.oid, self.attrs.get('name', ''))


class ClassRef:
    def __init__(self, cinfo):
        self.cinfo = cinfo

    def __eq__(self, other):
        return isinstance(other, ClassRef) and other.cinfo is self.cinfo

    def __hash__(self):
        return hash((self.cinfo.rel, self.cinfo.name))

    def __repr__(self):
        return '<class %s>' % self.cinfo.name


class FuncRef:
    def __init__(self, fn, cinfo=None, selfobj=None, rel=None):
        self.fn, self.cinfo, self.selfobj, self.rel = fn, cinfo, selfobj, rel


class SuperRef:
    def __init__(self, obj, after):
        self.obj, self.after = obj, after


_NP = []


def numpy_mod(required=True):
    if not _NP:
        try:
            import numpy
            _NP.append(numpy)
        except ImportError:
            _NP.append(None)
    if _NP[0] is None and required:
        raise ElabError('numpy is not available to bridge array bookkeeping')
    return _NP[0]


class NativeObj:
    """stand-in for an object of an external library whose only role is layout arithmetic"""


class TextPathStub(NativeObj):
    """matplotlib.textpath.TextPath: only the extent of a label is used (symbol widths); a fixed-pitch estimate"""

    def __init__(self, pos, text, size=12, **kw):
        self.text, self.size = str(text), size

    def get_extents(self):
        e = NativeObj()
        e.width = 0.6 * self.size * len(self.text)
        e.height = float(self.size)
        return e


class ModuleRef:
    def __init__(self, name):
        self.name = name


class SetList(list):
    """order-preserving stand-in for a Python set (iteration order of a set of objects is arbitrary anyway)"""


class Closure:
    """nested function: reads of enclosing variables see their value at call time (late binding), objects are shared;
    rebinding an enclosing variable (nonlocal) is outside the subset"""

    def __init__(self, node, frame):
        self.node, self.frame = node, frame


class Lambda:
    def __init__(self, node, frame):
        self.node, self.frame = node, frame


BUILTIN_TYPES = {'int': int, 'str': str, 'list': list, 'dict': dict, 'tuple': tuple, 'bool': bool, 'float': float}
MAX_STEPS = 400000


class Elab:
    def __init__(self, facts):
        self.facts = facts
        self.steps = 0
        self.class_attrs = {}
        self.modglobals = {}
        if not hasattr(facts, '_visible_classes'):
            facts._visible_classes = {}
        self._visible = facts._visible_classes      # shared by every interpreter over the same facts
        self.depth = 0

    # ------------------------------------------------------------------ classes
    def visible_classes(self, rel, seen=None):
        """name -> ClassInfo visible in module `rel`: imports processed in order (star imports
        followed recursively, cycles cut), the module's own definitions last"""
        if rel in self._visible:
            return self._visible[rel]
        seen = seen or set()
        if rel in seen:
            return {}
        seen = seen | {rel}
        out = {}
        sm = self.facts.sm
        t = sm.try_tree(rel) if rel else None
        if t is None:
            return out
        m2r = sm.mod2rel()
        for st in t.body:
            if isinstance(st, ast.ImportFrom):
                tgt = sm.resolve_import(rel, st.level, st.module)
                trel = m2r.get(tgt) if tgt else None
                for a in st.names:
                    if a.name == '*':
                        if trel:
                            out.update(self.visible_classes(trel, seen))
                    elif trel:
                        v = self.visible_classes(trel, seen)
                        if a.name in v:
                            out[a.asname or a.name] = v[a.name]
        for lst in self.facts.classes.values():
            for c in lst:
                if c.rel == rel:
                    out[c.name] = c
        if len(seen) == 1:
            self._visible[rel] = out
        return out

    def find_class(self, name, rel=None):
        c = self.facts.classes.get(name)
        if not c:
            return None
        if rel:
            v = self.visible_classes(rel)
            if name in v:
                return v[name]
        # prefer library definitions over code_generation / transpilation duplicates
        for k in c:
            if k.rel.startswith('py4hw/base.py') or k.rel.startswith('py4hw/logic') or k.rel.startswith('py4hw/helper'):
                return k
        return c[0]

    def mro(self, cinfo):
        return self.facts.mro(cinfo)

    def isinstance_(self, v, cls):
        if isinstance(cls, tuple):
            return any(self.isinstance_(v, k) for k in cls)
        if isinstance(cls, type):
            if cls is ast.AST and isinstance(v, ObjV):
                return 'AST' in self.base_names(v.cinfo)
            if cls is int:
                return isinstance(v, int) and not isinstance(v, bool) or isinstance(v, bool)
            return isinstance(v, cls)
        if isinstance(cls, ClassRef):
            if not isinstance(v, ObjV):
                return False
            return any(k.name == cls.cinfo.name for k in self.mro(v.cinfo))
        raise ElabError('isinstance against %r' % (cls,))

    def class_attr(self, cinfo, name):
        for k in self.mro(cinfo):
            key = (k.rel, k.name)
            if key not in self.class_attrs:
                d = {}
                for s in k.node.body:
                    if isinstance(s, ast.Assign) and len(s.targets) == 1 and isinstance(s.targets[0], ast.Name):
                        try:
                            d[s.targets[0].id] = self.eval(s.value, {'__rel__': k.rel})
                        except ElabError:
                            pass
                self.class_attrs[key] = d
            if name in self.class_attrs[key]:
                return True, self.class_attrs[key], k
        return False, None, None

    # ------------------------------------------------------------------ attribute access
    def getattr_(self, v, name, frame=None):
        if isinstance(v, NativeObj):
            if not hasattr(v, name):
                raise PyExc('AttributeError', '%s has no attribute %s' % (type(v).__name__, name))
            a = getattr(v, name)
            return ('npfn', a) if callable(a) else a
        if numpy_mod(False) is not None and isinstance(v, (numpy_mod().ndarray, numpy_mod().generic)):
            a = getattr(v, name, None)
            if a is None and not hasattr(v, name):
                raise PyExc('AttributeError', 'ndarray has no attribute %s' % name)
            return ('npfn', a) if callable(a) else (tuple(a) if name == 'shape' else a)
        if isinstance(v, ObjV):
            if name in v.attrs:
                return v.attrs[name]
            m = self.facts.lookup(v.cinfo, name)
            if m is not None:
                decos = {norm(d) for d in m.decorator_list}
                if 'staticmethod' in decos or (m.args.args[:1] and m.args.args[0].arg not in ('self', 'cls') and not m.args.args[0].arg.startswith('self')
                                               and name not in ('__init__',) and 'classmethod' not in decos and False):
                    return FuncRef(m, self.facts.owner(v.cinfo, name), None)
                if 'classmethod' in decos:
                    return FuncRef(m, self.facts.owner(v.cinfo, name), ClassRef(v.cinfo))
                return FuncRef(m, self.facts.owner(v.cinfo, name), v)
            ok, d, k = self.class_attr(v.cinfo, name)
            if ok:
                return d[name]
            if name == '__class__':
                return ClassRef(v.cinfo)
            if name in ('visit', 'generic_visit') and self.is_visitor(v.cinfo):
                return ('visitor', v, name)
            if name == '__dict__':
                return v.attrs
            raise PyExc('AttributeError', '%s has no attribute %s' % (v.cinfo.name, name))
        if isinstance(v, ClassRef):
            if name == '__name__':
                return v.cinfo.name
            m = self.facts.lookup(v.cinfo, name)
            if m is not None:
                if 'classmethod' in {norm(d) for d in m.decorator_list}:
                    return FuncRef(m, self.facts.owner(v.cinfo, name), v)
                return FuncRef(m, self.facts.owner(v.cinfo, name), None)
            ok, d, k = self.class_attr(v.cinfo, name)
            if ok:
                return d[name]
            raise PyExc('AttributeError', 'class %s has no attribute %s' % (v.cinfo.name, name))
        if isinstance(v, SuperRef):
            for k in self.mro(v.obj.cinfo):
                pass
            mro = self.mro(v.obj.cinfo)
            idx = [i for i, k in enumerate(mro) if k is v.after]
            start = idx[0] + 1 if idx else 1
            for k in mro[start:]:
                if name in k.methods:
                    return FuncRef(k.methods[name], k, v.obj)
            if name == '__init__':
                return FuncRef(None, None, v.obj)
            if name in ('visit', 'generic_visit') and self.is_visitor(v.obj.cinfo):
                return ('visitor', v.obj, name)
            raise PyExc('AttributeError', 'super has no %s' % name)
        if isinstance(v, ModuleRef) and v.name in ('ast', 'astunparse', 'textwrap', 'inspect', 'copy'):
            return self.bridge_module_attr(v.name, name)
        if isinstance(v, ast.AST) or (isinstance(v, type) and issubclass(v, ast.AST)):
            try:
                return getattr(v, name)
            except AttributeError:
                raise PyExc('AttributeError', "'%s' object has no attribute '%s'" % (type(v).__name__, name))
        if isinstance(v, type) and name in ('__name__', '__qualname__'):
            return v.__name__
        if v in (ast.NodeTransformer, ast.NodeVisitor) and name in ('visit', 'generic_visit'):
            return ('visitor_unbound', name)
        if isinstance(v, ModuleRef) and v.name == 'numpy':
            # array bookkeeping of structure-only code (grids of symbols, adjacency matrices): bridged to the real library
            np = numpy_mod()
            if not hasattr(np, name):
                raise PyExc('AttributeError', 'numpy has no attribute %s' % name)
            return ('npfn', getattr(np, name))
        if isinstance(v, ModuleRef):
            if v.name == 'math':
                return ('mathfn', name) if name not in ('pi', 'e', 'inf') else getattr(math, name)
            if v.name == 'py4hw' or v.name.startswith('py4hw.'):
                c = self.find_class(name)
                if c is not None:
                    return ClassRef(c)
                for (rel, n), f in self.facts.functions.items():
                    if n == name:
                        return FuncRef(f, None, None, rel)
                return ModuleRef(v.name + '.' + name)
            if v.name == 'traceback' and name in ('print_exc', 'print_stack', 'print_exception', 'format_exc'):
                return ('npfn', (lambda *a, **k: '' if name == 'format_exc' else None))      # diagnostics only: no effect on the structure
            raise ElabError('module attribute %s.%s' % (v.name, name))
        if isinstance(v, (list, str, dict, tuple, int, float)):
            return ('native', v, name)
        if v is None:
            raise PyExc('AttributeError', "'NoneType' object has no attribute '%s'" % name)
        raise ElabError('attribute %s of %r' % (name, type(v).__name__))

    # ------------------------------------------------------------------ calls
    def call(self, f, args, kwargs, frame):
        self.steps += 1
        if self.steps > MAX_STEPS:
            raise ElabError('elaboration step budget exhausted')
        if isinstance(f, ClassRef):
            return self.instantiate(f.cinfo, args, kwargs)
        if isinstance(f, FuncRef):
            if f.fn is None:
                return None     # object.__init__
            a = list(args)
            if f.selfobj is not None:
                a = [f.selfobj] + a
            return self.call_function(f.fn, f.cinfo, a, kwargs, f.rel)
        if isinstance(f, Closure):
            return self.call_function(f.node, None, list(args), kwargs, enclosing=f.frame)
        if isinstance(f, Lambda):
            fr = dict(f.frame)
            for p, v in zip(f.node.args.args, args):
                fr[p.arg] = v
            return self.eval(f.node.body, fr)
        if isinstance(f, tuple) and f and f[0] == 'native':
            _, recv, name = f
            return self.native_method(recv, name, args, kwargs)
        if isinstance(f, tuple) and f and f[0] == 'npfn':
            try:
                pyt = dict(bool=bool, int=int, float=float, object=object, str=str)
                kwargs = {k: (pyt[v[1]] if isinstance(v, tuple) and len(v) == 2 and v[0] == 'builtin' and v[1] in pyt else v) for k, v in kwargs.items()}
                return f[1](*args, **kwargs)
            except (ValueError, TypeError, IndexError) as e:
                raise PyExc(type(e).__name__, str(e))
        if isinstance(f, tuple) and f and f[0] == 'mathfn':
            fn = getattr(math, f[1], None)
            if fn is None:
                raise ElabError('math.%s' % f[1])
            try:
                return fn(*args)
            except (ValueError, ZeroDivisionError, TypeError) as e:
                raise PyExc('ValueError', str(e))
        if isinstance(f, tuple) and f and f[0] == 'builtin':
            return self.builtin(f[1], args, kwargs, frame)
        if isinstance(f, tuple) and f and f[0] == 'visitor':
            return self.visitor_call(f[1], f[2], args)
        if isinstance(f, tuple) and f and f[0] == 'visitor_unbound':
            return self.visitor_call(args[0], f[1], args[1:])
        if isinstance(f, tuple) and f and f[0] == 'bridge':
            return self.bridge_call(f[1], args, kwargs)
        if isinstance(f, type) and issubclass(f, ast.AST):
            return f(*args, **kwargs)
        if isinstance(f, type):
            try:
                return f(*args)
            except (ValueError, TypeError) as e:
                raise PyExc('ValueError', str(e))
        raise ElabError('call of %r' % (f,))

    # ------------------------------------------------------------------ ast / inspect bridge
    def base_names(self, cinfo):
        out = set()
        for k in self.mro(cinfo):
            out.update(k.bases)
        return out

    def is_visitor(self, cinfo):
        return bool(self.base_names(cinfo) & {'NodeTransformer', 'NodeVisitor'})

    def is_astnode(self, v):
        return isinstance(v, ast.AST) or (isinstance(v, ObjV) and 'AST' in self.base_names(v.cinfo))

    def node_classname(self, v):
        return v.cinfo.name if isinstance(v, ObjV) else type(v).__name__

    def iter_fields(self, node):
        if isinstance(node, ObjV):
            if '_fields' in node.attrs:
                fields = node.attrs['_fields']
            else:
                ok, d, k = self.class_attr(node.cinfo, '_fields')
                fields = d['_fields'] if ok else ()
            return [(f, node.attrs[f]) for f in fields if f in node.attrs]
        return [(f, getattr(node, f)) for f in node._fields if hasattr(node, f)]

    def set_field(self, node, f, v):
        if isinstance(node, ObjV):
            node.attrs[f] = v
        else:
            setattr(node, f, v)

    def del_field(self, node, f):
        if isinstance(node, ObjV):
            node.attrs.pop(f, None)
        else:
            try:
                delattr(node, f)
            except AttributeError:
                pass

    def visitor_call(self, vis, name, args):
        node = args[0]
        if name == 'visit':
            mname = 'visit_' + self.node_classname(node)
            m = self.facts.lookup(vis.cinfo, mname)
            if m is not None:
                return self.call_function(m, self.facts.owner(vis.cinfo, mname), [vis, node], {})
            return self.visitor_call(vis, 'generic_visit', [node])
        transformer = 'NodeTransformer' in self.base_names(vis.cinfo)
        if not self.is_astnode(node):
            raise ElabError('generic_visit on %r' % type(node).__name__)
        visit = self.getattr_(vis, 'visit')
        for f, old in self.iter_fields(node):
            if isinstance(old, list):
                new = []
                for x in old:
                    if self.is_astnode(x):
                        r = self.call(visit, [x], {}, {})
                        if not transformer:
                            continue
                        if r is None:
                            continue
                        if isinstance(r, list):
                            new.extend(r)
                            continue
                        x = r
                    new.append(x)
                if transformer:
                    old[:] = new
            elif self.is_astnode(old):
                r = self.call(visit, [old], {}, {})
                if transformer:
                    if r is None:
                        self.del_field(node, f)
                    else:
                        self.set_field(node, f, r)
        return node if transformer else None

    def walk_nodes(self, node):
        out = []
        todo = [node]
        while todo:
            n = todo.pop(0)
            out.append(n)
            for f, v in self.iter_fields(n):
                if isinstance(v, list):
                    todo.extend(x for x in v if self.is_astnode(x))
                elif self.is_astnode(v):
                    todo.append(v)
        return out

    def bridge_module_attr(self, mod, name):
        if mod == 'ast':
            if name in ('walk', 'iter_fields', 'iter_child_nodes', 'copy_location', 'fix_missing_locations', 'parse', 'unparse', 'dump', 'increment_lineno', 'get_docstring', 'literal_eval'):
                return ('bridge', 'ast.' + name)
            if hasattr(ast, name):
                return getattr(ast, name)
            raise PyExc('AttributeError', 'module ast has no attribute %s' % name)
        if mod == 'astunparse':
            if name == 'unparse':
                return ('bridge', 'ast.unparse')
        if mod == 'textwrap' and name in ('dedent', 'indent'):
            return ('bridge', 'textwrap.' + name)
        if mod == 'inspect' and name in ('getsource', 'getmembers', 'ismethod', 'isfunction', 'getsourcelines'):
            return ('bridge', 'inspect.' + name)
        if mod == 'copy' and name in ('deepcopy', 'copy'):
            return ('bridge', 'copy.' + name)
        raise ElabError('module attribute %s.%s' % (mod, name))

    def source_of(self, f):
        if not isinstance(f, FuncRef) or f.fn is None:
            raise ElabError('getsource of %r' % (f,))
        rel = f.cinfo.rel if f.cinfo is not None else f.rel
        lines = self.facts.sm.text(rel).splitlines(True)
        fn = f.fn
        start = min([fn.lineno] + [d.lineno for d in fn.decorator_list])
        return ''.join(lines[start - 1:fn.end_lineno])

    def bridge_call(self, name, args, kwargs):
        import textwrap
        import copy as _copy
        if name == 'ast.parse':
            try:
                return ast.parse(args[0])
            except SyntaxError as e:
                raise PyExc('SyntaxError', str(e))
        if name == 'ast.unparse':
            try:
                return ast.unparse(args[0]) if isinstance(args[0], ast.AST) else repr(args[0])
            except Exception:
                return '<ast>'
        if name == 'ast.dump':
            try:
                return ast.dump(args[0])
            except Exception:
                return '<ast>'
        if name == 'ast.walk':
            return self.walk_nodes(args[0])
        if name == 'ast.iter_fields':
            return [tuple(x) for x in self.iter_fields(args[0])]
        if name == 'ast.iter_child_nodes':
            out = []
            for f, v in self.iter_fields(args[0]):
                if isinstance(v, list):
                    out.extend(x for x in v if self.is_astnode(x))
                elif self.is_astnode(v):
                    out.append(v)
            return out
        if name in ('ast.copy_location', 'ast.fix_missing_locations', 'ast.increment_lineno'):
            return args[0]
        if name == 'ast.get_docstring':
            try:
                return ast.get_docstring(args[0])
            except Exception:
                return None
        if name == 'ast.literal_eval':
            try:
                return ast.literal_eval(args[0])
            except Exception as e:
                raise PyExc('ValueError', str(e))
        if name == 'textwrap.dedent':
            return textwrap.dedent(args[0])
        if name == 'textwrap.indent':
            return textwrap.indent(*args)
        if name == 'inspect.getsource':
            return self.source_of(args[0])
        if name == 'inspect.getsourcelines':
            return (self.source_of(args[0]).splitlines(True), 0)
        if name == 'inspect.getmembers':
            obj = args[0]
            if not isinstance(obj, ObjV):
                raise ElabError('getmembers of non-object')
            out = []
            seen = set()
            for k in self.mro(obj.cinfo):
                for mn, m in k.methods.items():
                    if mn not in seen:
                        seen.add(mn)
                        out.append((mn, FuncRef(m, k, obj)))
            return sorted(out, key=lambda x: x[0])
        if name in ('inspect.ismethod', 'inspect.isfunction'):
            return isinstance(args[0], FuncRef)
        if name in ('copy.deepcopy', 'copy.copy'):
            v = args[0]
            if isinstance(v, ast.AST) and all(isinstance(n, ast.AST) for n in ast.walk(v)):
                return _copy.deepcopy(v)
            if isinstance(v, (int, str, float, bool, type(None))):
                return v
            if isinstance(v, list):
                return [self.bridge_call(name, [x], {}) if name == 'copy.deepcopy' else x for x in v]
            if isinstance(v, dict):
                return dict(v)
            raise ElabError('copy of %s' % type(v).__name__)
        raise ElabError('bridge ' + name)

    def native_method(self, recv, name, args, kwargs):
        if isinstance(recv, SetList):
            if name == 'add':
                if not self.contains(recv, args[0]):
                    recv.append(args[0])
                return None
            if name in ('discard', 'remove'):
                for i, y in enumerate(recv):
                    if self.eq(args[0], y):
                        del recv[i]
                        return None
                if name == 'remove':
                    raise PyExc('KeyError', 'set.remove')
                return None
            if name in ('update', 'union'):
                tgt = recv if name == 'update' else SetList(recv)
                for a in args:
                    for x in a:
                        if not self.contains(tgt, x):
                            tgt.append(x)
                return None if name == 'update' else tgt
            if name == 'copy':
                return SetList(recv)
            if name in ('intersection', 'difference', 'symmetric_difference', 'issubset', 'issuperset', 'isdisjoint'):
                other = list(args[0]) if args else []
                if name == 'intersection':
                    return SetList(x for x in recv if self.contains(other, x))
                if name == 'difference':
                    return SetList(x for x in recv if not self.contains(other, x))
                if name == 'symmetric_difference':
                    return SetList([x for x in recv if not self.contains(other, x)] + [x for x in other if not self.contains(recv, x)])
                if name == 'issubset':
                    return all(self.contains(other, x) for x in recv)
                if name == 'issuperset':
                    return all(self.contains(recv, x) for x in other)
                return not any(self.contains(other, x) for x in recv)
            if name == 'pop':
                if not recv:
                    raise PyExc('KeyError', 'pop from an empty set')
                return list.pop(recv, 0)
            if name == 'clear':
                del recv[:]
                return None
        if isinstance(recv, list) and name in ('append', 'extend', 'reverse', 'copy', 'insert', 'pop', 'index', 'remove', 'count', 'clear', 'sort'):
            if name == 'sort' and kwargs:
                key = kwargs.get('key')
                keyed = [(self.call(key, [x], {}, {}) if key is not None else x, i, x) for i, x in enumerate(recv)]
                try:
                    keyed.sort(key=lambda t: (t[0], t[1]), reverse=False)
                except TypeError as e:
                    raise PyExc('TypeError', str(e))
                if self.truth(kwargs.get('reverse', False)):
                    keyed.reverse()
                recv[:] = [x for _, _, x in keyed]
                return None
            try:
                return getattr(recv, name)(*args)
            except (ValueError, IndexError) as e:
                raise PyExc(type(e).__name__, str(e))
        if isinstance(recv, dict) and name in ('keys', 'values', 'items', 'get', 'copy', 'pop', 'setdefault', 'update'):
            r = getattr(recv, name)(*args)
            return list(r) if name in ('keys', 'values', 'items') else r
        if isinstance(recv, str) and name in ('format', 'join', 'split', 'startswith', 'endswith', 'upper', 'lower', 'replace', 'strip', 'find',
                                             'zfill', 'rjust', 'ljust', 'index', 'isdigit', 'rstrip', 'lstrip'):
            a = [self.strable(x) for x in args] if name == 'format' else list(args)
            try:
                return getattr(recv, name)(*a, **{k: self.strable(v) for k, v in kwargs.items()})
            except (ValueError, IndexError, KeyError) as e:
                raise PyExc(type(e).__name__, str(e))
        if isinstance(recv, int) and name in ('bit_length',):
            return recv.bit_length()
        if isinstance(recv, tuple) and name in ('index', 'count'):
            return getattr(recv, name)(*args)
        raise ElabError('method %s of %s' % (name, type(recv).__name__))

    def strable(self, v):
        if isinstance(v, (ObjV, ClassRef)):
            return repr(v)
        if isinstance(v, ast.AST):
            return '<ast.%s>' % type(v).__name__
        return v

    def builtin(self, name, args, kwargs, frame):
        if name == 'len':
            if isinstance(args[0], (list, str, dict, tuple)):
                return len(args[0])
            raise ElabError('len of %r' % type(args[0]).__name__)
        if name == 'range':
            return list(range(*args))
        if name == 'enumerate':
            return [(i, v) for i, v in enumerate(args[0])] if not kwargs else [(i, v) for i, v in enumerate(args[0], kwargs.get('start', 0))]
        if name == 'zip':
            return [tuple(t) for t in zip(*args)]
        if name == 'reversed':
            return list(reversed(args[0]))
        if name == 'sorted':
            if kwargs:
                raise ElabError('sorted with key')
            return sorted(args[0])
        if name in ('int', 'float', 'str', 'bool', 'list', 'tuple', 'abs', 'min', 'max', 'sum', 'round', 'pow', 'divmod', 'hex', 'bin', 'ord', 'chr', 'dict'):
            import builtins
            try:
                a = [self.strable(x) if name == 'str' else x for x in args]
                return getattr(builtins, name)(*a, **kwargs)
            except (ValueError, TypeError) as e:
                raise PyExc(type(e).__name__, str(e))
        if name == 'print':
            return None
        if name == 'isinstance':
            return self.isinstance_(args[0], self.as_type(args[1]))
        if name == 'type':
            v = args[0]
            if isinstance(v, ObjV):
                return ClassRef(v.cinfo)
            return type(v)
        if name == 'vars':
            o = args[0]
            if isinstance(o, ObjV):
                return o.attrs
            if isinstance(o, ClassRef):
                d = {k: FuncRef(f, o.cinfo, None) for k, f in o.cinfo.methods.items()}      # the class's own namespace (nothing inherited)
                ok, ca, _ = self.class_attr(o.cinfo, '__hv_none__')
                d.update(self.class_attrs.get((o.cinfo.rel, o.cinfo.name), {}))
                return d
            raise ElabError('vars() of %s' % type(o).__name__)
        if name == 'hasattr':
            try:
                self.getattr_(args[0], args[1])
                return True
            except PyExc:
                return False
            except ElabError:
                return False
        if name == 'getattr':
            try:
                return self.getattr_(args[0], args[1])
            except PyExc:
                if len(args) > 2:
                    return args[2]
                raise
        if name == 'setattr':
            if isinstance(args[0], ObjV):
                args[0].attrs[args[1]] = args[2]
                return None
            raise ElabError('setattr on non-object')
        if name == 'callable':
            return isinstance(args[0], (FuncRef, ClassRef, Lambda, Closure)) or (isinstance(args[0], tuple) and args[0] and args[0][0] in ('native', 'builtin', 'mathfn'))
        if name == 'id':
            return args[0].oid if isinstance(args[0], ObjV) else id(args[0])
        if name == 'super':
            raise ElabError('super() outside a method')
        if name == 'Exception':
            return ('exception', ' '.join(str(self.strable(a)) for a in args))
        if name in ('set', 'frozenset'):
            out = SetList()
            for x in (args[0] if args else []):
                if not any(self.eq(x, y) for y in out):
                    out.append(x)
            return out
        if name == 'repr':
            return repr(self.strable(args[0]))
        if name == 'format':
            return format(self.strable(args[0]), *args[1:])
        if name == 'eval':
            # only constant expressions over builtins (the transpiler folds calls with constant arguments)
            try:
                t = ast.parse(str(args[0]).strip(), mode='eval')
            except SyntaxError as e:
                raise PyExc('SyntaxError', str(e))
            return self.eval(t.body, {'__rel__': None, '__nomod__': True})
        if name == 'next':
            it = args[0]
            if isinstance(it, (list, tuple)):
                if it:
                    return it[0]
                if len(args) > 1:
                    return args[1]
                raise PyExc('StopIteration', '')
            raise ElabError('next on %s' % type(it).__name__)
        if name == 'iter':
            return list(args[0])
        if name == 'delattr':
            if isinstance(args[0], ObjV):
                args[0].attrs.pop(args[1], None)
            elif isinstance(args[0], ast.AST):
                delattr(args[0], args[1])
            return None
        if name == 'any':
            return any(args[0])
        if name == 'all':
            return all(args[0])
        raise ElabError('builtin %s' % name)

    def as_type(self, v):
        if isinstance(v, tuple) and v and v[0] == 'builtin' and v[1] in BUILTIN_TYPES:
            return BUILTIN_TYPES[v[1]]
        if isinstance(v, tuple):
            return tuple(self.as_type(x) for x in v)
        return v

    def instantiate(self, cinfo, args, kwargs):
        self.depth += 1
        if self.depth > 60:
            raise ElabError('instantiation depth')
        try:
            o = ObjV(cinfo)
            init = self.facts.lookup(cinfo, '__init__')
            if init is not None:
                self.call_function(init, self.facts.owner(cinfo, '__init__'), [o] + list(args), kwargs)
            return o
        finally:
            self.depth -= 1

    def call_function(self, fn, cinfo, args, kwargs, rel=None, enclosing=None):
        frame = {'__cls__': cinfo, '__rel__': (cinfo.rel if cinfo else rel)}
        if enclosing is not None:
            if any(isinstance(x, ast.Nonlocal) for x in ast.walk(fn)):
                raise ElabError('nonlocal in nested function')
            frame = dict(enclosing)
        params = fn.args.args
        defaults = fn.args.defaults
        nd = len(defaults)
        if len(args) > len(params) and fn.args.vararg is None:
            raise PyExc('TypeError', '%s() takes %d positional arguments but %d were given' % (fn.name, len(params), len(args)))
        for i, p in enumerate(params):
            if i < len(args):
                frame[p.arg] = args[i]
            elif p.arg in kwargs:
                frame[p.arg] = kwargs[p.arg]
            else:
                di = i - (len(params) - nd)
                if di >= 0:
                    # Python evaluates a default once, when the function is defined: a mutable default is ONE object for the whole process
                    dc = self.__dict__.setdefault('default_cache', {})
                    if (id(fn), di) not in dc:
                        dc[(id(fn), di)] = self.eval(defaults[di], frame)
                    frame[p.arg] = dc[(id(fn), di)]
                else:
                    raise PyExc('TypeError', '%s() missing argument %s' % (fn.name, p.arg))
        for k in kwargs:
            if k not in [p.arg for p in params] + [p.arg for p in fn.args.kwonlyargs]:
                raise PyExc('TypeError', '%s() got an unexpected keyword argument %s' % (fn.name, k))
        for p, d in zip(fn.args.kwonlyargs, fn.args.kw_defaults):
            frame[p.arg] = kwargs.get(p.arg, self.eval(d, frame) if d is not None else None)
        if fn.args.vararg is not None:
            frame[fn.args.vararg.arg] = list(args[len(params):])
        if params and args and enclosing is None:
            frame['__self__'] = args[0]
        try:
            self.exec_block(fn.body, frame)
        except _Return as r:
            return r.v
        return None

    # ------------------------------------------------------------------ statements
    def exec_block(self, stmts, frame):
        for s in stmts:
            self.exec(s, frame)

    def exec(self, s, frame):
        self.steps += 1
        if self.steps > MAX_STEPS:
            raise ElabError('elaboration step budget exhausted')
        if isinstance(s, ast.Expr):
            if isinstance(s.value, ast.Constant):
                return
            self.eval(s.value, frame)
        elif isinstance(s, ast.Assign):
            v = self.eval(s.value, frame)
            for t in s.targets:
                self.assign(t, v, frame)
        elif isinstance(s, ast.AugAssign):
            cur = self.eval(to_load(s.target), frame)
            v = self.binop(s.op, cur, self.eval(s.value, frame))
            self.assign(s.target, v, frame)
        elif isinstance(s, ast.AnnAssign):
            if s.value is not None:
                self.assign(s.target, self.eval(s.value, frame), frame)
        elif isinstance(s, ast.If):
            self.exec_block(s.body if self.truth(self.eval(s.test, frame)) else s.orelse, frame)
        elif isinstance(s, ast.For):
            it = self.eval(s.iter, frame)
            if isinstance(it, dict):
                it = list(it.keys())
            if not isinstance(it, (list, tuple, str)):
                raise ElabError('iteration over %s' % type(it).__name__)
            broke = False
            for v in list(it):
                self.assign(s.target, v, frame)
                try:
                    self.exec_block(s.body, frame)
                except _Continue:
                    continue
                except _Break:
                    broke = True
                    break
            if not broke:
                self.exec_block(s.orelse, frame)
        elif isinstance(s, ast.While):
            n = 0
            while self.truth(self.eval(s.test, frame)):
                n += 1
                if n > 10000:
                    raise ElabError('while loop does not terminate')
                try:
                    self.exec_block(s.body, frame)
                except _Continue:
                    continue
                except _Break:
                    break
        elif isinstance(s, ast.Return):
            raise _Return(self.eval(s.value, frame) if s.value is not None else None)
        elif isinstance(s, ast.Raise):
            if s.exc is None and frame.get('__exc__') is not None:
                raise frame['__exc__']          # bare `raise` inside a handler
            msg = ''
            try:
                v = self.eval(s.exc, frame) if s.exc is not None else None
                msg = v[1] if isinstance(v, tuple) and v and v[0] == 'exception' else str(v)
            except (ElabError, PyExc):
                msg = norm(s)[:80]
            raise ElabRaise(msg)
        elif isinstance(s, ast.Assert):
            if not self.truth(self.eval(s.test, frame)):
                er = ElabRaise('assertion failed: ' + norm(s.test)[:80])
                er.kind = 'AssertionError'
                raise er
        elif isinstance(s, (ast.Import, ast.ImportFrom)):
            if isinstance(s, ast.Import):
                for a in s.names:
                    frame[(a.asname or a.name).split('.')[0]] = ModuleRef(a.name.split('.')[0] if not a.asname else a.name)
            else:
                for a in s.names:
                    c = self.find_class(a.name)
                    if c is not None:
                        frame[a.asname or a.name] = ClassRef(c)
                    else:
                        fr = [(rel, f) for (rel, n), f in self.facts.functions.items() if n == a.name]
                        # the module named in the import decides which of several functions of that name is meant
                        want = (s.module or '').replace('.', '/') + '.py'
                        pref = [x for x in fr if s.module and (x[0] == want or x[0].endswith('/' + want.split('/')[-1]) and want.split('/')[-1] != '.py')]
                        exact = [x for x in pref if x[0] == want]
                        fr = exact or pref or fr
                        if fr:
                            frame[a.asname or a.name] = FuncRef(fr[0][1], None, None, fr[0][0])
                        elif s.module in ('math',):
                            frame[a.asname or a.name] = ('mathfn', a.name)
                        elif s.module == 'matplotlib.textpath' and a.name == 'TextPath':
                            frame[a.asname or a.name] = ('npfn', TextPathStub)
        elif isinstance(s, ast.Pass):
            return
        elif isinstance(s, ast.Break):
            raise _Break()
        elif isinstance(s, ast.Continue):
            raise _Continue()
        elif isinstance(s, ast.Try):
            try:
                try:
                    self.exec_block(s.body, frame)
                except (PyExc, ElabRaise) as e:
                    kind = e.kind if isinstance(e, PyExc) else getattr(e, 'kind', 'Exception')
                    for h in s.handlers:
                        tn = norm(h.type) if h.type is not None else None
                        if tn is None or tn in ('Exception', kind, 'BaseException') or kind in tn:
                            if h.name:
                                frame[h.name] = ('exception', str(e))
                            outer = frame.get('__exc__')
                            frame['__exc__'] = e
                            try:
                                self.exec_block(h.body, frame)
                            finally:
                                frame['__exc__'] = outer
                            break
                    else:
                        raise
                else:
                    self.exec_block(s.orelse, frame)
            finally:
                if s.finalbody:
                    self.exec_block(s.finalbody, frame)
        elif isinstance(s, ast.Delete):
            for t in s.targets:
                if isinstance(t, ast.Subscript):
                    c = self.eval(t.value, frame)
                    k = self.eval(t.slice, frame)
                    try:
                        del c[k]
                    except (KeyError, IndexError) as e:
                        raise PyExc(type(e).__name__, str(e))
                elif isinstance(t, ast.Name):
                    frame.pop(t.id, None)
                else:
                    raise ElabError('del target')
        elif isinstance(s, ast.Global):
            frame.setdefault('__globaldecl__', set()).update(s.names)
        elif isinstance(s, ast.FunctionDef):
            frame[s.name] = Closure(s, frame)
        elif isinstance(s, ast.ClassDef):
            raise ElabError('nested class definition')
        else:
            raise ElabError('statement %s' % type(s).__name__)

    def imports_from(self, rel, module, name):
        """does the file (at module or function level) contain `from <module> import <name>` (name given) / `import <module>` (name None)?"""
        t = self.facts.sm.try_tree(rel) if rel else None
        if t is None:
            return False
        for n in ast.walk(t):
            if name is not None and isinstance(n, ast.ImportFrom) and n.module == module and any(a.name in (name, '*') and (a.asname in (None, name)) for a in n.names):
                return True
            if name is None and isinstance(n, ast.Import) and any(a.name == module and a.asname in (None, module) for a in n.names):
                return True
        return False

    def eval_name(self, name, rel):
        return self.eval(ast.Name(id=name, ctx=ast.Load()), {'__rel__': rel})

    def mod_globals(self, rel):
        if rel not in self.modglobals:
            d = {}
            t = self.facts.sm.try_tree(rel) if rel else None
            if t is not None:
                for st in t.body:
                    if isinstance(st, ast.Assign) and len(st.targets) == 1 and isinstance(st.targets[0], ast.Name) \
                            and isinstance(st.value, (ast.Constant, ast.List, ast.Dict, ast.Tuple, ast.UnaryOp, ast.BinOp)):
                        try:
                            d[st.targets[0].id] = self.eval(st.value, {'__rel__': rel, '__nomod__': True})
                        except (ElabError, PyExc):
                            pass
            self.modglobals[rel] = d
        return self.modglobals[rel]

    def eval_index(self, sl, frame):
        """subscript expression -> Python index object (slices and tuples of slices included)"""
        if isinstance(sl, ast.Slice):
            return slice(self.eval(sl.lower, frame) if sl.lower is not None else None,
                         self.eval(sl.upper, frame) if sl.upper is not None else None,
                         self.eval(sl.step, frame) if sl.step is not None else None)
        if isinstance(sl, ast.Tuple) and any(isinstance(x, ast.Slice) for x in sl.elts):
            return tuple(self.eval_index(x, frame) for x in sl.elts)
        return self.eval(sl, frame)

    def assign(self, t, v, frame):
        if isinstance(t, ast.Name):
            if t.id in frame.get('__globaldecl__', ()):
                self.mod_globals(frame.get('__rel__'))[t.id] = v
            else:
                frame[t.id] = v
        elif isinstance(t, ast.Attribute):
            o = self.eval(t.value, frame)
            if isinstance(o, ObjV):
                o.attrs[t.attr] = v
            elif isinstance(o, ClassRef):
                ok, d, k = self.class_attr(o.cinfo, t.attr)
                if ok:
                    d[t.attr] = v
                else:
                    self.class_attrs.setdefault((o.cinfo.rel, o.cinfo.name), {})[t.attr] = v
            elif isinstance(o, ast.AST):
                setattr(o, t.attr, v)
            else:
                raise ElabError('attribute store on %s' % type(o).__name__)
        elif isinstance(t, ast.Subscript):
            c = self.eval(t.value, frame)
            if numpy_mod(False) is not None and isinstance(c, numpy_mod().ndarray):
                try:
                    c[self.eval_index(t.slice, frame)] = v
                except (IndexError, ValueError, TypeError) as e:
                    raise PyExc(type(e).__name__, str(e))
                return
            k = self.eval(t.slice, frame) if not isinstance(t.slice, ast.Slice) else None
            if isinstance(c, (list, dict)) and k is not None:
                try:
                    c[k] = v
                except (IndexError, KeyError, TypeError) as e:
                    raise PyExc(type(e).__name__, str(e))
            else:
                raise ElabError('subscript store')
        elif isinstance(t, (ast.Tuple, ast.List)):
            vs = list(v)
            if len(vs) != len(t.elts):
                raise PyExc('ValueError', 'unpack')
            for tt, vv in zip(t.elts, vs):
                self.assign(tt, vv, frame)
        else:
            raise ElabError('assignment target')

    def truth(self, v):
        if isinstance(v, (ObjV, ClassRef, FuncRef)):
            return True
        return bool(v)

    # ------------------------------------------------------------------ expressions
    def binop(self, op, a, b):
        try:
            if isinstance(op, ast.Add):
                return a + b
            if isinstance(op, ast.Sub):
                return a - b
            if isinstance(op, ast.Mult):
                return a * b
            if isinstance(op, ast.FloorDiv):
                return a // b
            if isinstance(op, ast.Div):
                return a / b
            if isinstance(op, ast.Mod):
                if isinstance(a, str):
                    return a % (self.strable(b) if not isinstance(b, tuple) else tuple(self.strable(x) for x in b))
                return a % b
            if isinstance(op, ast.Pow):
                if isinstance(b, int) and b > 4096:
                    raise ElabError('huge power')
                return a ** b
            if isinstance(op, ast.LShift):
                if b > 4096:
                    raise ElabError('huge shift')
                return a << b
            if isinstance(op, ast.RShift):
                return a >> b
            if isinstance(op, ast.BitAnd):
                return a & b
            if isinstance(op, ast.BitOr):
                return a | b
            if isinstance(op, ast.BitXor):
                return a ^ b
        except ZeroDivisionError as e:
            raise PyExc('ZeroDivisionError', str(e))
        except (TypeError, ValueError) as e:
            raise PyExc(type(e).__name__, '%s (%s %s %s)' % (e, type(a).__name__, type(op).__name__, type(b).__name__))
        raise ElabError('operator %s' % type(op).__name__)

    def eval(self, e, frame):
        if isinstance(e, ast.Constant):
            return e.value
        if isinstance(e, ast.Name):
            if e.id in frame and e.id not in frame.get('__globaldecl__', ()):
                return frame[e.id]
            if not frame.get('__nomod__'):
                mg = self.mod_globals(frame.get('__rel__'))
                if e.id in mg:
                    return mg[e.id]
            c = self.find_class(e.id, frame.get('__rel__'))
            if c is not None:
                return ClassRef(c)
            rel = frame.get('__rel__')
            if (rel, e.id) in self.facts.functions:
                return FuncRef(self.facts.functions[(rel, e.id)], None, None, rel)
            fr = [(r, f) for (r, n), f in self.facts.functions.items() if n == e.id]
            if fr:
                return FuncRef(fr[0][1], None, None, fr[0][0])
            if e.id in ('math', 'py4hw', 'ast', 'astunparse', 'textwrap', 'inspect', 'copy'):
                return ModuleRef(e.id)
            if e.id in ('np', 'numpy'):
                return ModuleRef('numpy')
            if e.id in ('True', 'False', 'None'):
                return {'True': True, 'False': False, 'None': None}[e.id]
            if e.id == 'object':
                return object
            if e.id in ('len', 'range', 'enumerate', 'zip', 'reversed', 'sorted', 'int', 'float', 'str', 'bool', 'list', 'tuple', 'abs', 'min', 'max', 'sum', 'round',
                        'pow', 'divmod', 'hex', 'bin', 'ord', 'chr', 'dict', 'print', 'isinstance', 'type', 'hasattr', 'getattr', 'setattr', 'callable', 'id', 'vars',
                        'super', 'Exception', 'any', 'all', 'set', 'frozenset', 'repr', 'iter', 'next', 'format', 'map', 'filter', 'delattr', 'TranspilationException', 'eval'):
                return ('builtin', e.id)
            if e.id in ITERTOOLS and self.imports_from(frame.get('__rel__'), 'itertools', e.id):
                import itertools
                fn = getattr(itertools, e.id)
                return ('npfn', (lambda *a, _fn=fn, **k: list(_fn(*a, **k))))
            if e.id == 'itertools' and self.imports_from(frame.get('__rel__'), 'itertools', None):
                return ModuleRef('itertools')
            raise PyExc('NameError', "name '%s' is not defined" % e.id)
        if isinstance(e, ast.Attribute):
            if isinstance(e.value, ast.Name) and e.value.id == 'itertools' and e.attr in ITERTOOLS and self.imports_from(frame.get('__rel__'), 'itertools', None):
                import itertools
                fn = getattr(itertools, e.attr)
                return ('npfn', (lambda *a, _fn=fn, **k: list(_fn(*a, **k))))
            return self.getattr_(self.eval(e.value, frame), e.attr, frame)
        if isinstance(e, ast.Call):
            if isinstance(e.func, ast.Name) and e.func.id == 'super' and not e.args:
                return SuperRef(frame.get('__self__'), frame.get('__cls__'))
            f = self.eval(e.func, frame)
            args = []
            for a in e.args:
                if isinstance(a, ast.Starred):
                    args += list(self.eval(a.value, frame))
                else:
                    args.append(self.eval(a, frame))
            kwargs = {}
            for k in e.keywords:
                if k.arg is None:
                    kwargs.update(self.eval(k.value, frame))
                else:
                    kwargs[k.arg] = self.eval(k.value, frame)
            if isinstance(f, tuple) and f and f[0] == 'builtin' and f[1] == 'super':
                return SuperRef(args[1] if len(args) > 1 else frame.get('__self__'), frame.get('__cls__'))
            return self.call(f, args, kwargs, frame)
        if isinstance(e, ast.BinOp):
            return self.binop(e.op, self.eval(e.left, frame), self.eval(e.right, frame))
        if isinstance(e, ast.UnaryOp):
            v = self.eval(e.operand, frame)
            if isinstance(e.op, ast.Not):
                return not self.truth(v)
            if isinstance(e.op, ast.USub):
                return -v
            if isinstance(e.op, ast.Invert):
                return ~v
            return +v
        if isinstance(e, ast.BoolOp):
            v = None
            for x in e.values:
                v = self.eval(x, frame)
                if isinstance(e.op, ast.And) and not self.truth(v):
                    return v
                if isinstance(e.op, ast.Or) and self.truth(v):
                    return v
            return v
        if isinstance(e, ast.Compare):
            l = self.eval(e.left, frame)
            for op, r in zip(e.ops, e.comparators):
                rv = self.eval(r, frame)
                try:
                    npm = numpy_mod(False)
                    if npm is not None and (isinstance(l, npm.ndarray) or isinstance(rv, npm.ndarray)) and not isinstance(op, (ast.Is, ast.IsNot, ast.In, ast.NotIn)):
                        # element-wise comparison of an array (single comparator): the array result is returned as it is
                        import operator as _op
                        return {ast.Eq: _op.eq, ast.NotEq: _op.ne, ast.Lt: _op.lt, ast.LtE: _op.le, ast.Gt: _op.gt, ast.GtE: _op.ge}[type(op)](l, rv)
                    if isinstance(op, ast.Is):
                        res = l is rv
                    elif isinstance(op, ast.IsNot):
                        res = l is not rv
                    elif isinstance(op, ast.Eq):
                        res = self.eq(l, rv)
                    elif isinstance(op, ast.NotEq):
                        res = not self.eq(l, rv)
                    elif isinstance(op, ast.Lt):
                        res = l < rv
                    elif isinstance(op, ast.LtE):
                        res = l <= rv
                    elif isinstance(op, ast.Gt):
                        res = l > rv
                    elif isinstance(op, ast.GtE):
                        res = l >= rv
                    elif isinstance(op, ast.In):
                        res = self.contains(rv, l)
                    elif isinstance(op, ast.NotIn):
                        res = not self.contains(rv, l)
                    else:
                        raise ElabError('comparison')
                except TypeError as ex:
                    raise PyExc('TypeError', str(ex))
                if not res:
                    return False
                l = rv
            return True
        if isinstance(e, ast.IfExp):
            return self.eval(e.body if self.truth(self.eval(e.test, frame)) else e.orelse, frame)
        if isinstance(e, ast.List):
            out = []
            for x in e.elts:
                if isinstance(x, ast.Starred):
                    out += list(self.eval(x.value, frame))
                else:
                    out.append(self.eval(x, frame))
            return out
        if isinstance(e, ast.Tuple):
            return tuple(self.eval(x, frame) for x in e.elts)
        if isinstance(e, ast.Dict):
            return {self.hashable(self.eval(k, frame)): self.eval(v, frame) for k, v in zip(e.keys, e.values)}
        if isinstance(e, ast.Subscript):
            c = self.eval(e.value, frame)
            if numpy_mod(False) is not None and isinstance(c, numpy_mod().ndarray):
                try:
                    return c[self.eval_index(e.slice, frame)]
                except (IndexError, ValueError, TypeError) as ex:
                    raise PyExc(type(ex).__name__, '%s (%s)' % (ex, norm(e)[:50]))
            if isinstance(e.slice, ast.Slice):
                lo = self.eval(e.slice.lower, frame) if e.slice.lower is not None else None
                hi = self.eval(e.slice.upper, frame) if e.slice.upper is not None else None
                st = self.eval(e.slice.step, frame) if e.slice.step is not None else None
                if isinstance(c, (list, str, tuple)):
                    return c[lo:hi:st]
                raise ElabError('slice of %s' % type(c).__name__)
            k = self.eval(e.slice, frame)
            if isinstance(c, (list, str, tuple, dict)):
                try:
                    return c[self.hashable(k) if isinstance(c, dict) else k]
                except (IndexError, KeyError, TypeError) as ex:
                    raise PyExc(type(ex).__name__, '%s (%s)' % (ex, norm(e)[:50]))
            raise ElabError('subscript of %s' % type(c).__name__)
        if isinstance(e, ast.JoinedStr):
            out = ''
            for v in e.values:
                if isinstance(v, ast.Constant):
                    out += v.value
                else:
                    x = self.strable(self.eval(v.value, frame))
                    spec = self.eval(v.format_spec, frame) if v.format_spec is not None else ''
                    try:
                        out += format(x, spec)
                    except (ValueError, TypeError) as ex:
                        raise PyExc('ValueError', str(ex))
            return out
        if isinstance(e, ast.ListComp) and len(e.generators) >= 1:
            return self.comp(e.elt, e.generators, frame)
        if isinstance(e, ast.DictComp):
            pairs = self.comp(ast.Tuple(elts=[e.key, e.value], ctx=ast.Load()), e.generators, frame)
            return {self.hashable(k): v for k, v in pairs}
        if isinstance(e, ast.SetComp):
            out = SetList()
            for x in self.comp(e.elt, e.generators, frame):
                if not any(self.eq(x, y) for y in out):
                    out.append(x)
            return out
        if isinstance(e, ast.GeneratorExp):
            return self.comp(e.elt, e.generators, frame)
        if isinstance(e, ast.Lambda):
            return Lambda(e, frame)
        raise ElabError('expression %s' % type(e).__name__)

    def comp(self, elt, gens, frame):
        out = []
        fr = dict(frame)

        def rec(i):
            if i == len(gens):
                out.append(self.eval(elt, fr))
                return
            g = gens[i]
            it = self.eval(g.iter, fr)
            if isinstance(it, dict):
                it = list(it.keys())
            for v in list(it):
                self.assign(g.target, v, fr)
                if all(self.truth(self.eval(c, fr)) for c in g.ifs):
                    rec(i + 1)
        rec(0)
        return out

    def eq(self, a, b):
        if isinstance(a, tuple) and isinstance(b, tuple):
            return len(a) == len(b) and all(self.eq(x, y) for x, y in zip(a, b))
        if isinstance(a, ObjV) or isinstance(b, ObjV):
            return a is b
        if isinstance(a, ClassRef) and isinstance(b, ClassRef):
            return a.cinfo is b.cinfo
        return a == b

    def contains(self, c, x):
        if isinstance(c, dict):
            return self.hashable(x) in c
        if isinstance(c, (list, tuple)):
            return any(self.eq(x, y) for y in c)
        if isinstance(c, str):
            return x in c
        raise ElabError('membership in %s' % type(c).__name__)

    def hashable(self, k):
        return k


def to_load(t):
    """load-context twin of an assignment target (shallow: sub-expressions are shared)"""
    if isinstance(t, ast.Name):
        return ast.copy_location(ast.Name(id=t.id, ctx=ast.Load()), t)
    if isinstance(t, ast.Attribute):
        return ast.copy_location(ast.Attribute(value=t.value, attr=t.attr, ctx=ast.Load()), t)
    if isinstance(t, ast.Subscript):
        return ast.copy_location(ast.Subscript(value=t.value, slice=t.slice, ctx=ast.Load()), t)
    return t
