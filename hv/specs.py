"""Documented functions of the structural compositions (C07 / C08 / C09), as reference
functions over plain integers, with the legal configuration domains.  Each entry:

  name      : class name
  prop      : property the entry belongs to
  configs   : callable(tier) -> iterable of parameter dicts
  build     : callable(D, p) -> (ins {name: wire}, outs {name: wire})     (elaborates the block)
  ref       : callable(v {name: int}, p) -> {out name: int | None}        (None = unspecified)
  seq       : for sequential blocks, a reference-model factory: callable(p) -> object with
              .outputs() -> {out: int|None} and .step(v)
"""
import itertools
import math


def m(w):
    return (1 << w) - 1


def sg(v, w):
    v &= m(w)
    return v - (1 << w) if (v >> (w - 1)) & 1 else v


def W(tier, lo=1):
    return list(range(lo, 4)) if tier == 'quick' else list(range(lo, 5))


def prod(**kw):
    keys = list(kw)
    for vals in itertools.product(*[kw[k] for k in keys]):
        yield dict(zip(keys, vals))


SPECS = []


def spec(name, prop, configs, build, ref=None, seq=None, note='', extra=None):
    SPECS.append(dict(name=name, prop=prop, configs=configs, build=build, ref=ref, seq=seq, note=note, extra=extra))


# ---------------------------------------------------------------- helpers for builders
def ab_r(cls, **extra):
    def build(D, p):
        a, b, r = D.wire('a', p['aw']), D.wire('b', p.get('bw', p['aw'])), D.wire('r', p['rw'])
        D.make(cls, 'dut', a, b, r, **extra)
        return dict(a=a, b=b), dict(r=r)
    return build


def a_r(cls):
    def build(D, p):
        a, r = D.wire('a', p['aw']), D.wire('r', p['rw'])
        D.make(cls, 'dut', a, r)
        return dict(a=a), dict(r=r)
    return build


def nary(cls):
    def build(D, p):
        ins = D.wire_list('in', [p['w']] * p['n'])
        r = D.wire('r', p['w'])
        D.make(cls, 'dut', ins, r)
        return {'in%d' % i: w for i, w in enumerate(ins)}, dict(r=r)
    return build


# ================================================================= C08: logic, selection, comparison
for _cls, _f in (('And', lambda xs: __import__('functools').reduce(lambda x, y: x & y, xs)),
                 ('Or', lambda xs: __import__('functools').reduce(lambda x, y: x | y, xs)),
                 ('Xor', lambda xs: __import__('functools').reduce(lambda x, y: x ^ y, xs)),
                 ('Nor', lambda xs: ~__import__('functools').reduce(lambda x, y: x | y, xs))):
    spec(_cls, 'C08',
         (lambda tier, _cls=_cls: itertools.chain(
             prod(w=[1, 2], n=[2, 3, 4, 5] if _cls == 'Xor' else [1, 2, 3, 4, 5]) if tier == 'quick' else
             prod(w=[1, 2, 3], n=[2, 3, 4, 5, 6] if _cls == 'Xor' else [1, 2, 3, 4, 5, 6]),
             # larger arities (every count up to 16, then some with many 1-bits in binary), 1 bit wide: exhaustive up to 12 (14) inputs,
             # walking ones / zeros and random vectors beyond
             prod(w=[1], n=[7, 8, 9, 10, 11, 12, 13, 14, 15, 16] if tier == 'quick' else list(range(7, 34))))),
         nary(_cls), (lambda v, p, _f=_f: dict(r=_f([v['in%d' % i] for i in range(p['n'])]) & m(p['w']))))

for _cls, _f in (('Nand2', lambda a, b: ~(a & b)), ('Nor2', lambda a, b: ~(a | b)), ('Xor2', lambda a, b: a ^ b)):
    spec(_cls, 'C08', lambda tier: prod(aw=W(tier)),
         (lambda D, p, _cls=_cls: ab_r(_cls)(D, dict(aw=p['aw'], rw=p['aw']))),
         (lambda v, p, _f=_f: dict(r=_f(v['a'], v['b']) & m(p['aw']))))

for _cls, _f in (('AndBits', lambda a, w: int(a == m(w))), ('OrBits', lambda a, w: int(a != 0))):
    spec(_cls, 'C08', lambda tier: prod(aw=W(tier) + [5]),
         (lambda D, p, _cls=_cls: a_r(_cls)(D, dict(aw=p['aw'], rw=1))),
         (lambda v, p, _f=_f: dict(r=_f(v['a'], p['aw']))))


def b_bufenable(D, p):
    a, en, r = D.wire('a', p['w']), D.wire('en', 1), D.wire('r', p['w'])
    D.make('BufEnable', 'dut', a, en, r)
    return dict(a=a, en=en), dict(r=r)


spec('BufEnable', 'C08', lambda tier: prod(w=W(tier)), b_bufenable, lambda v, p: dict(r=v['a'] if v['en'] else 0))


def b_mux(D, p):
    n = 1 << p['sw']
    sel = D.wire('sel', p['sw'])
    ins = D.wire_list('in', [p['w']] * n)
    r = D.wire('r', p['w'])
    D.make('Mux', 'dut', sel, ins, r)
    d = {'in%d' % i: w for i, w in enumerate(ins)}
    d['sel'] = sel
    return d, dict(r=r)


spec('Mux', 'C08', lambda tier: [c for c in prod(sw=[1, 2, 3, 4] if tier == 'thorough' else [1, 2, 3], w=[1, 2]) if c['sw'] < 3 or c['w'] == 1], b_mux,
     lambda v, p: dict(r=v['in%d' % v['sel']]))


def b_demux(D, p):
    n = 1 << p['sw']
    a, sel = D.wire('a', p['w']), D.wire('sel', p['sw'])
    rs = D.wire_list('r', [p['w']] * n)
    D.make('Demux', 'dut', a, sel, rs)
    return dict(a=a, sel=sel), {'r%d' % i: w for i, w in enumerate(rs)}


spec('Demux', 'C08', lambda tier: [c for c in prod(sw=[1, 2, 3, 4, 5] if tier == 'quick' else [1, 2, 3, 4, 5, 6], w=[1, 2]) if c['sw'] < 3 or c['w'] == 1], b_demux,
     lambda v, p: {'r%d' % i: (v['a'] if v['sel'] == i else 0) for i in range(1 << p['sw'])})


def b_decoder(D, p):
    a = D.wire('a', p['aw'])
    bs = D.wire_list('b', [1] * p['n'])
    D.make('Decoder', 'dut', a, bs)
    return dict(a=a), {'b%d' % i: w for i, w in enumerate(bs)}


spec('Decoder', 'C08', lambda tier: [dict(aw=aw, n=1 << aw) for aw in ([1, 2, 3, 4, 5, 6] if tier == 'quick' else [1, 2, 3, 4, 5, 6, 7])], b_decoder,
     lambda v, p: {'b%d' % i: int(v['a'] == i) for i in range(p['n'])})


def b_select(cls):
    def build(D, p):
        sels = D.wire_list('s', [1] * p['n'])
        ins = D.wire_list('i', p['ws'] if 'ws' in p else [p['w']] * p['n'])
        r = D.wire('r', p['w'])
        D.make(cls, 'dut', sels, ins, r)
        d = {'s%d' % i: w for i, w in enumerate(sels)}
        d.update({'i%d' % i: w for i, w in enumerate(ins)})
        return d, dict(r=r)
    return build


def ref_select(v, p):
    r = 0
    for i in range(p['n']):
        if v['s%d' % i]:
            r |= v['i%d' % i]
    return dict(r=r)


def cfg_select(tier):
    # equal widths, then inputs of different widths (narrower first, narrower last, in the middle) into a result as wide as the widest
    mixed = [[1, 2], [2, 1], [1, 3], [2, 3, 1], [1, 2, 3], [3, 1, 2]] + ([[2, 4], [1, 4, 2], [1, 2, 3, 4]] if tier == 'thorough' else [])
    return itertools.chain(prod(n=[1, 2, 3, 4], w=[1, 2]), [dict(n=len(ws), ws=ws, w=max(ws)) for ws in mixed])


spec('Select', 'C08', cfg_select, b_select('Select'), ref_select)
spec('OneHotMux', 'C08', cfg_select, b_select('OneHotMux'), ref_select)


def b_onehotdemux(D, p):
    sels = D.wire_list('s', [1] * p['n'])
    a = D.wire('a', p['w'])
    outs = D.wire_list('o', [p['w']] * p['n'])
    D.make('OneHotDemux', 'dut', sels, a, outs)
    d = {'s%d' % i: w for i, w in enumerate(sels)}
    d['a'] = a
    return d, {'o%d' % i: w for i, w in enumerate(outs)}


spec('OneHotDemux', 'C08', lambda tier: prod(n=[1, 2, 3], w=[1, 2]), b_onehotdemux,
     lambda v, p: {'o%d' % i: (v['a'] if v['s%d' % i] else 0) for i in range(p['n'])})


def b_seldef(D, p):
    sels = D.wire_list('s', [1] * p['n'])
    ins = D.wire_list('i', [p['w']] * p['n'])
    dflt = D.wire('d', p['w'])
    r = D.wire('r', p['w'])
    D.make('SelectDefault', 'dut', sels, ins, dflt, r)
    d = {'s%d' % i: w for i, w in enumerate(sels)}
    d.update({'i%d' % i: w for i, w in enumerate(ins)})
    d['d'] = dflt
    return d, dict(r=r)


def ref_seldef(v, p):
    for i in range(p['n']):
        if v['s%d' % i]:
            return dict(r=v['i%d' % i])
    return dict(r=v['d'])


spec('SelectDefault', 'C08', lambda tier: prod(n=[1, 2, 3], w=[1, 2]), b_seldef, ref_seldef,
     note='first asserted select wins (the chain is built from the output backwards)')


def b_prio(D, p):
    a = D.wire_list('a', [1] * p['n'])
    r = D.wire_list('r', [1] * p['n'])
    D.make('PriorityEncoder', 'dut', a, r, p['inc'])
    return {'a%d' % i: w for i, w in enumerate(a)}, {'r%d' % i: w for i, w in enumerate(r)}


def ref_prio(v, p):
    n = p['n']
    out = {'r%d' % i: 0 for i in range(n)}
    order = range(n - 1, -1, -1) if p['inc'] else range(n)
    for i in order:
        if v['a%d' % i]:
            out['r%d' % i] = 1
            break
    return out


spec('PriorityEncoder', 'C08', lambda tier: prod(n=[1, 2, 3, 4, 5] if tier == 'quick' else [1, 2, 3, 4, 5, 6, 7], inc=[True, False]), b_prio, ref_prio,
     note='one-hot of the highest-priority asserted input; increasing priority = highest index wins')


def b_minterm(D, p):
    bits = D.wire_list('b', [1] * p['n'])
    r = D.wire('r', 1)
    D.make('Minterm', 'dut', bits, p['value'], r)
    return {'b%d' % i: w for i, w in enumerate(bits)}, dict(r=r)


spec('Minterm', 'C08', lambda tier: [dict(n=n, value=val) for n in (1, 2, 3) for val in range(1 << n)], b_minterm,
     lambda v, p: dict(r=int(sum(v['b%d' % i] << i for i in range(p['n'])) == p['value'])))


def b_som(D, p):
    a, r = D.wire('a', p['aw']), D.wire('r', 1)
    D.make('SumOfMinterms', 'dut', a, list(p['mins']), r)
    return dict(a=a), dict(r=r)


spec('SumOfMinterms', 'C08', lambda tier: [dict(aw=2, mins=(0, 3)), dict(aw=3, mins=(1, 2, 7)), dict(aw=3, mins=(5,)), dict(aw=2, mins=(0, 1, 2, 3)),
                                            dict(aw=3, mins=(0, 1, 2, 3, 4)), dict(aw=3, mins=(0, 1, 2, 3, 4, 5, 6)), dict(aw=3, mins=(1, 2, 3, 4, 5, 6, 7)),
                                            dict(aw=4, mins=tuple(range(0, 15, 1))), dict(aw=4, mins=(0, 2, 3, 5, 6, 7, 8, 9, 10, 13)), dict(aw=1, mins=(1,))],
     b_som, lambda v, p: dict(r=int(v['a'] in p['mins'])))


def b_equal(D, p):
    a, b, r = D.wire('a', p['w']), D.wire('b', p['w']), D.wire('r', 1)
    D.make('Equal', 'dut', a, b, r)
    return dict(a=a, b=b), dict(r=r)


spec('Equal', 'C08', lambda tier: prod(w=W(tier)), b_equal, lambda v, p: dict(r=int(v['a'] == v['b'])))


def b_eqk(cls):
    def build(D, p):
        a, r = D.wire('a', p['w']), D.wire('r', 1)
        D.make(cls, 'dut', a, p['k'], r)
        return dict(a=a), dict(r=r)
    return build


spec('EqualConstant', 'C08', lambda tier: [dict(w=w, k=k) for w in W(tier) for k in range(1 << w)], b_eqk('EqualConstant'),
     lambda v, p: dict(r=int(v['a'] == p['k'])))
spec('NotEqualConstant', 'C08', lambda tier: [dict(w=w, k=k) for w in W(tier) for k in range(1 << w)], b_eqk('NotEqualConstant'),
     lambda v, p: dict(r=int(v['a'] != p['k'])))


def b_anyeq(D, p):
    ins = D.wire_list('i', [p['w']] * p['n'])
    r = D.wire('r', 1)
    D.make('AnyEqual', 'dut', ins, r)
    return {'i%d' % i: w for i, w in enumerate(ins)}, dict(r=r)


spec('AnyEqual', 'C08', lambda tier: prod(n=[2, 3], w=[1, 2]), b_anyeq,
     lambda v, p: dict(r=int(len({v['i%d' % i] for i in range(p['n'])}) < p['n'])))


def b_cmp(D, p):
    a, b = D.wire('a', p['w']), D.wire('b', p['w'])
    gt, eq, lt = D.wire('gt'), D.wire('eq'), D.wire('lt')
    D.make('Comparator', 'dut', a, b, gt, eq, lt)
    return dict(a=a, b=b), dict(gt=gt, eq=eq, lt=lt)


spec('Comparator', 'C08', lambda tier: prod(w=W(tier)), b_cmp,
     lambda v, p: dict(gt=int(v['a'] > v['b']), eq=int(v['a'] == v['b']), lt=int(v['a'] < v['b'])))


def b_cmpsu(D, p):
    a, b = D.wire('a', p['w']), D.wire('b', p['w'])
    o = {k: D.wire(k) for k in ('gtu', 'eq', 'ltu', 'gt', 'lt')}
    D.make('ComparatorSignedUnsigned', 'dut', a, b, o['gtu'], o['eq'], o['ltu'], o['gt'], o['lt'])
    return dict(a=a, b=b), o


def ref_cmpsu(v, p):
    a, b, w = v['a'], v['b'], p['w']
    return dict(gtu=int(a > b), eq=int(a == b), ltu=int(a < b), gt=int(sg(a, w) > sg(b, w)), lt=int(sg(a, w) < sg(b, w)))


spec('ComparatorSignedUnsigned', 'C08', lambda tier: prod(w=W(tier)), b_cmpsu, ref_cmpsu)

for _cls, _f in (('Max2', lambda a, b, w: max(a, b)), ('Min2', lambda a, b, w: min(a, b)),
                 ('SignedMax2', lambda a, b, w: a if sg(a, w) >= sg(b, w) else b), ('SignedMin2', lambda a, b, w: a if sg(a, w) <= sg(b, w) else b)):
    spec(_cls, 'C08', lambda tier: prod(w=W(tier)),
         (lambda D, p, _cls=_cls: ab_r(_cls)(D, dict(aw=p['w'], rw=p['w']))),
         (lambda v, p, _f=_f: dict(r=_f(v['a'], v['b'], p['w']))))


def b_swap(D, p):
    a, b, s = D.wire('a', p['w']), D.wire('b', p['w']), D.wire('swap')
    ra, rb = D.wire('ra', p['w']), D.wire('rb', p['w'])
    D.make('Swap', 'dut', a, b, s, ra, rb)
    return dict(a=a, b=b, swap=s), dict(ra=ra, rb=rb)


spec('Swap', 'C08', lambda tier: prod(w=W(tier)), b_swap,
     lambda v, p: dict(ra=v['b'] if v['swap'] else v['a'], rb=v['a'] if v['swap'] else v['b']))


# ---- operands of different widths (the narrower one counts as zero-extended); kept as entries of their own so that a finding here has its own key
def b_two(cls, outs=('r',), ow=lambda p: max(p['aw'], p['bw'])):
    def build(D, p):
        a, b = D.wire('a', p['aw']), D.wire('b', p['bw'])
        o = {k: D.wire(k, ow(p) if k == 'r' else 1) for k in outs}
        D.make(cls, 'dut', a, b, *o.values())
        return dict(a=a, b=b), o
    return build


def cfg_mixed(tier):
    ws = (1, 2, 3) if tier == 'quick' else (1, 2, 3, 4)
    return [dict(aw=x, bw=y) for x in ws for y in ws if x != y]


spec('Equal:mixed-widths', 'C08', cfg_mixed, b_two('Equal', ('r',), lambda p: 1), lambda v, p: dict(r=int(v['a'] == v['b'])))
for _cls, _f in (('Xor2', lambda a, b: a ^ b),):          # And2 / Or2 / Mux2 are leaves: their contracts (C08.a) enumerate the port widths independently
    spec(_cls + ':mixed-widths', 'C08', cfg_mixed, b_two(_cls), (lambda v, p, _f=_f: dict(r=_f(v['a'], v['b']))))


def b_mux_mixed(cls):
    def build(D, p):
        sel, i0, i1, r = D.wire('sel', 1), D.wire('i0', p['aw']), D.wire('i1', p['bw']), D.wire('r', max(p['aw'], p['bw']))
        D.make(cls, 'dut', sel, *([[i0, i1]] if cls == 'Mux' else [i0, i1]), r)
        return dict(sel=sel, i0=i0, i1=i1), dict(r=r)
    return build


for _cls in ('Mux',):
    spec(_cls + ':mixed-widths', 'C08', cfg_mixed, b_mux_mixed(_cls), lambda v, p: dict(r=v['i1'] if v['sel'] else v['i0']))


def b_swap_mixed(D, p):
    a, b, s = D.wire('a', p['aw']), D.wire('b', p['bw']), D.wire('swap')
    w = max(p['aw'], p['bw'])
    ra, rb = D.wire('ra', w), D.wire('rb', w)
    D.make('Swap', 'dut', a, b, s, ra, rb)
    return dict(a=a, b=b, swap=s), dict(ra=ra, rb=rb)


spec('Swap:mixed-widths', 'C08', cfg_mixed, b_swap_mixed, lambda v, p: dict(ra=v['b'] if v['swap'] else v['a'], rb=v['a'] if v['swap'] else v['b']))


# ================================================================= C07: arithmetic compositions
def b_add(cls):
    def build(D, p):
        a, b, r = D.wire('a', p['aw']), D.wire('b', p['bw']), D.wire('r', p['rw'])
        ins = dict(a=a, b=b)
        outs = dict(r=r)
        kw = {}
        if p['ci']:
            ins['ci'] = kw['ci'] = D.wire('ci')
        if p['co']:
            outs['co'] = kw['co'] = D.wire('co')
        D.make(cls, 'dut', a, b, r, **kw)
        return ins, outs
    return build


def cfg_add(tier, signed=False):
    for aw, bw in itertools.product(W(tier), repeat=2):
        for rw in sorted({max(aw, bw), max(aw, bw) + 1}):
            for ci in (False, True):
                for co in (False, True):
                    yield dict(aw=aw, bw=bw, rw=rw, ci=ci, co=co)


def ref_add(v, p):
    s = v['a'] + v['b'] + v.get('ci', 0)
    out = dict(r=s & m(p['rw']))
    if p['co']:
        out['co'] = (s >> p['rw']) & 1
    return out


def ref_sadd(v, p):
    rw = p['rw']
    s = (sg(v['a'], p['aw']) & m(rw)) + (sg(v['b'], p['bw']) & m(rw)) + v.get('ci', 0)
    out = dict(r=s & m(rw))
    if p['co']:
        out['co'] = (s >> rw) & 1
    return out


spec('Add', 'C07', cfg_add, b_add('Add'), ref_add, note='r = (a+b+ci) mod 2^w(r); co = carry out of the w(r)-bit sum')
spec('SignedAdd', 'C07', cfg_add, b_add('SignedAdd'), ref_sadd, note='operands sign-extended to w(r); co = carry out of the extended unsigned sum')
spec('SignedSub', 'C07', lambda tier: (dict(aw=a, bw=b, rw=r) for a in W(tier) for b in W(tier) for r in sorted({max(a, b), max(a, b) + 1})),
     ab_r('SignedSub'), lambda v, p: dict(r=(sg(v['a'], p['aw']) - sg(v['b'], p['bw'])) & m(p['rw'])))
spec('Neg', 'C07', lambda tier: (dict(aw=a, rw=r) for a in W(tier) for r in (a, a + 1)), a_r('Neg'), lambda v, p: dict(r=(-v['a']) & m(p['rw'])))


def b_abs(D, p):
    a, r = D.wire('a', p['aw']), D.wire('r', p['rw'])
    outs = dict(r=r)
    kw = {}
    if p['inv']:
        outs['inverted'] = kw['inverted'] = D.wire('inverted')
    D.make('Abs', 'dut', a, r, **kw)
    return dict(a=a), outs


def ref_abs(v, p):
    s = sg(v['a'], p['aw'])
    out = dict(r=abs(s) & m(p['rw']))
    if p['inv']:
        out['inverted'] = int(s < 0)
    return out


spec('Abs', 'C07', lambda tier: (dict(aw=a, rw=r, inv=i) for a in W(tier) for r in (a, a + 1) for i in (False, True)), b_abs, ref_abs)
spec('Sign', 'C07', lambda tier: prod(aw=W(tier) + [6]), (lambda D, p: a_r('Sign')(D, dict(aw=p['aw'], rw=1))),
     lambda v, p: dict(r=(v['a'] >> (p['aw'] - 1)) & 1))


def ref_sdiv(v, p):
    a, b = sg(v['a'], p['aw']), sg(v['b'], p['aw'])
    if b == 0:
        return dict(r=None)
    q = abs(a) // abs(b)
    if (a < 0) != (b < 0):
        q = -q
    return dict(r=q & m(p['rw']))


spec('SignedDiv', 'C07', lambda tier: (dict(aw=a, bw=a, rw=r) for a in W(tier, 2) for r in (a, a + 1)), ab_r('SignedDiv'), ref_sdiv,
     note='truncating signed division; divisor 0 unspecified')


def cfg_shift(tier):
    for aw in W(tier, 2):
        for bw in (1, 2, 3):
            yield dict(aw=aw, bw=bw, rw=aw)
        yield dict(aw=aw, bw=2, rw=aw + 2)


spec('ShiftLeft', 'C07', cfg_shift, ab_r('ShiftLeft'), lambda v, p: dict(r=(v['a'] << v['b']) & m(p['rw'])))
spec('ShiftRight', 'C07', lambda tier: (dict(aw=aw, bw=bw, rw=aw) for aw in W(tier, 2) for bw in (1, 2, 3)), ab_r('ShiftRight'),
     lambda v, p: dict(r=(v['a'] >> v['b']) & m(p['rw'])), note='logical')
spec('ShiftRight:arithmetic', 'C07', lambda tier: (dict(aw=aw, bw=bw, rw=aw) for aw in W(tier, 2) for bw in (1, 2, 3)), ab_r('ShiftRight', arithmetic=True),
     lambda v, p: dict(r=(sg(v['a'], p['aw']) >> v['b']) & m(p['rw'])), note='arithmetic flag as constant')


def b_shr_wire(D, p):
    a, b, r, ar = D.wire('a', p['aw']), D.wire('b', p['bw']), D.wire('r', p['rw']), D.wire('arith')
    D.make('ShiftRight', 'dut', a, b, r, arithmetic=ar)
    return dict(a=a, b=b, arith=ar), dict(r=r)


spec('ShiftRight:arithmetic-wire', 'C07', lambda tier: (dict(aw=aw, bw=bw, rw=aw) for aw in W(tier, 2) for bw in (1, 2, 3)), b_shr_wire,
     lambda v, p: dict(r=((sg(v['a'], p['aw']) if v['arith'] else v['a']) >> v['b']) & m(p['rw'])), note='arithmetic flag as wire')


def cfg_rot(tier):
    for aw in W(tier, 2) + [5]:
        for bw in (1, 2, 3):
            if (1 << (bw - 1)) <= aw:
                yield dict(aw=aw, bw=bw, rw=aw)


def rotl(a, n, w):
    n %= w
    return ((a << n) | (a >> (w - n))) & m(w)


spec('RotateLeft', 'C07', cfg_rot, ab_r('RotateLeft'), lambda v, p: dict(r=rotl(v['a'], v['b'], p['aw'])))
spec('RotateRight', 'C07', cfg_rot, ab_r('RotateRight'), lambda v, p: dict(r=rotl(v['a'], p['aw'] - (v['b'] % p['aw']), p['aw'])))


def b_clz(D, p):
    a, r, z = D.wire('a', p['aw']), D.wire('r', p['rw']), D.wire('z')
    D.make('CountLeadingZeros', 'dut', a, r, z)
    return dict(a=a), dict(r=r, z=z)


def ref_clz(v, p):
    a, aw = v['a'], p['aw']
    n = aw - a.bit_length()
    return dict(r=n & m(p['rw']), z=int(a == 0))


spec('CountLeadingZeros', 'C07', lambda tier: (dict(aw=aw, rw=rw) for aw in ([2, 3, 4, 5, 8] if tier == 'quick' else [2, 3, 4, 5, 6, 7, 8, 9])
                                                for rw in (max(1, math.ceil(math.log2(aw))) + 1,)), b_clz, ref_clz)


def ref_bcd(v, p):
    r = 0
    x = v['a']
    for i in range(p['rw'] // 4):
        r |= (x % 10) << (4 * i)
        x //= 10
    return dict(r=r)


spec('BinaryToBCD', 'C07', lambda tier: [dict(aw=4, rw=8), dict(aw=7, rw=12), dict(aw=5, rw=8), dict(aw=4, rw=4), dict(aw=7, rw=8)] + ([dict(aw=8, rw=12)] if tier == 'thorough' else []),
     a_r('BinaryToBCD'), ref_bcd)


# ================================================================= C09: storage and sequential compositions
class Model:
    """reference state machine: outputs() before the first edge and after every step(v)"""


def seqspec(name, configs, build, model, note='', extra=None):
    spec(name, 'C09', configs, build, ref=None, seq=model, note=note, extra=extra)


def b_reg(D, p):
    d, q = D.wire('d', p['w']), D.wire('q', p['w'])
    ins = dict(d=d)
    kw = {}
    if p['e']:
        ins['e'] = kw['enable'] = D.wire('e', p['ew'])
    if p['r']:
        ins['r'] = kw['reset'] = D.wire('r')
    if p['rv'] is not None:
        kw['reset_value'] = p['rv']
    D.make('Reg', 'dut', d, q, **kw)
    return ins, dict(q=q)


class RegModel(Model):
    def __init__(self, p):
        self.p = p
        self.q = (p['rv'] or 0) & m(p['w'])

    def outputs(self):
        return dict(q=self.q)

    def step(self, v):
        if self.p['r'] and v['r'] == 1:
            self.q = (self.p['rv'] or 0) & m(self.p['w'])
        elif (not self.p['e']) or v['e'] != 0:
            self.q = v['d']


seqspec('Reg', lambda tier: (dict(w=w, e=e, r=r, rv=rv, ew=ew) for w in (1, 2) for e in (False, True) for r in (False, True)
                             for rv in (None, 1, 3) for ew in ((1, 2) if e else (1,))), b_reg, RegModel,
        note='reset(==1) > enable(!=0) > hold; power-up value = reset value')


def b_treg(D, p):
    t, q = D.wire('t'), D.wire('q')
    ins = dict(t=t)
    kw = {}
    if p['e']:
        ins['e'] = kw['enable'] = D.wire('e')
    if p['r']:
        ins['r'] = kw['reset'] = D.wire('r')
    D.make('TReg', 'dut', t, q, **kw)
    return ins, dict(q=q)


class TRegModel(Model):
    def __init__(self, p):
        self.p, self.q = p, 0

    def outputs(self):
        return dict(q=self.q)

    def step(self, v):
        if self.p['r'] and v['r'] == 1:
            self.q = 0
        elif (not self.p['e']) or v['e']:
            self.q ^= v['t']


seqspec('TReg', lambda tier: prod(e=[False, True], r=[False, True]), b_treg, TRegModel)


def b_counter(D, p):
    reset, inc, q = D.wire('reset'), D.wire('inc'), D.wire('q', p['w'])
    D.make('Counter', 'dut', reset=reset, inc=inc, q=q)
    return dict(reset=reset, inc=inc), dict(q=q)


class CounterModel(Model):
    def __init__(self, p):
        self.p, self.q = p, 0

    def outputs(self):
        return dict(q=self.q)

    def step(self, v):
        if v['reset']:
            self.q = 0
        elif v['inc']:
            self.q = (self.q + 1) & m(self.p['w'])


seqspec('Counter', lambda tier: prod(w=[1, 2, 3]), b_counter, CounterModel)


def b_modcounter(D, p):
    reset, inc, q, co = D.wire('reset'), D.wire('inc'), D.wire('q', p['w']), D.wire('carryout')
    D.make('ModuloCounter', 'dut', p['mod'], reset, inc, q, co)
    return dict(reset=reset, inc=inc), dict(q=q, carryout=co)


class ModCounterModel(Model):
    def __init__(self, p):
        self.p, self.q = p, 0

    def outputs(self):
        return dict(q=self.q, carryout=int(self.q == self.p['mod'] - 1))

    def step(self, v):
        if v['reset']:
            self.q = 0
        elif v['inc']:
            self.q = 0 if self.q == self.p['mod'] - 1 else self.q + 1


seqspec('ModuloCounter', lambda tier: [dict(w=2, mod=3), dict(w=2, mod=4), dict(w=3, mod=5), dict(w=3, mod=2), dict(w=3, mod=7)], b_modcounter, ModCounterModel,
        note='counts 0..mod-1 on inc, holds without inc, carry-out at mod-1')


def b_clockdivider(D, p):
    ck = D.wire('clkout')
    ins = {}
    kw = {}
    if p['r']:
        ins['reset'] = kw['reset'] = D.wire('reset')
    else:
        ins['unused'] = D.wire('unused')        # the sequence generator needs one input to enumerate
    D.make('ClockDivider', 'dut', 2 * p['n'] * 10, 10, ck, **kw)
    return ins, dict(clkout=ck)


class ClockDividerModel(Model):
    """modulo-n counter that always counts + toggle register on its carry; reset clears both"""

    def __init__(self, p):
        self.p, self.q, self.ck = p, 0, 0

    def outputs(self):
        return dict(clkout=self.ck)

    def step(self, v):
        if self.p['r'] and v['reset']:
            self.q, self.ck = 0, 0
            return
        if self.q == self.p['n'] - 1:
            self.ck ^= 1
            self.q = 0
        else:
            self.q += 1


seqspec('ClockDivider', lambda tier: prod(n=[1, 2, 3, 5], r=[False, True]), b_clockdivider, ClockDividerModel,
        note='output toggles every n = f_in/(2 f_out) edges; reset restarts the period with the output low')


def b_stepcounter(D, p):
    reset, inc, step, q = D.wire('reset'), D.wire('inc'), D.wire('step', p.get('sw', p['w'])), D.wire('q', p['w'])
    D.make('StepUpCounter', 'dut', reset, inc, step, q)
    return dict(reset=reset, inc=inc, step=step), dict(q=q)


class StepCounterModel(Model):
    def __init__(self, p):
        self.p, self.q = p, 0

    def outputs(self):
        return dict(q=self.q)

    def step(self, v):
        if v['reset']:
            self.q = 0
        elif v['inc']:
            self.q = (self.q + v['step']) & m(self.p['w'])


seqspec('StepUpCounter', lambda tier: [dict(w=2), dict(w=3), dict(w=3, sw=2), dict(w=3, sw=1), dict(w=2, sw=3)] + ([dict(w=4, sw=2), dict(w=4, sw=3)] if tier == 'thorough' else []),
        b_stepcounter, StepCounterModel, note='step narrower / wider than the count: the step is an unsigned number')


def b_delay(D, p):
    a, r = D.wire('a', p['w']), D.wire('r', p['w'])
    ins = dict(a=a)
    en = rs = None
    if p['en']:
        ins['en'] = en = D.wire('en')
    if p['rs']:
        ins['reset'] = rs = D.wire('reset')
    D.make('DelayLine', 'dut', a, en, rs, r, p['delay'])
    return ins, dict(r=r)


class DelayModel(Model):
    def __init__(self, p):
        self.p, self.regs = p, [0] * p['delay']

    def outputs(self):
        return dict(r=self.regs[-1])

    def step(self, v):
        if self.p['rs'] and v['reset'] == 1:
            self.regs = [0] * self.p['delay']
        elif (not self.p['en']) or v['en']:
            self.regs = [v['a']] + self.regs[:-1]


seqspec('DelayLine', lambda tier: prod(w=[1, 2], delay=[1, 2, 3], en=[False, True], rs=[False, True]), b_delay, DelayModel)


def b_pipe(D, p):
    reset = D.wire('reset')
    ins = D.wire_list('i', [p['w']] * p['n'])
    outs = D.wire_list('o', [p['w']] * p['n'])
    D.make('PipelinePhase', 'dut', reset, ins, outs)
    d = {'i%d' % i: w for i, w in enumerate(ins)}
    d['reset'] = reset
    return d, {'o%d' % i: w for i, w in enumerate(outs)}


class PipeModel(Model):
    def __init__(self, p):
        self.p, self.o = p, [0] * p['n']

    def outputs(self):
        return {'o%d' % i: x for i, x in enumerate(self.o)}

    def step(self, v):
        if v['reset'] == 1:
            self.o = [0] * self.p['n']
        else:
            self.o = [v['i%d' % i] for i in range(self.p['n'])]


seqspec('PipelinePhase', lambda tier: prod(w=[1, 2], n=[1, 2]), b_pipe, PipeModel)


def b_shiftreg(D, p):
    w = p['w']
    li, ri, lo, ro = D.wire('left_in', w), D.wire('right_in', w), D.wire('left_out', w), D.wire('right_out', w)
    sl, sr = D.wire('shift_left'), D.wire('shift_right')
    D.make('ShiftRegisterBidirectional', 'dut', li, ri, lo, ro, sl, sr, p['depth'])
    return dict(left_in=li, right_in=ri, shift_left=sl, shift_right=sr), dict(left_out=lo, right_out=ro)


class ShiftRegModel(Model):
    def __init__(self, p):
        self.p, self.q = p, [0] * p['depth']

    def outputs(self):
        return dict(left_out=self.q[0], right_out=self.q[-1])

    def step(self, v):
        if v['shift_left']:
            self.q = self.q[1:] + [v['right_in']]
        elif v['shift_right']:
            self.q = [v['left_in']] + self.q[:-1]


seqspec('ShiftRegisterBidirectional', lambda tier: prod(w=[1, 2], depth=[1, 2, 3]), b_shiftreg, ShiftRegModel,
        note='shift_left moves data towards index 0 (right_in enters), shift_right towards the last cell (left_in enters); left has priority when both are set')


def b_stack(D, p):
    w = p['w']
    din, dout, push, pop = D.wire('din', w), D.wire('dout', w), D.wire('push'), D.wire('pop')
    D.make('Stack_ShiftRegister', 'dut', din, dout, push, pop, None, None, p['depth'])
    return dict(din=din, push=push, pop=pop), dict(dout=dout)


class StackModel(Model):
    """last-in first-out within its depth; a pop presents the popped element on dout; push and pop in the
    same cycle is left unspecified (the block gives pop priority)"""

    def __init__(self, p):
        self.p, self.st, self.dout, self.unspec = p, [], 0, False

    def outputs(self):
        return dict(dout=None if self.unspec else self.dout)

    def step(self, v):
        if v['push'] and v['pop']:
            self.unspec = True
            return
        if v['pop']:
            self.dout = self.st.pop(0) if self.st else 0
        elif v['push']:
            self.st = ([v['din']] + self.st)[:self.p['depth']]


def stack_scripts(p):
    """fill to the brim and drain (and one push too many): push / pop never together, so the whole run is specified"""
    w, d = p['w'], p['depth']
    vals = [(i % ((1 << w) - 1)) + 1 for i in range(d + 1)]
    idle = dict(din=0, push=0, pop=0)
    for n in (d, d + 1):
        yield [dict(din=v, push=1, pop=0) for v in vals[:n]] + [dict(din=0, push=0, pop=1) for _ in range(d + 1)]
        yield [dict(din=v, push=1, pop=0) for v in vals[:n]] + [idle] + [dict(din=0, push=0, pop=1), idle] * d
    # push / pop interleavings without simultaneous requests
    pat = [1, 1, 0, 1, 0, 0, 1, 1, 1, 0, 0, 0, 0]
    yield [dict(din=vals[i % len(vals)], push=x, pop=1 - x) for i, x in enumerate(pat)]


seqspec('Stack_ShiftRegister', lambda tier: prod(w=[1, 2], depth=[1, 2, 3, 4]), b_stack, StackModel, extra=stack_scripts)


def b_edge(D, p):
    a, r = D.wire('a'), D.wire('r')
    D.make('EdgeDetector', 'dut', a, r, p['dir'])
    return dict(a=a), dict(r=r)


class EdgeModel(Model):
    """r is combinational: compares the present input with the value sampled at the previous edge"""

    def __init__(self, p):
        self.p, self.z, self.a = p, 0, 0

    def comb(self, v):
        a, z = v['a'], self.z
        return dict(r={'pos': a & (1 - z), 'neg': (1 - a) & z, 'both': a ^ z}[self.p['dir']])

    def outputs(self):
        return dict(r=None)

    def step(self, v):
        self.z = v['a']


seqspec('EdgeDetector', lambda tier: prod(dir=['pos', 'neg', 'both']), b_edge, EdgeModel)


def b_syncmem(D, p):
    ra, wa = D.wire('read_address', p['aw']), D.wire('write_address', p['aw'])
    wr, rd, wd = D.wire('write'), D.wire('readdata', p['dw']), D.wire('writedata', p['dw'])
    D.make('SynchronousMemory', 'dut', ra, wa, wr, rd, wd)
    return dict(read_address=ra, write_address=wa, write=wr, writedata=wd), dict(readdata=rd)


class SyncMemModel(Model):
    def __init__(self, p):
        self.p, self.mem, self.rd = p, [0] * (1 << p['aw']), 0

    def outputs(self):
        return dict(readdata=self.rd)

    def step(self, v):
        self.rd = self.mem[v['read_address']]          # content before a same-cycle write
        if v['write']:
            self.mem[v['write_address']] = v['writedata']


seqspec('SynchronousMemory', lambda tier: prod(aw=[1, 2], dw=[1, 2]), b_syncmem, SyncMemModel, note='read returns the content before a same-cycle write')


# ================================================================= C14: fixed-point blocks
def sgn(v, w):
    v &= m(w)
    return v - (1 << w) if (v >> (w - 1)) & 1 else v


FXP_FORMATS = [(1, 0, 1), (1, 1, 0), (1, 1, 1), (1, 2, 1), (1, 1, 2), (1, 0, 3), (1, 3, 0), (1, 2, 2)]


def fxp_same(cls):
    def build(D, p):
        f = p['f']
        w = sum(f)
        a, b, r = D.wire('a', w), D.wire('b', w), D.wire('r', w)
        D.make(cls, 'dut', a, f, b, f, r, f, rel='py4hw/logic/arithmetic_fxp.py')
        return dict(a=a, b=b), dict(r=r)
    return build


spec('FixedPointAdd', 'C14', lambda tier: [dict(f=f) for f in FXP_FORMATS + ([(1, 3, 2), (1, 2, 3)] if tier == 'thorough' else [])], fxp_same('FixedPointAdd'),
     lambda v, p: dict(r=(sgn(v['a'], sum(p['f'])) + sgn(v['b'], sum(p['f']))) & m(sum(p['f']))),
     note='encoding of the exact sum reduced modulo the format width')
spec('FixedPointSub', 'C14', lambda tier: [dict(f=f) for f in FXP_FORMATS + ([(1, 3, 2), (1, 2, 3)] if tier == 'thorough' else [])], fxp_same('FixedPointSub'),
     lambda v, p: dict(r=(sgn(v['a'], sum(p['f'])) - sgn(v['b'], sum(p['f']))) & m(sum(p['f']))),
     note='encoding of the exact difference reduced modulo the format width')


def b_fxpsign(D, p):
    f = p['f']
    a, s = D.wire('a', sum(f)), D.wire('s')
    D.make('FixedPointSign', 'dut', a, f, s, rel='py4hw/logic/arithmetic_fxp.py')
    return dict(a=a), dict(s=s)


spec('FixedPointSign', 'C14', lambda tier: [dict(f=f) for f in FXP_FORMATS], b_fxpsign, lambda v, p: dict(s=(v['a'] >> (sum(p['f']) - 1)) & 1),
     note='the sign bit of the encoding')


def b_fxpmult(D, p):
    af, bf, rf = p['af'], p['bf'], p['rf']
    a, b, r = D.wire('a', sum(af)), D.wire('b', sum(bf)), D.wire('r', sum(rf))
    D.make('FixedPointMult', 'dut', a, af, b, bf, r, rf, rel='py4hw/logic/arithmetic_fxp.py')
    return dict(a=a, b=b), dict(r=r)


def r_fxpmult(v, p):
    af, bf, rf = p['af'], p['bf'], p['rf']
    prod = sgn(v['a'], sum(af)) * sgn(v['b'], sum(bf))          # exact, scaled by 2**-(fa+fb)
    return dict(r=(prod >> (af[2] + bf[2] - rf[2])) & m(sum(rf)))   # truncation (floor) to the result's fraction, reduced to its width


def fxpmult_cfgs(tier):
    out = []
    for af in ((1, 1, 1), (1, 2, 1), (1, 1, 2), (1, 0, 2), (1, 2, 0)):
        for bf in ((1, 1, 1), (1, 1, 2), (1, 2, 0)):
            for rf in ((1, 1, 1), (1, 2, 2), (1, 3, 1), (1, 2, 0), (1, 1, 3), (1, 4, 3)):
                if af[2] + bf[2] - rf[2] >= 0 and (af[2] + bf[2] - rf[2]) + sum(rf) <= sum(af) + sum(bf):
                    out.append(dict(af=af, bf=bf, rf=rf))
    # narrow results of fine-grained operands: the window starts above the result's own width
    out = [dict(af=(1, 0, 3), bf=(1, 0, 3), rf=(1, 1, 0)), dict(af=(1, 0, 3), bf=(1, 0, 3), rf=(1, 0, 1)), dict(af=(1, 1, 3), bf=(1, 1, 3), rf=(1, 2, 0)),
           dict(af=(1, 0, 4), bf=(1, 0, 4), rf=(1, 2, 1))] + (out if tier == 'thorough' else out[::2])
    return out


def b_fxpmult_const(D, p):
    # one operand is driven by a Constant block (every encoding of its format in turn): the product must be the same function of the encodings
    af, bf, rf = p['af'], p['bf'], p['rf']
    a, b, r = D.wire('a', sum(af)), D.wire('b', sum(bf)), D.wire('r', sum(rf))
    D.make('Constant', 'kb', p['k'], b)
    D.make('FixedPointMult', 'dut', a, af, b, bf, r, rf, rel='py4hw/logic/arithmetic_fxp.py')
    return dict(a=a), dict(r=r)


spec('FixedPointMult:constant-operand', 'C14',
     lambda tier: [dict(af=f, bf=f, rf=(1, f[1] + f[1], f[2]), k=k) for f in ((1, 1, 1), (1, 1, 2)) for k in range(1 << sum(f))],
     b_fxpmult_const, lambda v, p: r_fxpmult(dict(a=v['a'], b=p['k']), p), note='operand b driven by Constant(k) for every encoding k')
spec('FixedPointMult', 'C14', fxpmult_cfgs, b_fxpmult, r_fxpmult,
     note='exact product of the signed values, truncated to the result fraction and reduced to the result width (incl. the most negative value squared)')


def b_fxpcmp(D, p):
    f = p['f']
    w = sum(f)
    a, b = D.wire('a', w), D.wire('b', w)
    gt, eq, lt = D.wire('gt'), D.wire('eq'), D.wire('lt')
    D.make('FixedPointComparator', 'dut', a, f, b, f, gt, eq, lt)
    return dict(a=a, b=b), dict(gt=gt, eq=eq, lt=lt)


def r_fxpcmp(v, p):
    w = sum(p['f'])
    a, b = sgn(v['a'], w), sgn(v['b'], w)
    if not (-(1 << (w - 1)) <= a - b < (1 << (w - 1))):
        return {}           # the difference is not representable: outside the property's domain
    return dict(gt=int(a > b), eq=int(a == b), lt=int(a < b))


spec('FixedPointComparator', 'C14', lambda tier: [dict(f=f) for f in FXP_FORMATS if sum(f) >= 2], b_fxpcmp, r_fxpcmp,
     note='orders the signed values whenever their difference is representable')
