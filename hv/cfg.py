"""M3: structured control-flow paths.

The repository's code is structured (no goto, no generators in the analysed
functions), so instead of a graph with dominators the rules use the set of
*acyclic structured paths* of a statement list: every `if` forks, every loop is
taken zero times or once (body paths bracketed by LOOP/ENDLOOP events), `try`
bodies run with each handler as an alternative continuation.  A property of
the form "X is dominated by Y", "X precedes Y on every path", "exactly one X per
iteration on every path" is decided over that finite set.
"""
import ast

from .srcmap import AnalysisError

MAX_PATHS = 20000


class Ev:
    __slots__ = ('kind', 'node', 'val')

    def __init__(self, kind, node, val=None):
        self.kind = kind    # stmt | branch | loop | endloop | return | raise | continue | break | case
        self.node = node
        self.val = val

    def __repr__(self):
        try:
            s = ast.unparse(self.node).splitlines()[0][:60]
        except Exception:
            s = ''
        return '%s(%s%s)' % (self.kind, s, '' if self.val is None else ':%s' % self.val)


def _seq(stmts, i, prefix, out, limit):
    """enumerate paths of stmts[i:], each path is (events, exit) where exit in
    fall|return|raise|continue|break"""
    if len(out) > limit[0]:
        raise AnalysisError('path explosion in CFG enumeration')
    if i >= len(stmts):
        out.append((prefix, 'fall'))
        return
    s = stmts[i]

    def cont(paths):
        for ev, ex in paths:
            if ex == 'fall':
                _seq(stmts, i + 1, ev, out, limit)
            else:
                out.append((ev, ex))

    if isinstance(s, ast.If):
        res = []
        _seq(s.body, 0, prefix + [Ev('branch', s.test, True)], res, limit)
        _seq(s.orelse, 0, prefix + [Ev('branch', s.test, False)], res, limit)
        cont(res)
    elif isinstance(s, (ast.For, ast.While, ast.AsyncFor)):
        res = []
        # zero iterations
        res.append((prefix + [Ev('loop', s, 0), Ev('endloop', s, 0)], 'fall'))
        body = []
        _seq(s.body, 0, prefix + [Ev('loop', s, 1)], body, limit)
        for ev, ex in body:
            if ex in ('fall', 'continue', 'break'):
                res.append((ev + [Ev('endloop', s, ex)], 'fall'))
            else:
                res.append((ev, ex))
        if s.orelse:
            res2 = []
            for ev, ex in res:
                if ex == 'fall':
                    _seq(s.orelse, 0, ev, res2, limit)
                else:
                    res2.append((ev, ex))
            res = res2
        cont(res)
    elif isinstance(s, ast.Try):
        res = []
        body = []
        _seq(s.body, 0, prefix + [Ev('try', s)], body, limit)
        for ev, ex in body:
            res.append((ev, ex))
        for h in s.handlers:
            _seq(h.body, 0, prefix + [Ev('try', s), Ev('except', h)], res, limit)
        if s.orelse:
            res2 = []
            for ev, ex in res:
                if ex == 'fall' and not any(e.kind == 'except' and e.node in s.handlers for e in ev):
                    _seq(s.orelse, 0, ev, res2, limit)
                else:
                    res2.append((ev, ex))
            res = res2
        if s.finalbody:
            res2 = []
            for ev, ex in res:
                fin = []
                _seq(s.finalbody, 0, ev, fin, limit)
                for ev2, ex2 in fin:
                    res2.append((ev2, ex if ex2 == 'fall' else ex2))
            res = res2
        cont(res)
    elif isinstance(s, (ast.With, ast.AsyncWith)):
        res = []
        _seq(s.body, 0, prefix + [Ev('stmt', s)], res, limit)
        cont(res)
    elif isinstance(s, ast.Match):
        res = []
        irrefutable = False
        for c in s.cases:
            _seq(c.body, 0, prefix + [Ev('case', c, ast.unparse(c.pattern))], res, limit)
            if isinstance(c.pattern, ast.MatchAs) and c.pattern.pattern is None and c.guard is None:
                irrefutable = True
        if not irrefutable:
            res.append((prefix + [Ev('case', s, None)], 'fall'))
        cont(res)
    elif isinstance(s, ast.Return):
        out.append((prefix + [Ev('return', s)], 'return'))
    elif isinstance(s, ast.Raise):
        out.append((prefix + [Ev('raise', s)], 'raise'))
    elif isinstance(s, ast.Continue):
        out.append((prefix + [Ev('continue', s)], 'continue'))
    elif isinstance(s, ast.Break):
        out.append((prefix + [Ev('break', s)], 'break'))
    elif isinstance(s, ast.Assert):
        # failing side raises
        out.append((prefix + [Ev('branch', s.test, False), Ev('raise', s)], 'raise'))
        _seq(stmts, i + 1, prefix + [Ev('branch', s.test, True), Ev('stmt', s)], out, limit)
    else:
        _seq(stmts, i + 1, prefix + [Ev('stmt', s)], out, limit)


def paths(stmts, limit=MAX_PATHS):
    out = []
    _seq(list(stmts), 0, [], out, [limit])
    return out


def fn_paths(fn, limit=MAX_PATHS):
    return paths(fn.body, limit)


def contains(node, pred):
    return any(pred(n) for n in ast.walk(node))


def ev_nodes(ev):
    """nodes whose sub-expressions are evaluated by this event"""
    if ev.kind in ('stmt', 'return', 'raise'):
        return [ev.node]
    if ev.kind == 'branch':
        return [ev.node]
    if ev.kind == 'loop':
        n = ev.node
        return [n.iter] if isinstance(n, (ast.For, ast.AsyncFor)) else [n.test]
    return []


def calls_on_path(evs, pred):
    """indices of events on the path containing a call satisfying pred"""
    idx = []
    for i, ev in enumerate(evs):
        for n in ev_nodes(ev):
            # do not descend into nested function definitions
            for c in ast.walk(n):
                if isinstance(c, ast.Call) and pred(c):
                    idx.append(i)
                    break
            else:
                continue
            break
    return idx


def in_loop_at(evs, i):
    """stack of loop nodes open at event index i"""
    st = []
    for ev in evs[:i + 1]:
        if ev.kind == 'loop' and ev.val == 1:
            st.append(ev.node)
        elif ev.kind == 'endloop' and ev.val != 0 and st:
            st.pop()
    return st
