"""Cycle semantics of one flat emitted module body (declarations, continuous assigns,
`always @(posedge ...)` with blocking / non-blocking assignments, `always @(*)`,
`initial`) - the IEEE 1364 reading used to compare a hand-written or transpiled
body with the simulator's rule for the same block.  It interprets *emitted text*
only (never repository code)."""
from . import vlog
from .vlog import Sig, XValue


class Mem(Sig):
    __slots__ = ('mem',)

    def __init__(self, w, n):
        Sig.__init__(self, w, 0, False)
        self.mem = [0] * n


class Body:
    def __init__(self, text, ports, params=None, strict=True):
        """ports: {name: (dir, width)}"""
        self.strict = strict
        self.xflag = None
        self.items = vlog.parse(text) if isinstance(text, str) else text
        self.env = {}
        self.kind = {}
        self.decl_count = {}
        self.assigns = []
        self.always = []
        self.initials = []
        self.init_vals = {}
        for n, (d, w) in ports.items():
            self.env[n] = Sig(w, 0)
            self.kind[n] = d
        for k, v in (params or {}).items():
            self.env[k] = Sig(32, v, True)
            self.kind[k] = 'param'
        for it in self.items:
            if it[0] == 'decl':
                kind, sg, rng, names = it[1], it[2], it[3], it[4]
                w = 1
                if kind == 'integer':
                    w, sg = 32, True
                if rng is not None:
                    w = abs(vlog.const_eval(rng[1], self.env) - vlog.const_eval(rng[2], self.env)) + 1
                for name, dims, init in names:
                    self.decl_count[name] = self.decl_count.get(name, 0) + 1
                    if dims:
                        a, b = vlog.const_eval(dims[0][1], self.env), vlog.const_eval(dims[0][2], self.env)
                        self.env[name] = Mem(w, abs(a - b) + 1)
                    else:
                        self.env[name] = Sig(w, 0, sg)
                    self.kind[name] = kind
                    if init is not None:
                        v = vlog.eval_assign(w, init, self.env)
                        self.env[name].v = v
                        self.init_vals[name] = v
            elif it[0] == 'assign':
                self.assigns.append(it)
            elif it[0] == 'always':
                self.always.append(it)
            elif it[0] == 'initial':
                self.initials.append(it)
            elif it[0] in ('inst', 'defparam', 'param', 'module'):
                raise XValue('body contains %s: not a flat behavioural body' % it[0])
        for it in self.initials:
            nb = []
            self.exec(it[1], nb)
            self.commit(nb)
        self.settle()

    # ---------------------------------------------------------------
    def lhs_write(self, lhs, val, direct=True):
        if lhs[0] == 'id':
            s = self.env.get(lhs[1])
            if s is None:
                raise XValue('assignment to undeclared %s' % lhs[1])
            s.v = val & ((1 << s.w) - 1)
        elif lhs[0] == 'idx':
            s = self.env.get(lhs[1][1])
            if s is None:
                raise XValue('assignment to undeclared %s' % lhs[1][1])
            i = lhs[2] if isinstance(lhs[2], int) else vlog.const_or_value(lhs[2], self.env)
            if isinstance(s, Mem):
                if 0 <= i < len(s.mem):
                    s.mem[i] = val & ((1 << s.w) - 1)
            else:
                if 0 <= i < s.w:
                    s.v = (s.v & ~(1 << i)) | ((val & 1) << i)
        elif lhs[0] == 'slice':
            s = self.env[lhs[1][1]]
            hi, lo = vlog.const_eval(lhs[2], self.env), vlog.const_eval(lhs[3], self.env)
            m = ((1 << (hi - lo + 1)) - 1) << lo
            s.v = (s.v & ~m) | ((val << lo) & m)
        else:
            raise XValue('lvalue')

    def lhs_width(self, lhs):
        if lhs[0] == 'id':
            if lhs[1] not in self.env:
                raise XValue('assignment to undeclared %s' % lhs[1])
            return self.env[lhs[1]].w
        if lhs[0] == 'idx':
            s = self.env.get(lhs[1][1])
            if s is None:
                raise XValue('assignment to undeclared %s' % lhs[1][1])
            return s.w if isinstance(s, Mem) else 1
        if lhs[0] == 'slice':
            return abs(vlog.const_eval(lhs[2], self.env) - vlog.const_eval(lhs[3], self.env)) + 1
        raise XValue('lvalue')

    def exec(self, st, nb):
        k = st[0]
        if k == 'block':
            for s in st[1]:
                self.exec(s, nb)
        elif k == 'if':
            w = vlog.selfw(st[1], self.env)
            c = vlog.evalv(st[1], self.env, w, vlog.issigned(st[1], self.env))
            if c:
                self.exec(st[2], nb)
            elif st[3] is not None:
                self.exec(st[3], nb)
        elif k == 'case':
            w = vlog.selfw(st[1], self.env)
            done = False
            default = None
            for labels, body in st[2]:
                if labels is None:
                    default = body
                    continue
                for lb in labels:
                    ww = max(w, vlog.selfw(lb, self.env))
                    sg = vlog.issigned(st[1], self.env) and vlog.issigned(lb, self.env)
                    if vlog.evalv(st[1], self.env, ww, sg) == vlog.evalv(lb, self.env, ww, sg):
                        self.exec(body, nb)
                        done = True
                        break
                if done:
                    break
            if not done and default is not None:
                self.exec(default, nb)
        elif k == 'nba':
            lw = self.lhs_width(st[1])
            v = vlog.eval_assign(lw, st[2], self.env)
            lhs = st[1]
            if lhs[0] == 'idx':
                lhs = ('idx', lhs[1], vlog.const_or_value(lhs[2], self.env))
            nb.append((lhs, v))
        elif k == 'ba':
            lw = self.lhs_width(st[1])
            v = vlog.eval_assign(lw, st[2], self.env)
            self.lhs_write(st[1], v)
        elif k == 'null':
            pass
        else:
            raise XValue('statement %s' % k)

    def commit(self, nb):
        for lhs, v in nb:
            self.lhs_write(lhs, v)

    def settle(self):
        self.xflag = None
        for _ in range(64):
            changed = False
            for it in self.always:
                if it[1] == '*' or (isinstance(it[1], list) and all(e is None for e, _ in it[1])):
                    nb = []
                    self.exec(it[2], nb)
                    self.commit(nb)
            for it in self.assigns:
                lw = self.lhs_width(it[1])
                try:
                    v = vlog.eval_assign(lw, it[2], self.env)
                except XValue as e:
                    if self.strict:
                        raise
                    self.xflag = str(e)     # the net is x for these inputs; keep the old value
                    continue
                before = self.read(it[1])
                self.lhs_write(it[1], v)
                if before != self.read(it[1]):
                    changed = True
            if not changed:
                break

    def read(self, lhs):
        if lhs[0] == 'id':
            return self.env[lhs[1]].v
        return None

    def set_inputs(self, vals):
        for n, v in vals.items():
            self.env[n].v = v & ((1 << self.env[n].w) - 1)
        self.settle()

    def posedge(self, clk):
        """one simultaneous rising edge of the clock net(s) `clk` (a name or a collection of aliases of one clock)"""
        clks = {clk} if isinstance(clk, str) else set(clk)
        nb = []
        for it in self.always:
            if isinstance(it[1], list) and any(e == 'posedge' and x[0] == 'id' and x[1] in clks for e, x in it[1]):
                self.exec(it[2], nb)
        self.commit(nb)
        self.settle()

    def clocks(self):
        out = set()
        for it in self.always:
            if isinstance(it[1], list):
                for e, x in it[1]:
                    if e in ('posedge', 'negedge') and x[0] == 'id':
                        out.add((e, x[1]))
        return out

    def driven_clocks(self):
        """clock nets that are connected to an input port of the design through plain `assign x = y` chains (a flattened
        hierarchy hands the clock down that way); a clock net nobody drives never rises"""
        src = {}
        for it in self.assigns:
            if it[1][0] == 'id' and isinstance(it[2], tuple) and it[2] and it[2][0] == 'id':
                src[it[1][1]] = it[2][1]
        out = set()
        for _, c in self.clocks():
            x, seen = c, set()
            while x in src and x not in seen:
                seen.add(x)
                x = src[x]
            if self.kind.get(x) in ('input', 'inout'):
                out.add(c)
        return out

    def used_idents(self):
        out = set()
        for it in self.assigns + self.always + self.initials:
            vlog.idents(it, out)
        return out
