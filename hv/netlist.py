"""Netlists obtained by elaboration (hv/elab.py) and their evaluation through the leaf
summaries (hv/summ.py).  Used for the structural compositions of C07/C08/C09/C16: the
composed behaviour of the extracted netlist is compared with the documented function of
the block over a finite grid (exhaustive inputs for small widths)."""
import ast

from .elab import Elab, ObjV, ElabError, ElabRaise, PyExc
from .ireval import Cfg, ev, Nondet, EvalError, HOLDV
from .summ import Summariser, NotSummarisable


class NetError(Exception):
    pass


class Design:
    """one elaborated system: a root HWSystem, input wires, a device under analysis"""

    def __init__(self, facts, summaries=None):
        self.facts = facts
        self.el = Elab(facts)
        self.summaries = summaries if summaries is not None else {}
        hs = self.el.find_class('HWSystem', 'py4hw/base.py')
        if hs is None:
            raise NetError('HWSystem not found')
        self.sys = self.el.instantiate(hs, [], {})
        self.wires = {}

    def wire(self, name, width=1):
        w = self.el.call(self.el.getattr_(self.sys, 'wire'), [name, width], {}, {})
        self.wires[name] = w
        return w

    def wire_list(self, name, widths):
        return [self.wire('%s_%d' % (name, i), w) for i, w in enumerate(widths)]

    def make(self, cname, *args, rel=None, **kwargs):
        c = self.el.find_class(cname, rel)
        if c is None:
            raise NetError('class %s not found' % cname)
        return self.el.instantiate(c, [self.sys] + list(args), kwargs)

    # ------------------------------------------------------------------
    def leaves(self, obj=None, out=None):
        out = out if out is not None else []
        obj = obj or self.sys
        ch = obj.attrs.get('children', {})
        if ch:
            for k in ch.values():
                self.leaves(k, out)
        else:
            if obj is not self.sys:
                out.append(obj)
        return out

    def summary(self, cinfo, mname):
        key = (cinfo.rel, cinfo.name, mname)
        if key not in self.summaries:
            m = self.facts.lookup(cinfo, mname)
            if m is None:
                self.summaries[key] = None
            else:
                try:
                    self.summaries[key] = Summariser(self.facts, cinfo).method(m)
                except NotSummarisable as e:
                    self.summaries[key] = e
        s = self.summaries[key]
        if isinstance(s, Exception):
            raise NetError('%s.%s not summarisable: %s' % (cinfo.name, mname, s))
        return s

    def prepare(self):
        """classify leaves, build per-leaf evaluation contexts"""
        self.comb, self.seq = [], []
        for lf in self.leaves():
            has_p = self.facts.lookup(lf.cinfo, 'propagate') is not None
            has_c = self.facts.lookup(lf.cinfo, 'clock') is not None
            if not has_p and not has_c:
                if lf.attrs.get('inPorts') or lf.attrs.get('outPorts'):
                    raise NetError('leaf %s has neither propagate() nor clock()' % lf.cinfo.name)
                continue
            ports, _ = self.facts.ports(lf.cinfo)
            ctx = LeafCtx(self, lf, ports)
            if has_p:
                ctx.psum = self.summary(lf.cinfo, 'propagate')
                self.comb.append(ctx)
            if has_c:
                ctx.csum = self.summary(lf.cinfo, 'clock')
                self.seq.append(ctx)
        self.values = {}
        for ctx in self.comb + self.seq:
            for w in ctx.all_wires():
                self.values[w.oid] = w.attrs.get('value', 0)
        for w in self.wires.values():
            self.values.setdefault(w.oid, w.attrs.get('value', 0))
        self.order_comb()

    def order_comb(self):
        # dependency order from the wires each leaf reads / writes (through its ports)
        writers = {}
        for ctx in self.comb:
            for w in ctx.out_wires():
                writers.setdefault(w.oid, []).append(ctx)
        order, seen, tmp = [], set(), set()
        self.cyclic = False

        def visit(ctx):
            if id(ctx) in seen:
                return
            if id(ctx) in tmp:
                self.cyclic = True
                return
            tmp.add(id(ctx))
            for w in ctx.in_wires():
                for p in writers.get(w.oid, []):
                    if p is not ctx:
                        visit(p)
            tmp.discard(id(ctx))
            seen.add(id(ctx))
            order.append(ctx)
        for ctx in self.comb:
            visit(ctx)
        self.comb = order
        self.multi_driven = [oid for oid, ps in writers.items() if len(ps) > 1]

    def get(self, w):
        return self.values.get(w.oid, 0)

    def put(self, w, v):
        if isinstance(v, float):      # the summariser reads int(x) as x; a float can only come from a true division
            v = int(v)
        self.values[w.oid] = v & ((1 << w.attrs['width']) - 1)

    def settle(self):
        passes = 2 if self.cyclic else 1
        for _ in range(passes):
            for ctx in self.comb:
                ctx.propagate()

    def clock(self):
        pend = []
        for ctx in self.seq:
            pend += ctx.clock()
        for w, v in pend:
            self.put(w, v)
        self.settle()


class LeafCtx:
    def __init__(self, design, obj, ports):
        self.d = design
        self.obj = obj
        self.ports = ports
        self.psum = None
        self.csum = None
        self.cfg = Cfg()
        self.keymap = {}
        for attr, (direction, pname, is_list) in ports.items():
            v = obj.attrs.get(attr)
            if direction.startswith('iface'):
                continue
            if is_list:
                if not isinstance(v, list):
                    continue
                self.cfg.plen[attr] = len(v)
                for i, w in enumerate(v):
                    if isinstance(w, ObjV):
                        self.keymap[('pe', attr, i)] = w
                        self.cfg.width[('pe', attr, i)] = w.attrs['width']
            elif isinstance(v, ObjV):
                self.keymap[('p', attr)] = v
                self.cfg.width[('p', attr)] = v.attrs['width']
            elif v is None:
                self.cfg.attr[attr] = None
        for k, v in obj.attrs.items():
            if k in ports:
                if k in self.cfg.attr:
                    continue
                if isinstance(v, ObjV):
                    self.cfg.attr[k] = 'present'
                continue
            if isinstance(v, (int, str, bool, float)) or v is None:
                self.cfg.attr[k] = v
            elif isinstance(v, list) and all(isinstance(x, (int, str)) for x in v):
                self.cfg.attr[k] = list(v)
        pr = obj.attrs.get('parameters')
        if isinstance(pr, dict):
            for k, v in pr.items():
                if isinstance(v, (int, str)):
                    self.cfg.param[k] = v

    def dir_of(self, key):
        return self.ports[key[1]][0]

    def all_wires(self):
        return list(self.keymap.values())

    def in_wires(self):
        return [w for k, w in self.keymap.items() if self.dir_of(k) in ('in', 'inout')]

    def out_wires(self):
        return [w for k, w in self.keymap.items() if self.dir_of(k) in ('out', 'inout')]

    def load(self):
        for k, w in self.keymap.items():
            self.cfg.val[k] = self.d.get(w)

    def effects(self, summ, kind):
        out = []
        d = summ.puts if kind == 'puts' else summ.prepares
        for pk, x in d.items():
            k = pk if pk[0] != 'pe' else ('pe', pk[1], ev(pk[2], self.cfg))
            if k not in self.keymap:
                raise NetError('%s writes %s which is not bound' % (self.obj.cinfo.name, k))
            v = ev(x, self.cfg)
            if v is not HOLDV:
                out.append((self.keymap[k], v))
        for g, var, lo, hi, knd, pk, x in summ.foralls:
            if (knd == 'put') != (kind == 'puts'):
                continue
            if not ev(g, self.cfg):
                continue
            for i in range(ev(lo, self.cfg), ev(hi, self.cfg)):
                env = {var: i}
                k = ('pe', pk[1], ev(pk[2], self.cfg, env))
                if k not in self.keymap:
                    raise NetError('%s writes element %s which does not exist' % (self.obj.cinfo.name, k))
                v = ev(x, self.cfg, env)
                if v is not HOLDV:
                    out.append((self.keymap[k], v))
        return out

    def propagate(self):
        self.load()
        for w, v in self.effects(self.psum, 'puts'):
            self.d.put(w, v)
        if self.psum.stores:
            self.apply_state(self.psum)

    def apply_state(self, summ):
        new = {a: ev(x, self.cfg) for a, x in summ.state.items()}
        stores = [(seq, ev(i, self.cfg), ev(v, self.cfg)) for g, seq, i, v in summ.stores if ev(g, self.cfg)]
        for seq, i, v in stores:
            lst = list(self.cfg.attr[seq])
            if not (0 <= i < len(lst)):
                raise EvalError('store index out of range')
            lst[i] = v
            self.cfg.attr[seq] = lst
        self.cfg.attr.update(new)

    def clock(self):
        self.load()
        pend = self.effects(self.csum, 'prepares')
        imm = self.effects(self.csum, 'puts')
        if imm:
            raise NetError('%s.clock() writes a wire immediately' % self.obj.cinfo.name)
        self.apply_state(self.csum)
        return pend
