"""Local evidence typing: which expressions of a function denote Wire objects."""
import ast

WIRE_CTORS = {'Wire', 'BidirWire'}
WIRE_FACTORIES = {'wire', 'bidir_wire', 'getSourceToSink', 'getSinkToSource',
                  'addSourceToSink', 'addSinkToSource', 'addSourceToSinkRef', 'addSinkToSourceRef',
                  'addIn', 'addOut', 'addInOut'}
WIRELIST_FACTORIES = {'wires'}


class WireTyper:
    """flow-insensitive: a name is wire-typed if any binding gives it a wire"""

    def __init__(self, fn, port_attrs=None, wire_class_self=False):
        self.fn = fn
        self.ports = port_attrs or {}
        self.wire_self = wire_class_self
        self.names = set()
        self.lists = set()
        if fn is None:
            return
        for a in fn.args.args + fn.args.kwonlyargs:
            if a.annotation is not None and ast.unparse(a.annotation).split('.')[-1] in WIRE_CTORS:
                self.names.add(a.arg)
        changed = True
        it = 0
        while changed and it < 10:
            changed = False
            it += 1
            for n in ast.walk(fn):
                if isinstance(n, ast.Assign) and len(n.targets) == 1 and isinstance(n.targets[0], ast.Name):
                    nm = n.targets[0].id
                    if self.is_wire(n.value) and nm not in self.names:
                        self.names.add(nm)
                        changed = True
                    if self.is_wirelist(n.value) and nm not in self.lists:
                        self.lists.add(nm)
                        changed = True
                elif isinstance(n, (ast.For, ast.comprehension)):
                    it_e = n.iter
                    tgt = n.target
                    if (isinstance(it_e, ast.Call) and isinstance(it_e.func, ast.Name)
                            and it_e.func.id == 'enumerate' and it_e.args
                            and isinstance(tgt, ast.Tuple) and len(tgt.elts) == 2):
                        it_e = it_e.args[0]
                        tgt = tgt.elts[1]
                    if self.is_wirelist(it_e) and isinstance(tgt, ast.Name) and tgt.id not in self.names:
                        self.names.add(tgt.id)
                        changed = True

    def is_wirelist(self, e):
        if isinstance(e, ast.Name):
            return e.id in self.lists
        if isinstance(e, ast.Attribute):
            if isinstance(e.value, ast.Name) and e.value.id == 'self' and e.attr in self.ports \
                    and self.ports[e.attr][2]:
                return True
            if e.attr == 'prepared':
                return True
        if isinstance(e, ast.Call) and isinstance(e.func, ast.Attribute) and e.func.attr in WIRELIST_FACTORIES:
            return True
        return False

    def is_wire(self, e):
        if isinstance(e, ast.Name):
            if e.id == 'self':
                return self.wire_self
            return e.id in self.names
        if isinstance(e, ast.Attribute):
            if e.attr == 'wire':
                return True
            if isinstance(e.value, ast.Name) and e.value.id == 'self' and e.attr in self.ports:
                d = self.ports[e.attr]
                return not d[2] and not d[0].startswith('iface')
            # interface field: self.i2c.SCL
            if (isinstance(e.value, ast.Attribute) and isinstance(e.value.value, ast.Name)
                    and e.value.value.id == 'self' and e.value.attr in self.ports
                    and self.ports[e.value.attr][0].startswith('iface')):
                return True
            return False
        if isinstance(e, ast.Subscript):
            return self.is_wirelist(e.value)
        if isinstance(e, ast.Call):
            f = e.func
            if isinstance(f, ast.Name) and f.id in WIRE_CTORS:
                return True
            if isinstance(f, ast.Attribute) and f.attr in WIRE_FACTORIES:
                return True
        return False
