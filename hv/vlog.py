"""M7: parser for the Verilog subset py4hw emits (IEEE 1364-2005 syntax), plus the
IEEE 1364-2005 section 5 expression sizing / signedness evaluation used by the comparator.

AST (tuples):
  items: ('assign', lhs, expr) ('decl', kind, signed, range|None, [(name, dims, init)])
         ('always', sens, stmt) ('initial', stmt) ('inst', module, params, name, [(port, expr)])
         ('defparam', path, expr) ('comment',)
  stmts: ('block', [stmts]) ('if', cond, then, else|None) ('case', expr, [([labels]|None, stmt)])
         ('nba', lhs, expr) ('ba', lhs, expr) ('null',)
  exprs: ('num', value, width|None, signed) ('id', name) ('idx', e, i) ('slice', e, hi, lo)
         ('un', op, e) ('bin', op, a, b) ('cond', c, a, b) ('cat', [e]) ('rep', n, e) ('signed', e) ('unsigned', e)
"""
import re

from lark import Lark, Transformer, v_args, Token
from lark.exceptions import LarkError

GRAMMAR = r"""
start: (module | item)*
module: attr? "module" IDENT param_ports? port_list? ";" item* "endmodule"
param_ports: "#" "(" param_decl ("," param_decl)* ")"
param_decl: "parameter" range? IDENT ("=" expr)?
port_list: "(" [port ("," port)*] ")"
port: DIR NETKIND? SIGNED? range? IDENT
    | IDENT
DIR: "input" | "output" | "inout"
NETKIND: "wire" | "reg"
SIGNED: "signed"
range: "[" expr ":" expr "]"

?item: assign | decl | always | initial | inst | defparam | param_item
assign: "assign" lvalue "=" expr ";"
decl: attr? DECLKIND SIGNED? range? declname ("," declname)* ";"
DECLKIND: "wire" | "reg" | "integer" | "input" | "output" | "inout"
declname: IDENT range* ("=" expr)?
param_item: ("parameter"|"localparam") range? IDENT "=" expr ";"
always: "always" "@" "(" sens ")" stmt
      | "always" "@" "*" stmt
      | "always" "@" "(" "*" ")" stmt
sens: sens_item (("or"|",") sens_item)*
sens_item: EDGE? expr
EDGE: "posedge" | "negedge"
initial: "initial" stmt
inst: attr? IDENT param_assign? IDENT "(" [conn ("," conn)*] ")" ";"
attr: "(*" /[^*]+/ "*)"
param_assign: "#" "(" [pconn ("," pconn)*] ")"
pconn: "." IDENT "(" expr? ")" | expr
conn: "." IDENT "(" expr? ")" | expr
defparam: "defparam" hier "=" expr ";"
hier: IDENT ("." IDENT)*

?stmt: block | ifstmt | casestmt | nba | ba | null
block: "begin" (":" IDENT)? stmt* "end"
ifstmt: "if" "(" expr ")" stmt ("else" stmt)?
casestmt: CASEKW "(" expr ")" caseitem* "endcase"
CASEKW: "casez" | "casex" | "case"
caseitem: expr ("," expr)* ":" stmt
        | "default" ":"? stmt
nba: lvalue "<=" expr ";"
ba: lvalue "=" expr ";"
null: ";"

?lvalue: IDENT -> ident
       | IDENT "[" expr "]" -> lv_idx
       | IDENT "[" expr ":" expr "]" -> lv_slice
       | "{" lvalue ("," lvalue)* "}" -> lv_cat

?expr: cond
?cond: lor | lor "?" expr ":" expr -> condexpr
?lor: land | lor "||" land -> binop_lor
?land: bor | land "&&" bor -> binop_land
?bor: bxor | bor "|" bxor -> binop_bor
?bxor: band | bxor BXOROP band -> binop
BXOROP: "^~" | "~^" | "^"
?band: eq | band "&" eq -> binop_band
?eq: rel | eq EQOP rel -> binop
EQOP: "===" | "!==" | "==" | "!="
?rel: shift | rel RELOP shift -> binop
RELOP: "<=" | ">=" | "<" | ">"
?shift: add | shift SHOP add -> binop
SHOP: "<<<" | ">>>" | "<<" | ">>"
?add: mul | add ADDOP mul -> binop
ADDOP: "+" | "-"
?mul: pw | mul MULOP pw -> binop
MULOP: "*" | "/" | "%"
?pw: unary | unary "**" pw -> binop_pow
?unary: UNOP unary -> unop
      | primary
UNOP: "~&" | "~|" | "~^" | "^~" | "~" | "!" | "-" | "+" | "&" | "|" | "^"
?primary: NUMBER -> number
        | IDENT -> ident
        | primary "[" expr "]" -> index
        | primary "[" expr ":" expr "]" -> slice_
        | "(" expr ")"
        | "{" expr ("," expr)* "}" -> concat
        | "{" expr "{" expr ("," expr)* "}" "}" -> repl
        | SYSFN "(" expr ")" -> sysfn
SYSFN: "$signed" | "$unsigned"
NUMBER: /[0-9][0-9_]*\s*'[sS]?[bBoOdDhH]\s*[0-9a-fA-FxXzZ_?]+/ | /'[sS]?[bBoOdDhH]\s*[0-9a-fA-FxXzZ_?]+/ | /[0-9][0-9_]*/
IDENT: /(?!(begin|end|if|else|case|casez|casex|endcase|default|assign|always|initial|module|endmodule|posedge|negedge|or|wire|reg|integer|input|output|inout|parameter|localparam|defparam|signed)\b)[A-Za-z_][A-Za-z0-9_$]*/ | /\\[^ \t\r\n]+/
COMMENT: /\/\/[^\n]*/ | /\/\*(.|\n)*?\*\//
%import common.WS
%ignore WS
%ignore COMMENT
"""

RESERVED_2005 = """always and assign automatic begin buf bufif0 bufif1 case casex casez cell cmos config deassign default defparam
design disable edge else end endcase endconfig endfunction endgenerate endmodule endprimitive endspecify endtable endtask event
for force forever fork function generate genvar highz0 highz1 if ifnone incdir include initial inout input instance integer join
large liblist library localparam macromodule medium module nand negedge nmos nor noshowcancelled not notif0 notif1 or output
parameter pmos posedge primitive pull0 pull1 pulldown pullup pulsestyle_onevent pulsestyle_ondetect rcmos real realtime reg
release repeat rnmos rpmos rtran rtranif0 rtranif1 scalared showcancelled signed small specify specparam strong0 strong1 supply0
supply1 table task time tran tranif0 tranif1 tri tri0 tri1 triand trior trireg unsigned use uwire vectored wait wand weak0 weak1
while wire wor xnor xor""".split()


class VParseError(Exception):
    pass


@v_args(inline=True)
class _T(Transformer):
    def start(self, *items):
        return list(items)

    def module(self, *a):
        a = [x for x in a if x is not None]
        name = None
        params, ports, items = [], [], []
        for x in a:
            if isinstance(x, Token) and x.type == 'IDENT' and name is None:
                name = str(x)
            elif isinstance(x, tuple) and x and x[0] == 'param_ports':
                params = x[1]
            elif isinstance(x, tuple) and x and x[0] == 'port_list':
                ports = x[1]
            elif isinstance(x, tuple) and x and x[0] == 'attr':
                pass
            else:
                items.append(x)
        return ('module', name, params, ports, items)

    def param_ports(self, *ps):
        return ('param_ports', list(ps))

    def param_decl(self, *a):
        a = list(a)
        rng = None
        if a and isinstance(a[0], tuple) and a[0][0] == 'range':
            rng = a.pop(0)
        name = str(a.pop(0))
        return ('param', name, rng, a[0] if a else None)

    def port_list(self, *ps):
        return ('port_list', [p for p in ps if p is not None])

    def port(self, *a):
        d = kind = sg = rng = None
        name = None
        for x in a:
            if isinstance(x, Token):
                if x.type == 'DIR':
                    d = str(x)
                elif x.type == 'NETKIND':
                    kind = str(x)
                elif x.type == 'SIGNED':
                    sg = True
                elif x.type == 'IDENT':
                    name = str(x)
            elif isinstance(x, tuple) and x[0] == 'range':
                rng = x
        return ('port', d, kind, bool(sg), rng, name)

    def range(self, hi, lo):
        return ('range', hi, lo)

    def assign(self, l, e):
        return ('assign', l, e)

    def decl(self, *a):
        a = [x for x in a if not (isinstance(x, tuple) and x and x[0] == 'attr')]
        kind = a.pop(0)
        sg = False
        rng = None
        if a and isinstance(a[0], Token) and a[0].type == 'SIGNED':
            sg = True
            a.pop(0)
        if a and isinstance(a[0], tuple) and a[0][0] == 'range':
            rng = a.pop(0)
        return ('decl', str(kind), sg, rng, a)

    def declname(self, name, *rest):
        dims = [r for r in rest if isinstance(r, tuple) and r[0] == 'range']
        init = [r for r in rest if not (isinstance(r, tuple) and r[0] == 'range')]
        return (str(name), dims, init[0] if init else None)

    def param_item(self, *a):
        a = list(a)
        if isinstance(a[0], tuple) and a[0][0] == 'range':
            a.pop(0)
        return ('param', str(a[0]), None, a[1])

    def always(self, *a):
        if len(a) == 2:
            return ('always', a[0], a[1])
        return ('always', '*', a[0])

    def sens(self, *items):
        return list(items)

    def sens_item(self, *a):
        if len(a) == 2:
            return (str(a[0]), a[1])
        return (None, a[0])

    def initial(self, s):
        return ('initial', s)

    def attr(self, *a):
        return ('attr',)

    def inst(self, *a):
        a = [x for x in a if not (isinstance(x, tuple) and x and x[0] == 'attr')]
        mod = str(a[0])
        rest = a[1:]
        params = []
        if rest and isinstance(rest[0], tuple) and rest[0][0] == 'param_assign':
            params = rest[0][1]
            rest = rest[1:]
        name = str(rest[0])
        conns = [x for x in rest[1:] if x is not None]
        return ('inst', mod, params, name, conns)

    def param_assign(self, *ps):
        return ('param_assign', [p for p in ps if p is not None])

    def pconn(self, *a):
        if len(a) >= 1 and isinstance(a[0], Token):
            return (str(a[0]), a[1] if len(a) > 1 else None)
        return (None, a[0])

    def conn(self, *a):
        if len(a) >= 1 and isinstance(a[0], Token):
            return (str(a[0]), a[1] if len(a) > 1 else None)
        return (None, a[0])

    def defparam(self, h, e):
        return ('defparam', h, e)

    def hier(self, *ids):
        return '.'.join(str(i) for i in ids)

    def block(self, *a):
        return ('block', [x for x in a if not isinstance(x, Token)])

    def ifstmt(self, c, t, e=None):
        return ('if', c, t, e)

    def casestmt(self, kw, e, *items):
        return ('case', e, list(items))

    def caseitem(self, *a):
        if len(a) == 1:
            return (None, a[0])
        return (list(a[:-1]), a[-1])

    def nba(self, l, e):
        return ('nba', l, e)

    def ba(self, l, e):
        return ('ba', l, e)

    def null(self):
        return ('null',)

    def ident(self, n):
        return ('id', str(n))

    def lv_idx(self, n, i):
        return ('idx', ('id', str(n)), i)

    def lv_slice(self, n, h, l):
        return ('slice', ('id', str(n)), h, l)

    def lv_cat(self, *a):
        return ('cat', list(a))

    def condexpr(self, c, a, b):
        return ('cond', c, a, b)

    def binop(self, a, op, b):
        return ('bin', str(op), a, b)

    def binop_lor(self, a, b):
        return ('bin', '||', a, b)

    def binop_land(self, a, b):
        return ('bin', '&&', a, b)

    def binop_bor(self, a, b):
        return ('bin', '|', a, b)

    def binop_band(self, a, b):
        return ('bin', '&', a, b)

    def binop_pow(self, a, b):
        return ('bin', '**', a, b)

    def unop(self, op, a):
        return ('un', str(op), a)

    def number(self, t):
        return parse_number(str(t))

    def index(self, e, i):
        return ('idx', e, i)

    def slice_(self, e, h, l):
        return ('slice', e, h, l)

    def concat(self, *a):
        return ('cat', list(a))

    def repl(self, n, *a):
        return ('rep', n, ('cat', list(a)) if len(a) > 1 else a[0])

    def sysfn(self, f, e):
        return ('signed', e) if str(f) == '$signed' else ('unsigned', e)


def parse_number(t):
    t = t.replace('_', '').replace(' ', '')
    m = re.fullmatch(r"(\d*)'([sS]?)([bBoOdDhH])([0-9a-fA-FxXzZ?]+)", t)
    if not m:
        return ('num', int(t), None, True)       # unsized decimal: signed, at least 32 bits
    w = int(m.group(1)) if m.group(1) else None
    sg = bool(m.group(2))
    base = {'b': 2, 'o': 8, 'd': 10, 'h': 16}[m.group(3).lower()]
    digits = m.group(4)
    if re.search(r'[xXzZ?]', digits):
        return ('numxz', digits, w, sg, base)
    return ('num', int(digits, base), w, sg)


_PARSER = None
_FAST = None


def parser():
    global _PARSER
    if _PARSER is None:
        _PARSER = Lark(GRAMMAR, parser='earley', lexer='dynamic', maybe_placeholders=False)
    return _PARSER


def fast_parser():
    global _FAST
    if _FAST is None:
        _FAST = Lark(GRAMMAR, parser='lalr', maybe_placeholders=False)
    return _FAST


def parse(text, check_both=False):
    """LALR first (fast); whatever LALR cannot parse is given to the Earley parser, which alone decides
    that a text is not in the accepted subset"""
    fast = None
    try:
        fast = _T().transform(fast_parser().parse(text))
        if not check_both:
            return fast
    except LarkError:
        pass
    try:
        tree = parser().parse(text)
        slow = _T().transform(tree)
        if check_both and fast is not None and fast != slow:
            raise VParseError('LALR and Earley readings differ')
        return slow
    except LarkError as e:
        msg = str(e).splitlines()
        raise VParseError(' '.join(msg[:3])[:300])


# ---------------------------------------------------------------------------
# IEEE 1364-2005 section 5.4/5.5: expression bit lengths and signedness
class XValue(Exception):
    """the expression has an x/z value or is illegal (out-of-range select, zero replication)"""


class Sig:
    __slots__ = ('w', 'v', 'signed')

    def __init__(self, w, v=0, signed=False):
        self.w, self.v, self.signed = w, v, signed


def const_eval(e, env):
    """constant expression (ranges, replication counts, select indices)"""
    W = selfw(e, env)
    return evalv(e, env, max(W, 32), issigned(e, env), as_signed=True)


def selfw(e, env):
    k = e[0]
    if k == 'num':
        return e[2] if e[2] is not None else max(32, e[1].bit_length() + 1 if e[1] >= 0 else 32)
    if k == 'numxz':
        raise XValue('x/z literal')
    if k == 'id':
        if e[1] not in env:
            raise XValue('undeclared identifier %s' % e[1])
        return env[e[1]].w
    if k == 'idx':
        return 1
    if k == 'slice':
        return abs(const_eval(e[2], env) - const_eval(e[3], env)) + 1
    if k in ('signed', 'unsigned'):
        return selfw(e[1], env)
    if k == 'cat':
        # 1364-2005 5.1.14: a zero replication has size zero and is ignored, but only inside a
        # concatenation in which at least one operand has a positive size
        ws = [0 if zero_rep(x, env) else selfw(x, env) for x in e[1]]
        if sum(ws) == 0:
            raise XValue('concatenation of zero size')
        return sum(ws)
    if k == 'rep':
        n = const_eval(e[1], env)
        if n <= 0:
            raise XValue('replication count %d' % n)
        return n * selfw(e[2], env)
    if k == 'un':
        if e[1] in ('!', '&', '|', '^', '~&', '~|', '~^', '^~'):
            return 1
        return selfw(e[2], env)
    if k == 'bin':
        op = e[1]
        if op in ('==', '!=', '===', '!==', '<', '>', '<=', '>=', '&&', '||'):
            return 1
        if op in ('<<', '>>', '<<<', '>>>', '**'):
            return selfw(e[2], env)
        return max(selfw(e[2], env), selfw(e[3], env))
    if k == 'cond':
        return max(selfw(e[2], env), selfw(e[3], env))
    raise XValue('cannot size %s' % (e,))


def issigned(e, env):
    k = e[0]
    if k == 'num':
        return bool(e[3])
    if k == 'signed':
        return True
    if k == 'unsigned':
        return False
    if k == 'id':
        return env[e[1]].signed if e[1] in env else False
    if k in ('idx', 'slice', 'cat', 'rep'):
        return False
    if k == 'un':
        if e[1] in ('!', '&', '|', '^', '~&', '~|', '~^', '^~'):
            return False
        return issigned(e[2], env)
    if k == 'bin':
        op = e[1]
        if op in ('==', '!=', '===', '!==', '<', '>', '<=', '>=', '&&', '||'):
            return False
        if op in ('<<', '>>', '<<<', '>>>', '**'):
            return issigned(e[2], env)
        return issigned(e[2], env) and issigned(e[3], env)
    if k == 'cond':
        return issigned(e[2], env) and issigned(e[3], env)
    return False


def zero_rep(x, env):
    return x[0] == 'rep' and const_eval(x[1], env) == 0


def tosigned(v, w):
    v &= (1 << w) - 1
    return v - (1 << w) if w > 0 and (v >> (w - 1)) & 1 else v


def evalv(e, env, W, sg, as_signed=False):
    """value of e evaluated in a context of width W and signedness sg (result in [0, 2^W))"""
    M = (1 << W) - 1
    k = e[0]

    def ext(v, w, s):
        v &= (1 << w) - 1
        if s and w > 0 and (v >> (w - 1)) & 1:
            v -= (1 << w)
        return v & M

    def fin(v):
        v &= M
        return tosigned(v, W) if as_signed and sg else v

    if k == 'num':
        w = selfw(e, env)
        return fin(ext(e[1], w, sg and e[3]) if e[2] is not None else e[1])
    if k == 'id':
        if e[1] not in env:
            raise XValue('undeclared identifier %s' % e[1])
        s = env[e[1]]
        return fin(ext(s.v, s.w, sg and s.signed))
    if k == 'idx':
        base = e[1]
        i = const_or_value(e[2], env)
        if base[0] != 'id' or base[1] not in env:
            raise XValue('select on non-identifier')
        s = env[base[1]]
        if getattr(s, 'mem', None) is not None:
            if i < 0 or i >= len(s.mem):
                raise XValue('memory index out of range')
            return fin(s.mem[i])
        if i < 0 or i >= s.w:
            raise XValue('bit select %d out of range [%d:0]' % (i, s.w - 1))
        return fin((s.v >> i) & 1)
    if k == 'slice':
        base = e[1]
        hi, lo = const_eval(e[2], env), const_eval(e[3], env)
        if base[0] != 'id' or base[1] not in env:
            raise XValue('select on non-identifier')
        s = env[base[1]]
        if hi < lo or lo < 0 or hi >= s.w:
            raise XValue('part select [%d:%d] out of range [%d:0]' % (hi, lo, s.w - 1))
        return fin((s.v >> lo) & ((1 << (hi - lo + 1)) - 1))
    if k in ('signed', 'unsigned'):
        w = selfw(e[1], env)
        v = evalv(e[1], env, w, issigned(e[1], env))
        return fin(ext(v, w, sg and k == 'signed'))
    if k == 'cat':
        v = 0
        for x in e[1]:
            if zero_rep(x, env):
                continue
            w = selfw(x, env)
            v = (v << w) | evalv(x, env, w, issigned(x, env))
        return fin(v)
    if k == 'rep':
        n = const_eval(e[1], env)
        if n <= 0:
            raise XValue('replication count %d' % n)
        w = selfw(e[2], env)
        x = evalv(e[2], env, w, False)
        v = 0
        for _ in range(n):
            v = (v << w) | x
        return fin(v)
    if k == 'un':
        op = e[1]
        if op in ('!', '&', '|', '^', '~&', '~|', '~^', '^~'):
            w = selfw(e[2], env)
            a = evalv(e[2], env, w, issigned(e[2], env))
            if op == '!':
                r = int(a == 0)
            elif op in ('&', '~&'):
                r = int(a == (1 << w) - 1)
                r = 1 - r if op == '~&' else r
            elif op in ('|', '~|'):
                r = int(a != 0)
                r = 1 - r if op == '~|' else r
            else:
                r = bin(a).count('1') & 1
                r = 1 - r if op in ('~^', '^~') else r
            return fin(r)
        a = evalv(e[2], env, W, sg)
        if op == '~':
            return fin(~a)
        if op == '-':
            return fin(-a)
        return fin(a)
    if k == 'bin':
        op = e[1]
        if op in ('==', '!=', '===', '!==', '<', '>', '<=', '>='):
            w = max(selfw(e[2], env), selfw(e[3], env))
            s = issigned(e[2], env) and issigned(e[3], env)
            a = evalv(e[2], env, w, s)
            b = evalv(e[3], env, w, s)
            if s:
                a, b = tosigned(a, w), tosigned(b, w)
            r = {'==': a == b, '!=': a != b, '===': a == b, '!==': a != b, '<': a < b, '>': a > b, '<=': a <= b, '>=': a >= b}[op]
            return fin(int(r))
        if op in ('&&', '||'):
            wa, wb = selfw(e[2], env), selfw(e[3], env)
            a = evalv(e[2], env, wa, issigned(e[2], env)) != 0
            b = evalv(e[3], env, wb, issigned(e[3], env)) != 0
            return fin(int(a and b if op == '&&' else a or b))
        if op in ('<<', '>>', '<<<', '>>>'):
            a = evalv(e[2], env, W, sg)
            w = selfw(e[3], env)
            n = evalv(e[3], env, w, False)
            if op in ('<<', '<<<'):
                return fin(a << min(n, W + 1))
            if op == '>>>' and sg:
                return fin(tosigned(a, W) >> min(n, W + 1))
            return fin(a >> min(n, W + 1))
        if op == '**':
            a = evalv(e[2], env, W, sg)
            w = selfw(e[3], env)
            n = evalv(e[3], env, w, issigned(e[3], env))
            if n > 4096:
                raise XValue('huge power')
            return fin(a ** n)
        a = evalv(e[2], env, W, sg)
        b = evalv(e[3], env, W, sg)
        if op in ('/', '%'):
            if b == 0:
                raise XValue('division by zero')
            if sg:
                sa, sb = tosigned(a, W), tosigned(b, W)
                q = abs(sa) // abs(sb)
                q = -q if (sa < 0) != (sb < 0) else q
                return fin(q if op == '/' else sa - q * sb)
            return fin(a // b if op == '/' else a % b)
        return fin({'+': a + b, '-': a - b, '*': a * b, '&': a & b, '|': a | b, '^': a ^ b,
                    '^~': ~(a ^ b), '~^': ~(a ^ b)}[op])
    if k == 'cond':
        w = selfw(e[1], env)
        cnd = evalv(e[1], env, w, issigned(e[1], env))
        return evalv(e[2] if cnd else e[3], env, W, sg, as_signed)
    raise XValue('cannot evaluate %s' % (e,))


def const_or_value(e, env):
    w = selfw(e, env)
    return evalv(e, env, w, issigned(e, env), as_signed=True)


def eval_assign(lhs_w, e, env):
    """value a net of width lhs_w receives from `assign net = e`"""
    if isinstance(e, tuple) and e and e[0] == 'slice' and e[1][0] == 'id' and e[1][1] in env:
        # IEEE 1364-2005 5.2.1: the bits of a part select that lie outside the declared range read as x.  When the target is narrow enough
        # for the assignment to truncate every such bit away, no x reaches the net: evaluate the in-range part only.
        s_ = env[e[1][1]]
        try:
            hi, lo = const_eval(e[2], env), const_eval(e[3], env)
        except XValue:
            hi = lo = None
        if hi is not None and 0 <= lo < s_.w <= hi and lhs_w <= s_.w - lo:
            return (s_.v >> lo) & ((1 << lhs_w) - 1)
    W = max(lhs_w, selfw(e, env))
    sg = issigned(e, env)
    return evalv(e, env, W, sg) & ((1 << lhs_w) - 1)


def idents(e, out=None):
    out = out if out is not None else set()
    if isinstance(e, tuple):
        if e and e[0] == 'id':
            out.add(e[1])
        for x in e:
            idents(x, out)
    elif isinstance(e, list):
        for x in e:
            idents(x, out)
    return out
