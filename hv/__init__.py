"""hv: repository-specific static analysis for the py4hw properties (see /verif/DESIGN.md)."""
