"""M5: symbolic summariser for propagate()/clock() bodies and small helper functions.

Produces, per method, a guarded-effect normal form in which every output is ONE
expression of the inputs (paths are merged with `ite`):

    Summary.puts     {port-key: expr}     immediate writes (put)
    Summary.prepares {port-key: expr}     pending writes (prepare)
    Summary.state    {attr: expr}         new value of self.<attr>
    Summary.stores   [(guard, seq-attr, index, value)]   self.data[i] = v
    Summary.foralls  [(var, lo, hi, kind, port-key, expr)]  per-element writes in loops

Expression IR (tuples):
  ('c', int|str|None) ('get', P) ('w', P) ('attr', name) ('param', name) ('var', name)
  ('bin', op, a, b) ('un', op, a) ('cmp', op, a, b) ('and', a, b) ('or', a, b) ('ite', c, a, b)
  ('signed', x, w) ('index', seq, i) ('len', seq) ('ord', x) ('isnone', x) ('nondet',)
  ('hold',)  = "not written on this path" (the wire keeps its value)
  ('fold', var, lo, hi, ((name, init), ...), ((name, step), ...), result) = accumulation loop
with port keys P = ('p', attr) | ('pe', attr, index-expr) | ('pf', attr, field).
Anything outside the enumerated idioms raises NotSummarisable (-> INCONCLUSIVE).
"""
import ast

from .srcmap import norm


class NotSummarisable(Exception):
    pass


HOLD = ('hold',)
BINOPS = {ast.Add: '+', ast.Sub: '-', ast.Mult: '*', ast.FloorDiv: '//', ast.Mod: '%', ast.BitAnd: '&',
          ast.BitOr: '|', ast.BitXor: '^', ast.LShift: '<<', ast.RShift: '>>', ast.Pow: '**', ast.Div: '/'}
CMPOPS = {ast.Eq: '==', ast.NotEq: '!=', ast.Lt: '<', ast.LtE: '<=', ast.Gt: '>', ast.GtE: '>='}


def c(v):
    return ('c', v)


def ite(cond, a, b):
    if a == b:
        return a
    if cond[0] == 'c':
        return a if cond[1] else b
    return ('ite', cond, a, b)


class Summary:
    def __init__(self):
        self.puts = {}
        self.prepares = {}
        self.state = {}
        self.stores = []
        self.foralls = []
        self.appends = []      # (guard, seq-attr, value)
        self.ret = None
        self.reads = set()     # port keys read with get()
        self.state_reads = set()
        self.raises = []       # guards under which the method raises
        self.calls = []        # opaque calls kept as effects (text)


class Env:
    def __init__(self):
        self.loc = {}
        self.state = {}
        self.puts = {}
        self.prepares = {}
        self.stores = []
        self.foralls = []
        self.appends = []
        self.ret = None
        self.returned = c(False)   # condition under which the method already returned
        self.raises = []
        self.calls = []

    def copy(self):
        e = Env()
        e.loc = dict(self.loc)
        e.state = dict(self.state)
        e.puts = dict(self.puts)
        e.prepares = dict(self.prepares)
        e.stores = list(self.stores)
        e.foralls = list(self.foralls)
        e.appends = list(self.appends)
        e.ret = self.ret
        e.returned = self.returned
        e.raises = list(self.raises)
        e.calls = list(self.calls)
        return e


def merge(cond, a, b):
    """environment after `if cond: a else: b`"""
    e = Env()
    for fld in ('loc', 'state', 'puts', 'prepares'):
        da, db = getattr(a, fld), getattr(b, fld)
        out = {}
        for k in list(da) + [k for k in db if k not in da]:
            if fld in ('puts', 'prepares'):
                va, vb = da.get(k, HOLD), db.get(k, HOLD)
            elif fld == 'state':
                va, vb = da.get(k, ('attr', k)), db.get(k, ('attr', k))
            else:
                if k not in da or k not in db:
                    # local defined on one side only: usable only on that side
                    va, vb = da.get(k, ('undef', k)), db.get(k, ('undef', k))
                else:
                    va, vb = da[k], db[k]
            out[k] = ite(cond, va, vb)
        setattr(e, fld, out)
    na, nb = len(a.stores), len(b.stores)
    e.stores = [(g_and(cond, g), s, i, v) for g, s, i, v in a.stores] + [(g_and(neg(cond), g), s, i, v) for g, s, i, v in b.stores]
    e.appends = [(g_and(cond, g), s, v) for g, s, v in a.appends] + [(g_and(neg(cond), g), s, v) for g, s, v in b.appends]
    e.foralls = [(g_and(cond, g),) + r for (g, *r) in map(tuple, a.foralls) for r in [tuple(r)]] + \
                [(g_and(neg(cond), g),) + r for (g, *r) in map(tuple, b.foralls) for r in [tuple(r)]]
    e.raises = [g_and(cond, g) for g in a.raises] + [g_and(neg(cond), g) for g in b.raises]
    e.calls = [(g_and(cond, g), t) for g, t in a.calls] + [(g_and(neg(cond), g), t) for g, t in b.calls]
    e.ret = ite(cond, a.ret, b.ret) if (a.ret is not None or b.ret is not None) else None
    e.returned = ite(cond, a.returned, b.returned)
    return e


def neg(x):
    if x[0] == 'c':
        return c(not x[1])
    if x[0] == 'un' and x[1] == 'not':
        return x[2]
    return ('un', 'not', x)


def g_and(a, b):
    if a == c(True):
        return b
    if b == c(True):
        return a
    if a == c(False) or b == c(False):
        return c(False)
    return ('and', a, b)


class Summariser:
    def __init__(self, facts, cinfo, ports=None, helper_inline=None, selfname='self'):
        self.facts = facts
        self.c = cinfo
        if ports is None and cinfo is not None:
            ports, _ = facts.ports(cinfo)
        self.ports = ports or {}
        self.fresh = 0
        self.helper_inline = helper_inline or {}
        self.SN = selfname

    # ---------------------------------------------------------------- ports
    def port_key(self, e, env):
        """AST expression -> port key, or None when it is not a wire of self"""
        if isinstance(e, ast.IfExp):
            a, b = self.port_key(e.body, env), self.port_key(e.orelse, env)
            if a is not None and b is not None:
                return ('pite', self.expr(e.test, env), a, b)
            return None
        if isinstance(e, ast.Attribute) and isinstance(e.value, ast.Name) and e.value.id == self.SN:
            if e.attr in self.ports and not self.ports[e.attr][2] and not self.ports[e.attr][0].startswith('iface'):
                return ('p', e.attr)
            return None
        if isinstance(e, ast.Attribute) and isinstance(e.value, ast.Attribute) and isinstance(e.value.value, ast.Name) \
                and e.value.value.id == self.SN and e.value.attr in self.ports and self.ports[e.value.attr][0].startswith('iface'):
            return ('pf', e.value.attr, e.attr)
        if isinstance(e, ast.Subscript) and isinstance(e.value, ast.Attribute) and isinstance(e.value.value, ast.Name) \
                and e.value.value.id == self.SN and e.value.attr in self.ports and self.ports[e.value.attr][2]:
            return ('pe', e.value.attr, self.expr(e.slice, env))
        if isinstance(e, ast.Name) and e.id in env.loc and isinstance(env.loc[e.id], tuple) and env.loc[e.id][0] == 'wire':
            pk = env.loc[e.id][1]
            if pk[0] == 'pe' and isinstance(pk[2], int):
                pk = ('pe', pk[1], c(pk[2]))
            return pk
        return None

    def wire_read(self, kind, pk):
        if pk[0] == 'pite':
            return ite(pk[1], self.wire_read(kind, pk[2]), self.wire_read(kind, pk[3]))
        return (kind, pk)

    # ---------------------------------------------------------------- expressions
    def expr(self, e, env):
        if isinstance(e, ast.Constant):
            if isinstance(e.value, bool):
                return c(int(e.value))
            if isinstance(e.value, (int, str)) or e.value is None:
                return c(e.value)
            raise NotSummarisable('constant %r' % (e.value,))
        if isinstance(e, ast.Name):
            if e.id in env.loc:
                v = env.loc[e.id]
                if isinstance(v, tuple) and v[0] == 'wire':
                    raise NotSummarisable('wire object used as a value: %s' % e.id)
                return v
            if e.id in ('True', 'False'):
                return c(int(e.id == 'True'))
            raise NotSummarisable('unbound name %s' % e.id)
        if isinstance(e, ast.Attribute):
            if isinstance(e.value, ast.Name) and e.value.id == self.SN:
                if e.attr in self.ports:
                    raise NotSummarisable('port object self.%s used as a value' % e.attr)
                if e.attr in env.state:
                    return env.state[e.attr]
                return ('attr', e.attr)
            # wire.value read directly == get()
            pk = self.port_key(e.value, env)
            if pk is not None and e.attr == 'value':
                return ('get', pk)
            # class-level constant: ClassName.NAME with `NAME = <constant expression>` in the body of the class (or of a base class)
            if isinstance(e.value, ast.Name) and self.c is not None:
                for k in [self.c] + [b for b in self.facts.mro(self.c) if b is not self.c]:
                    if k.name != e.value.id:
                        continue
                    for st in k.node.body:
                        if isinstance(st, ast.Assign) and len(st.targets) == 1 and isinstance(st.targets[0], ast.Name) and st.targets[0].id == e.attr:
                            written = any(isinstance(n, (ast.Assign, ast.AugAssign)) and any(
                                isinstance(t, ast.Attribute) and t.attr == e.attr for t in (n.targets if isinstance(n, ast.Assign) else [n.target]))
                                for m in k.methods.values() for n in ast.walk(m))
                            if not written:
                                v = self.expr(st.value, Env())
                                if v[0] == 'c':
                                    return v
            raise NotSummarisable('attribute ' + norm(e))
        if isinstance(e, ast.BinOp):
            if type(e.op) not in BINOPS:
                raise NotSummarisable('operator ' + type(e.op).__name__)
            return fold_const(('bin', BINOPS[type(e.op)], self.expr(e.left, env), self.expr(e.right, env)))
        if isinstance(e, ast.UnaryOp):
            v = self.expr(e.operand, env)
            if isinstance(e.op, ast.Invert):
                return fold_const(('un', '~', v))
            if isinstance(e.op, ast.USub):
                return fold_const(('un', '-', v))
            if isinstance(e.op, ast.Not):
                return fold_const(neg(v))
            if isinstance(e.op, ast.UAdd):
                return v
        if isinstance(e, ast.BoolOp):
            vals = [self.expr(x, env) for x in e.values]
            out = vals[-1]
            for v in reversed(vals[:-1]):
                out = ('and', v, out) if isinstance(e.op, ast.And) else ('or', v, out)
            return out
        if isinstance(e, ast.Compare):
            if len(e.ops) == 1 and isinstance(e.ops[0], (ast.Is, ast.IsNot, ast.Eq, ast.NotEq)) and isinstance(e.comparators[0], ast.Constant) \
                    and e.comparators[0].value is None and isinstance(e.left, ast.Attribute) and isinstance(e.left.value, ast.Name) \
                    and e.left.value.id == self.SN and e.left.attr not in env.state:
                x = ('isnone', ('attr', e.left.attr))
                return x if isinstance(e.ops[0], (ast.Is, ast.Eq)) else neg(x)
            left = self.expr(e.left, env)
            parts = []
            for op, r in zip(e.ops, e.comparators):
                if isinstance(op, (ast.Is, ast.IsNot)) and isinstance(r, ast.Constant) and r.value is None:
                    x = ('isnone', left)
                    parts.append(x if isinstance(op, ast.Is) else neg(x))
                    continue
                if type(op) not in CMPOPS:
                    raise NotSummarisable('comparison ' + type(op).__name__)
                rv = self.expr(r, env)
                if rv == c(None) and isinstance(op, (ast.Eq, ast.NotEq)):
                    x = ('isnone', left)
                    parts.append(x if isinstance(op, ast.Eq) else neg(x))
                else:
                    parts.append(fold_const(('cmp', CMPOPS[type(op)], left, rv)))
                left = rv
            out = parts[-1]
            for p in reversed(parts[:-1]):
                out = ('and', p, out)
            return out
        if isinstance(e, ast.IfExp):
            return ite(self.expr(e.test, env), self.expr(e.body, env), self.expr(e.orelse, env))
        if isinstance(e, ast.Subscript):
            if isinstance(e.slice, ast.Slice):
                raise NotSummarisable('slice ' + norm(e))
            base = e.value
            pk = self.port_key(e, env)
            if pk is not None:
                raise NotSummarisable('wire object used as a value: ' + norm(e))
            seq = self.expr(base, env)
            idx = self.expr(e.slice, env)
            out = ('index', seq, idx)
            if isinstance(seq, tuple) and seq[0] == 'attr':
                # element stores made earlier on this path are visible to the read (program order inside the method)
                for g, sname, i, v in env.stores:
                    if sname == seq[1]:
                        out = ite(g_and(g, fold_const(('cmp', '==', i, idx))), v, out)
            return out
        if isinstance(e, ast.Call):
            return self.call(e, env)
        raise NotSummarisable('expression ' + type(e).__name__ + ' ' + norm(e)[:60])

    def call(self, e, env):
        f = e.func
        if isinstance(f, ast.Attribute):
            recv = f.value
            pk = self.port_key(recv, env)
            if pk is not None:
                if f.attr == 'get' and not e.args:
                    return self.wire_read('get', pk)
                if f.attr == 'getWidth' and not e.args:
                    return self.wire_read('w', pk)
                raise NotSummarisable('wire method %s in value position' % f.attr)
            if f.attr == 'get' and not e.args and isinstance(recv, ast.Attribute) and isinstance(recv.value, ast.Name) and recv.value.id == self.SN:
                # self.<undefined>.get(): attribute that is not a port of the class
                raise NotSummarisable('get() on self.%s, which is not a port attribute of %s' % (recv.attr, self.c.name if self.c else '?'))
            if f.attr == 'getParameterValue' and isinstance(recv, ast.Name) and recv.id == self.SN and len(e.args) == 1 \
                    and isinstance(e.args[0], ast.Constant):
                return ('param', e.args[0].value)
            if f.attr in ('c2_to_signed',) and len(e.args) == 2:
                return ('signed', self.expr(e.args[0], env), self.expr(e.args[1], env))
            if f.attr in ('randint', 'random', 'normal', 'getrandbits', 'randrange'):
                return ('nondet',)
            if f.attr in self.helper_inline:
                return self.helper_inline[f.attr](self, e, env)
            if isinstance(recv, ast.Name) and recv.id == 'math' and f.attr in ('ceil', 'floor', 'log2', 'log', 'sqrt', 'pow'):
                return ('fn', 'math.' + f.attr, tuple(self.expr(a, env) for a in e.args))
            raise NotSummarisable('call ' + norm(e)[:80])
        if isinstance(f, ast.Name):
            if f.id == 'ord' and len(e.args) == 1:
                v = self.expr(e.args[0], env)
                if v[0] == 'c' and isinstance(v[1], str) and len(v[1]) == 1:
                    return c(ord(v[1]))
                return ('ord', v)
            if f.id == 'len' and len(e.args) == 1:
                a = e.args[0]
                if isinstance(a, ast.Attribute) and isinstance(a.value, ast.Name) and a.value.id == self.SN:
                    if a.attr in self.ports and self.ports[a.attr][2]:
                        return ('len', ('plist', a.attr))
                    return ('len', ('attr', a.attr))
                v = self.expr(a, env)
                if v[0] == 'c' and isinstance(v[1], str):
                    return c(len(v[1]))
                return ('len', v)
            if f.id == 'int' and len(e.args) == 1:
                return self.expr(e.args[0], env)
            if f.id == 'bool' and len(e.args) == 1:
                return ('cmp', '!=', self.expr(e.args[0], env), c(0))
            if f.id in ('min', 'max') and len(e.args) == 2:
                a, b = self.expr(e.args[0], env), self.expr(e.args[1], env)
                return ite(('cmp', '<' if f.id == 'min' else '>', a, b), a, b)
            if f.id == 'abs' and len(e.args) == 1:
                a = self.expr(e.args[0], env)
                return ite(('cmp', '<', a, c(0)), ('un', '-', a), a)
            if f.id in self.helper_inline:
                return self.helper_inline[f.id](self, e, env)
        raise NotSummarisable('call ' + norm(e)[:80])

    # ---------------------------------------------------------------- statements
    def block(self, stmts, env):
        stmts = list(stmts)
        for i, s in enumerate(stmts):
            if isinstance(s, ast.If):
                cond = self.expr(s.test, env)
                ret_inside = any(isinstance(x, (ast.Return,)) for x in ast.walk(s))
                if ret_inside:
                    rest = stmts[i + 1:]
                    a = self.block(list(s.body) + rest, env.copy())
                    b = self.block(list(s.orelse) + rest, env.copy())
                    return merge(cond, a, b)
                if cond[0] == 'c':
                    env = self.block(s.body if cond[1] else s.orelse, env)
                    continue
                a = self.block(s.body, env.copy())
                b = self.block(s.orelse, env.copy())
                env = merge(cond, a, b)
            elif isinstance(s, ast.Return):
                env.ret = self.expr(s.value, env) if s.value is not None else c(None)
                env.returned = c(True)
                return env
            elif isinstance(s, ast.Raise):
                env.raises.append(c(True))
                env.returned = c(True)
                return env
            elif isinstance(s, ast.Match):
                env = self.match(s, env)
            else:
                env = self.stmt(s, env)
        return env

    def match(self, s, env):
        subj = self.expr(s.subject, env)
        # build an if/elif chain from the cases (value patterns, or-patterns, wildcard)
        def cond_of(p):
            if isinstance(p, ast.MatchValue):
                return ('cmp', '==', subj, self.expr(p.value, env))
            if isinstance(p, ast.MatchOr):
                cs = [cond_of(x) for x in p.patterns]
                out = cs[-1]
                for x in reversed(cs[:-1]):
                    out = ('or', x, out)
                return out
            if isinstance(p, ast.MatchAs) and p.pattern is None:
                return c(True)
            if isinstance(p, ast.MatchSingleton):
                return ('cmp', '==', subj, c(p.value))
            raise NotSummarisable('match pattern ' + norm(p))

        def chain(cases, env):
            if not cases:
                return env
            cs = cases[0]
            cond = cond_of(cs.pattern)
            if cs.guard is not None:
                cond = g_and(cond, self.expr(cs.guard, env))
            if cond == c(True):
                return self.block(cs.body, env)
            a = self.block(cs.body, env.copy())
            b = chain(cases[1:], env.copy())
            return merge(cond, a, b)
        return chain(list(s.cases), env)

    def stmt(self, s, env):
        if isinstance(s, ast.Expr):
            v = s.value
            if isinstance(v, ast.Constant):
                return env
            if isinstance(v, ast.Call):
                return self.effect_call(v, env)
            raise NotSummarisable('expression statement ' + norm(s)[:60])
        if isinstance(s, ast.Assign):
            if len(s.targets) != 1:
                # a = b = expr: the value is computed once, then bound to the targets from left to right
                self.fresh += 1
                tmp = '_chain%d' % self.fresh
                env = self.assign(ast.Name(id=tmp, ctx=ast.Store()), s.value, env)
                for t in s.targets:
                    env = self.assign(t, ast.Name(id=tmp, ctx=ast.Load()), env)
                return env
            return self.assign(s.targets[0], s.value, env)
        if isinstance(s, ast.AugAssign):
            if type(s.op) not in BINOPS:
                raise NotSummarisable('augmented operator')
            cur = ast.BinOp(left=to_load(s.target), op=s.op, right=s.value)
            ast.copy_location(cur, s)
            return self.assign(s.target, cur, env)
        if isinstance(s, ast.AnnAssign) and s.value is not None:
            return self.assign(s.target, s.value, env)
        if isinstance(s, (ast.Import, ast.ImportFrom, ast.Pass, ast.Global)):
            return env
        if isinstance(s, ast.Assert):
            return env      # assertions are run-time checks of the block's own assumptions
        if isinstance(s, ast.For):
            return self.loop(s, env)
        raise NotSummarisable('statement ' + type(s).__name__)

    def assign(self, t, value, env):
        if isinstance(t, ast.Name):
            pk = None
            if isinstance(value, (ast.Attribute, ast.Subscript, ast.Name, ast.IfExp)):
                pk = self.port_key(value, env)
            if pk is not None:
                env.loc[t.id] = ('wire', pk)
            else:
                env.loc[t.id] = self.expr(value, env)
            return env
        if isinstance(t, ast.Attribute) and isinstance(t.value, ast.Name) and t.value.id == self.SN:
            if t.attr in self.ports:
                raise NotSummarisable('port attribute self.%s re-assigned' % t.attr)
            env.state[t.attr] = self.expr(value, env)
            return env
        if isinstance(t, ast.Subscript) and isinstance(t.value, ast.Attribute) and isinstance(t.value.value, ast.Name) \
                and t.value.value.id == self.SN and t.value.attr not in self.ports:
            env.stores.append((c(True), t.value.attr, self.expr(t.slice, env), self.expr(value, env)))
            return env
        if isinstance(t, ast.Tuple) and isinstance(value, ast.Tuple) and len(t.elts) == len(value.elts):
            vals = [self.expr(v, env) for v in value.elts]
            for tt, vv in zip(t.elts, vals):
                if isinstance(tt, ast.Name):
                    env.loc[tt.id] = vv
                else:
                    raise NotSummarisable('tuple target')
            return env
        raise NotSummarisable('assignment target ' + norm(t)[:60])

    def effect_call(self, v, env):
        f = v.func
        if isinstance(f, ast.Attribute):
            pk = self.port_key(f.value, env)
            if pk is not None and f.attr in ('put', 'prepare') and len(v.args) == 1:
                val = self.expr(v.args[0], env)
                d = env.puts if f.attr == 'put' else env.prepares

                def write(pk, val, guard):
                    if pk[0] == 'pite':
                        write(pk[2], val, g_and(guard, pk[1]))
                        write(pk[3], val, g_and(guard, neg(pk[1])))
                    elif guard == c(True):
                        d[pk] = val
                    else:
                        d[pk] = ite(guard, val, d.get(pk, HOLD))
                write(pk, val, c(True))
                return env
            if pk is not None:
                raise NotSummarisable('wire method %s as a statement' % f.attr)
            if f.attr in ('put', 'prepare') and isinstance(f.value, ast.Attribute) and isinstance(f.value.value, ast.Name) and f.value.value.id == self.SN:
                raise NotSummarisable('%s() on self.%s, which is not a port attribute of %s' % (f.attr, f.value.attr, self.c.name if self.c else '?'))
            if f.attr == 'append' and isinstance(f.value, ast.Attribute) and isinstance(f.value.value, ast.Name) and f.value.value.id == self.SN \
                    and len(v.args) == 1:
                env.appends.append((c(True), f.value.attr, self.expr(v.args[0], env)))
                return env
        if isinstance(f, ast.Name) and f.id == 'print':
            return env
        if isinstance(f, ast.Name) and f.id == 'next':
            env.calls.append((c(True), norm(v)))
            return env
        raise NotSummarisable('call statement ' + norm(v)[:80])

    def loop(self, s, env):
        """accumulation / scatter loop over an integer range or over a list of ports"""
        self.fresh += 1
        it = s.iter
        var = None
        item = None
        lo, hi = c(0), None
        if isinstance(it, ast.Call) and isinstance(it.func, ast.Name) and it.func.id == 'range':
            a = [self.expr(x, env) for x in it.args]
            if len(a) == 1:
                hi = a[0]
            elif len(a) == 2:
                lo, hi = a
            else:
                raise NotSummarisable('range with step')
            if not isinstance(s.target, ast.Name):
                raise NotSummarisable('loop target')
            var = s.target.id
        else:
            lst = it
            idxname = None
            if isinstance(it, ast.Call) and isinstance(it.func, ast.Name) and it.func.id == 'enumerate' and len(it.args) == 1 \
                    and isinstance(s.target, ast.Tuple) and len(s.target.elts) == 2:
                lst = it.args[0]
                idxname = s.target.elts[0].id
                item = s.target.elts[1].id
            elif isinstance(s.target, ast.Name):
                item = s.target.id
            else:
                raise NotSummarisable('loop form')
            if not (isinstance(lst, ast.Attribute) and isinstance(lst.value, ast.Name) and lst.value.id == self.SN
                    and lst.attr in self.ports and self.ports[lst.attr][2]):
                raise NotSummarisable('loop over ' + norm(lst))
            var = idxname or ('_i%d' % self.fresh)
            hi = ('len', ('plist', lst.attr))
            listattr = lst.attr
        lv = ('var', '%s#%d' % (var, self.fresh))
        body_env = env.copy()
        body_env.loc[var] = lv
        if item is not None:
            body_env.loc[item] = ('wire', ('pe', listattr, lv))
        # accumulators: locals and state assigned in the body
        assigned = set()
        st_assigned = set()
        for n in ast.walk(s):
            if isinstance(n, (ast.Assign, ast.AugAssign)):
                for t in (n.targets if isinstance(n, ast.Assign) else [n.target]):
                    if isinstance(t, ast.Name):
                        assigned.add(t.id)
                    elif isinstance(t, ast.Attribute) and isinstance(t.value, ast.Name) and t.value.id == self.SN:
                        st_assigned.add(t.attr)
        if st_assigned:
            raise NotSummarisable('loop assigning block state')
        accs = [a for a in sorted(assigned) if a in env.loc and a != var and a != item]
        for a in accs:
            body_env.loc[a] = ('acc', a, self.fresh)
        before_puts = dict(body_env.puts)
        before_prep = dict(body_env.prepares)
        body_env.puts = {}
        body_env.prepares = {}
        out = self.block(s.body, body_env)
        if out.returned != c(False) or out.raises:
            raise NotSummarisable('return/raise inside loop')
        if out.stores[len(env.stores):] or out.appends[len(env.appends):]:
            raise NotSummarisable('store inside loop')
        accinit = tuple((a, env.loc[a]) for a in accs)
        accstep = tuple((a, out.loc[a]) for a in accs)
        for a in accs:
            env.loc[a] = ('fold', lv[1], lo, hi, accinit, accstep, a)
        for kind, d in (('put', out.puts), ('prepare', out.prepares)):
            for pk, val in d.items():
                if pk[0] == 'pe' and mentions(pk[2], lv):
                    if mentions_acc(val, self.fresh):
                        raise NotSummarisable('per-element write depending on a loop accumulator')
                    env.foralls.append((c(True), lv[1], lo, hi, kind, pk, val))
                else:
                    raise NotSummarisable('loop writes a fixed port %s' % (pk,))
        env.puts = before_puts
        env.prepares = before_prep
        return env

    # ---------------------------------------------------------------- entry
    def method(self, fn, bind=None):
        env = Env()
        for k, v in (bind or {}).items():
            env.loc[k] = v
        body = fn.body
        env = self.block(body, env)
        s = Summary()
        s.puts, s.prepares, s.state = env.puts, env.prepares, env.state
        s.stores, s.foralls, s.appends, s.ret = env.stores, env.foralls, env.appends, env.ret
        s.raises, s.calls = env.raises, env.calls
        return s


def to_load(t):
    """load-context twin of an assignment target (shallow: sub-expressions are shared)"""
    if isinstance(t, ast.Name):
        return ast.copy_location(ast.Name(id=t.id, ctx=ast.Load()), t)
    if isinstance(t, ast.Attribute):
        return ast.copy_location(ast.Attribute(value=t.value, attr=t.attr, ctx=ast.Load()), t)
    if isinstance(t, ast.Subscript):
        return ast.copy_location(ast.Subscript(value=t.value, slice=t.slice, ctx=ast.Load()), t)
    return t


def mentions(x, sub):
    if x == sub:
        return True
    if isinstance(x, tuple):
        return any(mentions(y, sub) for y in x)
    return False


def mentions_acc(x, fresh):
    if isinstance(x, tuple):
        if len(x) == 3 and x[0] == 'acc' and x[2] == fresh:
            return True
        return any(mentions_acc(y, fresh) for y in x)
    return False


def fold_const(x):
    """constant folding of pure integer sub-expressions"""
    k = x[0]
    try:
        if k == 'bin' and x[2][0] == 'c' and x[3][0] == 'c' and isinstance(x[2][1], int) and isinstance(x[3][1], int):
            a, b = x[2][1], x[3][1]
            op = x[1]
            if op in ('//', '%') and b == 0:
                return x
            if op == '/':
                return x
            if op in ('<<', '**') and (b < 0 or b > 4096):
                return x
            if op == '>>' and b < 0:
                return x
            return c({'+': a + b, '-': a - b, '*': a * b, '//': a // b if b else 0, '%': a % b if b else 0, '&': a & b, '|': a | b, '^': a ^ b,
                      '<<': a << b, '>>': a >> b, '**': a ** b}[op])
        if k == 'un' and x[2][0] == 'c' and isinstance(x[2][1], int):
            return c({'~': ~x[2][1], '-': -x[2][1], 'not': int(not x[2][1])}[x[1]])
        if k == 'cmp' and x[2][0] == 'c' and x[3][0] == 'c' and x[2][1] is not None and x[3][1] is not None \
                and type(x[2][1]) == type(x[3][1]):
            a, b = x[2][1], x[3][1]
            return c(int({'==': a == b, '!=': a != b, '<': a < b, '<=': a <= b, '>': a > b, '>=': a >= b}[x[1]]))
    except Exception:
        return x
    return x


def show(x, depth=0):
    """compact human-readable rendering of an IR expression"""
    if not isinstance(x, tuple):
        return repr(x)
    k = x[0]
    if k == 'c':
        return repr(x[1])
    if k == 'get':
        return showp(x[1])
    if k == 'w':
        return 'w(%s)' % showp(x[1])
    if k == 'attr':
        return 'self.' + x[1]
    if k == 'param':
        return 'param(%s)' % x[1]
    if k == 'var':
        return x[1].split('#')[0]
    if k == 'acc':
        return x[1]
    if k == 'bin':
        return '(%s %s %s)' % (show(x[2]), x[1], show(x[3]))
    if k == 'un':
        return '%s%s' % (x[1] + (' ' if x[1] == 'not' else ''), show(x[2]))
    if k == 'cmp':
        return '(%s %s %s)' % (show(x[2]), x[1], show(x[3]))
    if k in ('and', 'or'):
        return '(%s %s %s)' % (show(x[1]), k, show(x[2]))
    if k == 'ite':
        return '(%s ? %s : %s)' % (show(x[1]), show(x[2]), show(x[3]))
    if k == 'signed':
        return 'signed(%s, %s)' % (show(x[1]), show(x[2]))
    if k == 'index':
        return '%s[%s]' % (show(x[1]), show(x[2]))
    if k == 'len':
        return 'len(%s)' % (x[1][1] if isinstance(x[1], tuple) and x[1][0] in ('plist', 'attr') else show(x[1]))
    if k == 'isnone':
        return '(%s is None)' % show(x[1])
    if k == 'hold':
        return '<hold>'
    if k == 'nondet':
        return '<nondet>'
    if k == 'ord':
        return 'ord(%s)' % show(x[1])
    if k == 'fold':
        return 'fold[%s in %s..%s; %s; %s].%s' % (x[1].split('#')[0], show(x[2]), show(x[3]),
                                               ', '.join('%s=%s' % (a, show(b)) for a, b in x[4]),
                                               ', '.join('%s:=%s' % (a, show(b)) for a, b in x[5]), x[6])
    if k == 'undef':
        return '<undef %s>' % x[1]
    return str(x)


def showp(p):
    if p[0] == 'p':
        return p[1]
    if p[0] == 'pe':
        return '%s[%s]' % (p[1], show(p[2]))
    if p[0] == 'pf':
        return '%s.%s' % (p[1], p[2])
    return str(p)
