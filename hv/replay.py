"""Replay of one reported violation: `python3-vt -m hv.replay <replay file>`.

A replay file names the property, the rule instance (rule id + construct key), the tier and the repository it was found in.  Replaying
re-runs that property's analysis on the current source of the repository (VERIF_REPO or the path recorded in the file, default /repo)
and reports whether the same rule instance is still violated: exit 1 and the VIOLATION line if it is, exit 0 if it is not, exit 2 if
the analysis cannot be evaluated."""
import io
import json
import os
import sys
from contextlib import redirect_stdout


def main(argv=None):
    argv = argv if argv is not None else sys.argv[1:]
    if len(argv) != 1:
        print('usage: python3-vt -m hv.replay <replay file>')
        return 2
    try:
        with open(argv[0]) as fh:
            rec = json.load(fh)
    except (OSError, ValueError) as e:
        print('ANALYSIS-ERROR cannot read replay file %s: %s' % (argv[0], e))
        return 2
    pid, rule, key = rec.get('property'), rec.get('rule'), rec.get('key')
    repo = os.environ.get('VERIF_REPO') or rec.get('repo') or '/repo'
    if not os.path.isdir(os.path.join(repo, 'py4hw')):
        repo = '/repo'
    from . import check
    from . import report
    captured = {}
    orig_finish = report.Ctx.finish

    def finish(self, level_text):
        captured['violations'] = list(self.violations)
        captured['errors'] = list(self.errors)
        return orig_finish(self, level_text)
    report.Ctx.finish = finish
    # the replay must not overwrite the evidence of the regular run
    report.OUT = os.environ.get('VERIF_OUT') or os.path.join('/tmp', 'hv_replay_%d' % os.getpid())
    buf = io.StringIO()
    with redirect_stdout(buf):
        rc = check.main([pid, '--tier', rec.get('tier', 'quick'), '--repo', repo])
    hits = [v for v in captured.get('violations', []) if v['rule'] == rule and v['key'] == key]
    print('replay of %s %s [%s] on %s' % (pid, rule, key, repo))
    if hits:
        v = hits[0]
        print('  still violated: %s' % v['what'])
        if v.get('witness'):
            print('  witness: %s' % json.dumps(v['witness'], default=str)[:1500])
        print('VIOLATION property=%s replay=%s' % (pid, argv[0]))
        return 1
    if rc == 2 and captured.get('errors'):
        print('ANALYSIS-ERROR property=%s %s' % (pid, captured['errors'][0][:300]))
        return 2
    print('  not reproduced: the rule instance holds on the current source')
    return 0


if __name__ == '__main__':
    sys.exit(main())
