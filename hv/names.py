"""M1: module-level name resolution (star-import fix-point) and the undefined-name scan
used by the definite-failure lints (C07.c / C08.c / C09.c / C12.d)."""
import ast
import builtins
import symtable

from .srcmap import PKG


import json
import os
EXT = json.load(open(os.path.join(os.path.dirname(os.path.abspath(__file__)), 'data', 'external_star_names.json')))


class Names:
    def __init__(self, sm):
        self.sm = sm
        self.tops = {}
        self.unknown = set()     # modules with an external star import: unresolved names are unknown, not undefined
        m2r = sm.mod2rel()
        stars = {}
        for rel in sm.files:
            t = sm.try_tree(rel)
            if t is None:
                continue
            d = set()
            st = []
            for n in ast.walk(t):
                # only module-level (and module-level if/try) bindings
                pass
            for n in t.body:
                nodes = ast.walk(n) if isinstance(n, (ast.If, ast.Try, ast.With)) else [n]
                for x in nodes:
                    if isinstance(x, (ast.FunctionDef, ast.ClassDef, ast.AsyncFunctionDef)):
                        d.add(x.name)
                    elif isinstance(x, (ast.Assign, ast.AugAssign, ast.AnnAssign)):
                        tg = x.targets if isinstance(x, ast.Assign) else [x.target]
                        for tt in tg:
                            for y in ast.walk(tt):
                                if isinstance(y, ast.Name):
                                    d.add(y.id)
                    elif isinstance(x, ast.Import):
                        for a in x.names:
                            d.add((a.asname or a.name).split('.')[0])
                    elif isinstance(x, ast.ImportFrom):
                        tgt = sm.resolve_import(rel, x.level, x.module)
                        for a in x.names:
                            if a.name == '*':
                                if tgt and tgt in m2r:
                                    st.append(m2r[tgt])
                                elif x.module in EXT:
                                    d.update(EXT[x.module])
                                else:
                                    self.unknown.add(rel)
                            else:
                                d.add(a.asname or a.name)
                    elif isinstance(x, (ast.For,)):
                        for y in ast.walk(x.target):
                            if isinstance(y, ast.Name):
                                d.add(y.id)
            self.tops[rel] = d
            stars[rel] = st
        changed = True
        while changed:
            changed = False
            for rel, st in stars.items():
                for s in st:
                    if s in self.tops:
                        new = self.tops[s] - self.tops[rel]
                        if new:
                            self.tops[rel] |= new
                            changed = True
                        if s in self.unknown and rel not in self.unknown:
                            self.unknown.add(rel)
                            changed = True
        # sub-modules are attributes of packages
        for rel in sm.files:
            m = sm.modname(rel)
            if '.' in m:
                pk, _, leaf = m.rpartition('.')
                if pk in m2r and m2r[pk] in self.tops:
                    self.tops[m2r[pk]].add(leaf)
        self.B = set(dir(builtins)) | {'__name__', '__file__', '__doc__', '__class__'}
        self._sym = {}

    def undefined_globals(self, rel):
        """[(function qualified name, lineno, name)] for global references that resolve nowhere"""
        if rel in self._sym:
            return self._sym[rel]
        out = []
        if rel in self.unknown or rel not in self.tops:
            self._sym[rel] = out
            return out
        try:
            st = symtable.symtable(self.sm.text(rel), rel, 'exec')
        except SyntaxError:
            self._sym[rel] = out
            return out
        glob = self.tops[rel] | self.B

        def walk(tab, qual):
            for sym in tab.get_symbols():
                if sym.is_referenced() and (sym.is_global() or tab.get_type() == 'module') and not sym.is_assigned() \
                        and not sym.is_imported() and not sym.is_parameter():
                    if sym.get_name() not in glob:
                        out.append((qual, tab.get_lineno(), sym.get_name()))
            for ch in tab.get_children():
                walk(ch, (qual + '.' if qual else '') + ch.get_name())
        walk(st, '')
        self._sym[rel] = out
        return out
