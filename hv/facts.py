"""M1/M2: class table, method lookup, port facts read from constructors."""
import ast
from .srcmap import AnalysisError, norm

PORT_ADDERS = {'addIn': 'in', 'addOut': 'out', 'addInOut': 'inout'}


class ClassInfo:
    def __init__(self, rel, node):
        self.rel = rel
        self.node = node
        self.name = node.name
        self.bases = [norm(b).split('.')[-1] for b in node.bases]
        self.methods = {m.name: m for m in node.body
                        if isinstance(m, (ast.FunctionDef, ast.AsyncFunctionDef))}

    def __repr__(self):
        return '<%s:%s>' % (self.rel, self.name)


class Facts:
    def __init__(self, sm, rels=None):
        self.sm = sm
        self.classes = {}       # name -> [ClassInfo]
        self.functions = {}     # (rel, name) -> FunctionDef   (module level)
        self.rels = []
        for rel in (rels if rels is not None else sorted(sm.files)):
            t = sm.try_tree(rel)
            if t is None:
                continue
            self.rels.append(rel)
            for n in t.body:
                self._top(rel, n)

    def _top(self, rel, n):
        if isinstance(n, ast.ClassDef):
            self.classes.setdefault(n.name, []).append(ClassInfo(rel, n))
        elif isinstance(n, ast.FunctionDef):
            self.functions[(rel, n.name)] = n
        elif isinstance(n, (ast.If, ast.Try)):
            for c in ast.iter_child_nodes(n):
                if isinstance(c, ast.stmt):
                    self._top(rel, c)

    # ------------------------------------------------------------------
    def cls(self, name, rel=None, required=True):
        cands = self.classes.get(name, [])
        if rel is not None:
            for c in cands:
                if c.rel == rel:
                    return c
        if cands and rel is None:
            return cands[0]
        if cands and not required:
            return cands[0]
        if required:
            raise AnalysisError('class %s not found%s' % (name, ' in ' + rel if rel else ''))
        return None

    def func(self, rel, name, required=True):
        f = self.functions.get((rel, name))
        if f is None and required:
            raise AnalysisError('function %s not found in %s' % (name, rel))
        return f

    def method(self, cname, mname, rel=None, required=True):
        c = self.cls(cname, rel, required)
        if c is None:
            return None
        m = self.lookup(c, mname)
        if m is None and required:
            raise AnalysisError('method %s.%s not found' % (cname, mname))
        return m

    def mro(self, c, seen=None):
        seen = seen or set()
        out = [c]
        seen.add((c.rel, c.name))
        for b in c.bases:
            cands = self.classes.get(b, [])
            pick = None
            for k in cands:
                if k.rel == c.rel:
                    pick = k
            if pick is None and cands:
                pick = cands[0]
            if pick is not None and (pick.rel, pick.name) not in seen:
                out += self.mro(pick, seen)
        return out

    def lookup(self, c, mname):
        for k in self.mro(c):
            if mname in k.methods:
                return k.methods[mname]
        return None

    # calls the rules want to see as calls (never inlined)
    # = the private functions of the tree the rules were confirmed on (frozen list); helpers introduced later are read through
    KEEP = tuple(__import__('json').load(open(__import__('os').path.join(__import__('os').path.dirname(__file__), 'data', 'private_names.json'))))

    def lookup_inl(self, c, mname, keep=None, force=()):
        """like lookup(), with private helper calls inlined (hv/inline.py) so that rules read through helper extraction"""
        from .inline import inline_function
        fn = self.lookup(c, mname)
        if fn is None:
            return None
        key = (c.rel, c.name, mname, tuple(keep if keep is not None else self.KEEP), tuple(force))
        cache = self.__dict__.setdefault('_inl_cache', {})
        if key not in cache:
            cache[key] = inline_function(self, self.owner(c, mname), fn, keep=keep if keep is not None else self.KEEP, force=force)
        return cache[key]

    def owner(self, c, mname):
        for k in self.mro(c):
            if mname in k.methods:
                return k
        return None

    def is_subclass(self, c, basename):
        return any(k.name == basename for k in self.mro(c)) or basename in self._base_names(c)

    def _base_names(self, c):
        out = set()
        for k in self.mro(c):
            out.update(k.bases)
        return out

    def is_logic(self, c):
        return c.name == 'Logic' or 'Logic' in self._base_names(c) or 'HWSystem' in self._base_names(c)

    def logic_classes(self):
        out = []
        for lst in self.classes.values():
            for c in lst:
                if self.is_logic(c):
                    out.append(c)
        return sorted(out, key=lambda c: (c.rel, c.name))

    # ------------------------------------------------------------------
    def ports(self, c):
        """attr -> (direction, portname|None, is_list)  read from __init__.

        Recognised idioms (DESIGN M2): self.a = self.addIn('a', a); a rebound
        local later stored in self; list attributes filled by append in a loop;
        element-wise rebinding self.x[i] = self.addIn(...); interface fields.
        Also returns, under key '$all', every (direction, name-expr) call.
        """
        init = self.lookup(c, '__init__')
        P = {}
        allp = []
        if init is None:
            return P, allp
        local_dir = {}
        list_local = {}

        def unwrap(v):
            # `None if w is None else self.addIn(..)`: an optional port
            while isinstance(v, ast.IfExp):
                a, b = v.body, v.orelse
                v = b if (isinstance(a, ast.Constant) and a.value is None) else a if (isinstance(b, ast.Constant) and b.value is None) else None
                if v is None:
                    return None
            return v

        def call_dir(v):
            v = unwrap(v)
            if (isinstance(v, ast.Call) and isinstance(v.func, ast.Attribute)
                    and v.func.attr in PORT_ADDERS
                    and isinstance(v.func.value, ast.Name) and v.func.value.id == 'self'):
                return PORT_ADDERS[v.func.attr]
            return None

        def pname(v):
            v = unwrap(v)
            if v.args and isinstance(v.args[0], ast.Constant):
                return v.args[0].value
            return None

        for n in ast.walk(init):
            if isinstance(n, ast.Call) and call_dir(n):
                allp.append((call_dir(n), pname(n), norm(n.args[0]) if n.args else '?'))
        # locals bound to a port first (in any nesting depth: a helper inlined by hv/inline.py leaves `tmp = self.addIn(..)` under an `if`)
        for n in ast.walk(init):
            if isinstance(n, ast.Assign) and len(n.targets) == 1 and isinstance(n.targets[0], ast.Name) and call_dir(n.value):
                local_dir[n.targets[0].id] = (call_dir(n.value), pname(n.value), False)
        for n in ast.walk(init):
            if isinstance(n, ast.Assign) and len(n.targets) == 1:
                t = n.targets[0]
                d = call_dir(n.value)
                if isinstance(t, ast.Attribute) and isinstance(t.value, ast.Name) and t.value.id == 'self':
                    if d:
                        P[t.attr] = (d, pname(n.value), False)
                    elif isinstance(n.value, ast.Name) and n.value.id in local_dir:
                        P[t.attr] = local_dir[n.value.id]
                    elif isinstance(n.value, ast.Name) and n.value.id in list_local:
                        P[t.attr] = list_local[n.value.id]
                    elif (isinstance(n.value, ast.Call) and isinstance(n.value.func, ast.Attribute)
                          and n.value.func.attr in ('addInterfaceSource', 'addInterfaceSink')):
                        P[t.attr] = ('iface-' + n.value.func.attr[12:].lower(), None, False)
                elif isinstance(t, ast.Name) and d:
                    local_dir[t.id] = (d, pname(n.value), False)
                elif (isinstance(t, ast.Subscript) and isinstance(t.value, ast.Attribute)
                      and isinstance(t.value.value, ast.Name) and t.value.value.id == 'self' and d):
                    P[t.value.attr] = (d, None, True)
            if (isinstance(n, ast.Call) and isinstance(n.func, ast.Attribute)
                    and n.func.attr == 'append' and n.args):
                d = call_dir(n.args[0])
                rv = n.func.value
                if d and isinstance(rv, ast.Attribute) and isinstance(rv.value, ast.Name) and rv.value.id == 'self':
                    P[rv.attr] = (d, None, True)
                if d and isinstance(rv, ast.Name):
                    list_local[rv.id] = (d, None, True)
        # second pass: self.x = <local list> assigned before/after the loop
        for n in ast.walk(init):
            if (isinstance(n, ast.Assign) and len(n.targets) == 1
                    and isinstance(n.targets[0], ast.Attribute)
                    and isinstance(n.targets[0].value, ast.Name) and n.targets[0].value.id == 'self'
                    and isinstance(n.value, ast.Name)):
                if n.value.id in list_local and n.targets[0].attr not in P:
                    P[n.targets[0].attr] = list_local[n.value.id]
                if n.value.id in local_dir and n.targets[0].attr not in P:
                    P[n.targets[0].attr] = local_dir[n.value.id]
        return P, allp

    def self_attrs_assigned(self, c):
        """every attribute name some method of the class (or a base) stores on self"""
        out = set()
        for k in self.mro(c):
            for m in k.methods.values():
                for n in ast.walk(m):
                    tg = []
                    if isinstance(n, ast.Assign):
                        tg = n.targets
                    elif isinstance(n, (ast.AugAssign, ast.AnnAssign)):
                        tg = [n.target]
                    for t in tg:
                        for x in ast.walk(t):
                            if (isinstance(x, ast.Attribute) and isinstance(x.value, ast.Name)
                                    and x.value.id == 'self' and isinstance(x.ctx, ast.Store)):
                                out.add(x.attr)
            # class-level attributes
            for s in k.node.body:
                if isinstance(s, ast.Assign):
                    for t in s.targets:
                        if isinstance(t, ast.Name):
                            out.add(t.id)
            out.update(k.methods.keys())
        return out


def is_self_attr(e, attr=None):
    return (isinstance(e, ast.Attribute) and isinstance(e.value, ast.Name)
            and e.value.id == 'self' and (attr is None or e.attr == attr))


def strip_doc(body):
    if body and isinstance(body[0], ast.Expr) and isinstance(body[0].value, ast.Constant) \
            and isinstance(body[0].value.value, str):
        return body[1:]
    return body


def calls_in(node):
    return [n for n in ast.walk(node) if isinstance(n, ast.Call)]


def call_name(c):
    f = c.func
    if isinstance(f, ast.Name):
        return f.id
    if isinstance(f, ast.Attribute):
        return f.attr
    return None


def iter_functions(facts):
    """yield (rel, ClassInfo|None, FunctionDef) for every function/method, nested ones included
    (nested functions are reported with the class of their enclosing method)"""
    for rel in facts.rels:
        t = facts.sm.try_tree(rel)
        if t is None:
            continue
        cls_of = {}
        for lst in facts.classes.values():
            for c in lst:
                if c.rel == rel:
                    cls_of[id(c.node)] = c

        def walk(node, cur):
            for ch in ast.iter_child_nodes(node):
                if isinstance(ch, ast.ClassDef):
                    yield from walk(ch, cls_of.get(id(ch), ClassInfo(rel, ch)))
                elif isinstance(ch, (ast.FunctionDef, ast.AsyncFunctionDef)):
                    yield (rel, cur, ch)
                    yield from walk(ch, cur)
                else:
                    yield from walk(ch, cur)
        yield from walk(t, None)
