"""Verdict collection, known findings, evidence and replay files."""
import json
import os
import re
import time

VERIF = os.path.dirname(os.path.dirname(os.path.abspath(__file__)))
OUT = os.environ.get('VERIF_OUT') or VERIF     # scratch runs (seeded changes in parallel) redirect evidence/replay
KNOWN = os.path.join(VERIF, 'known_findings.json')


def slug(s):
    return re.sub(r'[^A-Za-z0-9_.-]+', '_', str(s))[:120]


class Ctx:
    def __init__(self, pid, tier, repo, seed=0):
        self.pid = pid
        self.tier = tier
        self.repo = repo
        self.seed = seed
        self.t0 = time.time()
        self.passes = []        # (rule, key, detail, grade)
        self.violations = []    # dict
        self.errors = []        # analysis errors (exit 2)
        self.samples = []
        self.notes = []
        self.analysed = {}
        self.not_decided = []
        self.assumptions = []
        self.excluded = []
        self.floors = {}
        self.rules = {}         # rule id -> description
        self.selfval = None

    # -- recording ------------------------------------------------------
    def rule(self, rid, text):
        self.rules[rid] = text

    def ok(self, rule, key, detail='', grade='pass', nontrivial=True):
        self.passes.append((rule, str(key), detail, grade, nontrivial))

    def violation(self, rule, key, what, where='', witness=None, facts=None):
        self.violations.append(dict(rule=rule, key=str(key), what=what, where=where,
                                    witness=witness, facts=facts))

    def error(self, rule, msg):
        self.errors.append('%s: %s' % (rule, msg))

    def sample(self, obj):
        if len(self.samples) < 12:
            self.samples.append(obj)

    def note(self, s):
        self.notes.append(s)

    def floor(self, rule, what, count, minimum):
        self.floors['%s:%s' % (rule, what)] = dict(count=count, floor=minimum)
        if count < minimum:
            self.error(rule, 'instance census for %s is %d, below the hand-confirmed floor %d '
                             '(rule would pass vacuously)' % (what, count, minimum))

    def defer_shape(self, shape_rules, scenario_rule, v_from=0, e_from=0, keep=lambda v: False):
        """A shape rule reads one idiom; a bounded scenario clause evaluates the same behaviour on whatever the code looks
        like.  When the scenario clause was evaluated and holds, a shape clause that is not satisfied (or not evaluable)
        is recorded as an idiom the rule does not read - not as a violation: a behaviour-preserving rewrite must not
        raise an alarm.  When the scenario clause fails or could not be evaluated, the shape verdicts stand."""
        evaluated = any(r == scenario_rule and g == 'bounded' for r, _, _, g, _ in self.passes)
        listed = set()
        if os.path.exists(KNOWN):
            with open(KNOWN) as fh:
                listed = {(k['rule'], k['key']) for k in json.load(fh).get('findings', []) if k.get('property') == self.pid and k.get('status') == 'known'}
        failed = any(v['rule'] == scenario_rule and (v['rule'], v['key']) not in listed for v in self.violations) or any(e.startswith(scenario_rule) for e in self.errors)
        if not evaluated or failed:
            return False
        kept = []
        for i, v in enumerate(self.violations):
            if i >= v_from and v['rule'] in shape_rules and not keep(v):
                self.passes.append((v['rule'], v['key'], 'shape clause not satisfied by the code as written (%s); the scenario clause %s holds on every enumerated case: '
                                    'recorded as an idiom this rule does not read' % (v['what'][:140], scenario_rule), 'idiom', True))
                self.notes.append('%s %s deferred to %s' % (v['rule'], v['key'], scenario_rule))
            else:
                kept.append(v)
        self.violations[:] = kept
        kept_e = []
        for i, e in enumerate(self.errors):
            if i >= e_from and any(e.startswith(r) for r in shape_rules):
                self.passes.append((e.split(':')[0], 'not-evaluable', 'shape clause not evaluable (%s); decided by the scenario clause %s' % (e[:140], scenario_rule), 'refused', True))
            else:
                kept_e.append(e)
        self.errors[:] = kept_e
        return True

    def control(self, rule, fired, what):
        """planted positive control for zero-expected rules"""
        self.analysed.setdefault('positive_controls', []).append(
            dict(rule=rule, control=what, detected=bool(fired)))
        if not fired:
            self.error(rule, 'positive control not detected: %s' % what)

    # -- finishing ------------------------------------------------------
    def finish(self, level_text):
        known = []
        if os.path.exists(KNOWN):
            with open(KNOWN) as fh:
                known = json.load(fh).get('findings', [])
        kmap = {}
        for k in known:
            if k.get('property') == self.pid and k.get('status') == 'known':
                kmap[(k['rule'], k['key'])] = k
        out_lines = []
        new_viol = []
        known_hit = []
        seen = set()
        for v in self.violations:
            kk = (v['rule'], v['key'])
            if kk in seen:
                continue
            seen.add(kk)
            if kk in kmap:
                known_hit.append(v)
                out_lines.append('KNOWN-FINDING: property=%s %s [%s %s] %s' % (
                    self.pid, kmap[kk].get('what_fails', v['what']), v['rule'], v['key'], v['where']))
            else:
                new_viol.append(v)
        rdir = os.path.join(OUT, 'replay', self.pid)
        for v in new_viol:
            os.makedirs(rdir, exist_ok=True)
            path = os.path.join(rdir, '%s-%s.json' % (slug(v['rule']), slug(v['key'])))
            with open(path, 'w') as fh:
                json.dump(dict(property=self.pid, tier=self.tier, repo=self.repo, **v), fh,
                          indent=1, default=str)
            out_lines.append('  rule %s instance %s at %s: %s%s' % (
                v['rule'], v['key'], v['where'], v['what'],
                (' | witness: %s' % json.dumps(v['witness'], default=str)) if v['witness'] else ''))
            out_lines.append('VIOLATION property=%s replay=%s' % (self.pid, path))
        for e in self.errors:
            out_lines.append('ANALYSIS-ERROR property=%s %s' % (self.pid, e))
        # evidence
        distinct = len({(r, k) for r, k, _, _, nt in self.passes if nt}
                       | {(v['rule'], v['key']) for v in self.violations})
        evaluations = len(self.passes) + len(self.violations)
        grades = {}
        for _, _, _, g, _ in self.passes:
            grades[g] = grades.get(g, 0) + 1
        ev = {
            'property_id': self.pid,
            'tier': self.tier,
            'seed': self.seed,
            'level': 'other',
            'coverage': {
                'explanation': level_text + ' Rules applied: ' + '; '.join(
                    '%s = %s' % (k, v) for k, v in sorted(self.rules.items())),
                'evaluations': evaluations,
                'distinct_nontrivial': distinct,
                'rule': 'one evaluation per rule instance (rule id, construct key); an instance is '
                        'non-trivial when its obligation involved at least one fact extracted from '
                        'the current source (census-only and control entries are not counted)',
                'obligations': evaluations,
                'discharged': len(self.passes) + len(known_hit),
                'pass_grades': grades,
                'samples': self.samples or [dict(rule=r, key=k, detail=d) for r, k, d, _, _ in self.passes[:5]],
                'analysed': self.analysed,
                'floors': self.floors,
                'excluded': self.excluded,
                'not_decided': self.not_decided,
                'known_findings_reported': [dict(rule=v['rule'], key=v['key']) for v in known_hit],
                'new_violations': [dict(rule=v['rule'], key=v['key'], what=v['what']) for v in new_viol],
                'analysis_errors': self.errors,
                'notes': self.notes,
                'self_validation': self.selfval,
                'exhaustive': False,
            },
            'assumptions': self.assumptions,
            'wall_s': round(time.time() - self.t0, 3),
            'violations': len(new_viol),
        }
        os.makedirs(os.path.join(OUT, 'evidence'), exist_ok=True)
        with open(os.path.join(OUT, 'evidence', self.pid + '.json'), 'w') as fh:
            json.dump(ev, fh, indent=1, default=str)
        for l in out_lines:
            print(l)
        print('%s %s: %d instances evaluated (%d distinct non-trivial), %d pass, %d known, '
              '%d new violations, %d analysis errors, %.2fs' % (
                  self.pid, self.tier, evaluations, distinct, len(self.passes), len(known_hit),
                  len(new_viol), len(self.errors), time.time() - self.t0))
        if new_viol:
            return 1
        if self.errors:
            return 2
        return 0
