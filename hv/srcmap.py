"""M0: source map of the repository under analysis.

The source map is an object (relative path -> text).  All rules read source
through it, so self-validation and positive controls can overlay mutated text
without touching the disk.  Nothing under the repository is imported or run.
"""
import ast
import hashlib
import os

PKG = 'py4hw'


class AnalysisError(Exception):
    """The code no longer has a shape the analysis can evaluate (exit 2)."""


class SourceMap:
    def __init__(self, root='/repo', overlay=None):
        self.root = root
        self.files = {}
        self._m2r = None
        self._trees = {}
        self.unparsable = {}
        base = os.path.join(root, PKG)
        if not os.path.isdir(base):
            raise AnalysisError('package directory %s not found' % base)
        for d, _, fs in os.walk(base):
            for f in sorted(fs):
                if f.endswith('.py'):
                    p = os.path.join(d, f)
                    rel = os.path.relpath(p, root)
                    with open(p, encoding='utf-8', errors='replace') as fh:
                        self.files[rel] = fh.read()
        if overlay:
            for k, v in overlay.items():
                self.files[k] = v

    def with_overlay(self, overlay):
        sm = SourceMap.__new__(SourceMap)
        sm.root = self.root
        sm.files = dict(self.files)
        sm.files.update(overlay)
        sm._trees = {k: v for k, v in self._trees.items() if k not in overlay}
        sm._m2r = None
        sm.unparsable = dict(self.unparsable)
        return sm

    def text(self, rel):
        if rel not in self.files:
            raise AnalysisError('anchor file %s not found' % rel)
        return self.files[rel]

    def has(self, rel):
        return rel in self.files

    def tree(self, rel):
        if rel in self._trees:
            return self._trees[rel]
        try:
            t = ast.parse(self.text(rel), filename=rel)
        except SyntaxError as e:
            self.unparsable[rel] = str(e)
            raise AnalysisError('%s does not parse: %s' % (rel, e))
        for n in ast.walk(t):
            for c in ast.iter_child_nodes(n):
                c._parent = n
        self._trees[rel] = t
        return t

    def try_tree(self, rel):
        try:
            return self.tree(rel)
        except AnalysisError:
            return None

    def digest(self, rels=None):
        h = hashlib.sha256()
        for r in sorted(rels or self.files):
            h.update(r.encode())
            h.update(self.files.get(r, '').encode())
        return h.hexdigest()[:16]

    # ---- import closure -------------------------------------------------
    @staticmethod
    def modname(rel):
        m = rel[:-3].replace(os.sep, '.')
        if m.endswith('.__init__'):
            m = m[:-9]
        return m

    def mod2rel(self):
        if getattr(self, '_m2r', None) is None or len(self._m2r) != len(self.files):
            self._m2r = {self.modname(r): r for r in self.files}
        return self._m2r

    def resolve_import(self, rel, level, module):
        cur = self.modname(rel).split('.')
        is_pkg = rel.endswith('__init__.py')
        if level:
            base = cur if is_pkg else cur[:-1]
            base = base[:len(base) - (level - 1)]
            return '.'.join(base + ([module] if module else []))
        return module

    def imports_of(self, rel):
        """modules (dotted, inside the package) imported anywhere in rel"""
        t = self.try_tree(rel)
        out = []
        if t is None:
            return out
        m2r = self.mod2rel()
        for n in ast.walk(t):
            if isinstance(n, ast.ImportFrom):
                tgt = self.resolve_import(rel, n.level, n.module)
                if tgt and tgt.startswith(PKG):
                    out.append(tgt)
                    for a in n.names:
                        sub = tgt + '.' + a.name
                        if sub in m2r:
                            out.append(sub)
            elif isinstance(n, ast.Import):
                for a in n.names:
                    if a.name.startswith(PKG):
                        out.append(a.name)
        return out

    def closure(self, start=PKG + '/__init__.py'):
        m2r = self.mod2rel()
        seen = []
        todo = [start]
        while todo:
            r = todo.pop()
            if r in seen or r not in self.files:
                continue
            seen.append(r)
            for m in self.imports_of(r):
                # importing a.b.c imports packages a, a.b too
                parts = m.split('.')
                for i in range(1, len(parts) + 1):
                    mm = '.'.join(parts[:i])
                    if mm in m2r:
                        todo.append(m2r[mm])
        return sorted(seen)


def parent(node):
    return getattr(node, '_parent', None)


def enclosing(node, kinds):
    n = parent(node)
    while n is not None and not isinstance(n, kinds):
        n = parent(n)
    return n


def norm(node):
    """normalised text of a piece of syntax (keys never use line numbers)"""
    try:
        return ast.unparse(node)
    except Exception:
        return type(node).__name__
