"""M4: resolved call closure (class-hierarchy based, by name)."""
import ast

from .facts import is_self_attr

COMMON = {'get', 'put', 'append', 'format', 'keys', 'values', 'items', 'join', 'split', 'index',
          'pop', 'remove', 'insert', 'extend', 'copy', 'reverse', 'sort', 'update', 'clear',
          'startswith', 'endswith', 'replace', 'strip', 'lower', 'upper', 'find', 'count', 'add',
          'write', 'read', 'close', 'visit', 'generic_visit'}


def module_funcs(facts, name):
    return [(None, f) for (rel, n), f in facts.functions.items() if n == name]


def resolve_call(facts, cinfo, fn, call, late_bound=False):
    """-> list of (ClassInfo|None, FunctionDef) possible callees inside the repository"""
    f = call.func
    out = []
    if isinstance(f, ast.Name):
        if f.id == 'next' and call.args and is_self_attr(call.args[0]) and cinfo is not None:
            # generator held in an attribute: self.co = self.run()
            attr = call.args[0].attr
            init = facts.lookup(cinfo, '__init__')
            for n in ast.walk(init) if init else []:
                if isinstance(n, ast.Assign) and any(is_self_attr(t, attr) for t in n.targets) \
                        and isinstance(n.value, ast.Call) and is_self_attr(n.value.func):
                    m = facts.lookup(cinfo, n.value.func.attr)
                    if m is not None:
                        out.append((cinfo, m))
            return out
        out += module_funcs(facts, f.id)
        for c in facts.classes.get(f.id, []):
            m = facts.lookup(c, '__init__')
            if m is not None:
                out.append((c, m))
        return out
    if isinstance(f, ast.Attribute):
        recv = f.value
        if isinstance(recv, ast.Name) and recv.id == 'self' and cinfo is not None:
            m = facts.lookup(cinfo, f.attr)
            if m is not None:
                out.append((facts.owner(cinfo, f.attr), m))
            # overriding subclasses
            for lst in facts.classes.values():
                for c in lst:
                    if c is not cinfo and f.attr in c.methods and any(k is cinfo for k in facts.mro(c)):
                        out.append((c, c.methods[f.attr]))
            return out
        if isinstance(recv, ast.Call) and isinstance(recv.func, ast.Name) and recv.func.id == 'super' and cinfo is not None:
            for k in facts.mro(cinfo)[1:]:
                if f.attr in k.methods:
                    out.append((k, k.methods[f.attr]))
                    break
            return out
        if isinstance(recv, ast.Name) and recv.id in facts.classes:
            for c in facts.classes[recv.id]:
                m = facts.lookup(c, f.attr)
                if m is not None:
                    out.append((c, m))
            return out
        if isinstance(recv, ast.Attribute) and recv.attr in facts.classes and f.attr not in COMMON:
            for c in facts.classes[recv.attr]:
                m = facts.lookup(c, f.attr)
                if m is not None:
                    out.append((c, m))
            if out:
                return out
        if late_bound and f.attr not in COMMON:
            for lst in facts.classes.values():
                for c in lst:
                    if f.attr in c.methods:
                        out.append((c, c.methods[f.attr]))
            out += module_funcs(facts, f.attr) if False else []
    return out


def closure(facts, cinfo, fn, late_bound=False, limit=400, stop=None):
    """transitive closure of callees, as list of (ClassInfo|None, FunctionDef)"""
    seen = {}
    todo = [(cinfo, fn)]
    while todo and len(seen) < limit:
        c, f = todo.pop()
        if id(f) in seen:
            continue
        seen[id(f)] = (c, f)
        if stop is not None and stop(c, f):
            continue
        for n in ast.walk(f):
            if isinstance(n, ast.Call):
                for cc, ff in resolve_call(facts, c, f, n, late_bound):
                    if id(ff) not in seen:
                        todo.append((cc, ff))
    return list(seen.values())


def qual(c, f):
    return ((c.name + '.') if c is not None else '') + f.name
