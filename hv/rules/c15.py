"""C15 - waveform capture records what the wires carried, once per cycle.

C15.a  Waveform.__init__: per watch-list entry every non-raising path appends exactly one display
       format; a new key is appended to uniqueWires and given a fresh sample list together, under
       the guard `key not in uniqueWires`; ports are keyed by their wire;
C15.b  Waveform.clock: per element of uniqueWires every path appends exactly one sample to
       data[<that key>], obtained with get() of the same object; no early exit;
C15.c  clear(): every key keeps its own fresh list;
C15.d  get_wavedrom: the run-length state is reset per row; per sample exactly one wave character;
       a data label iff the multi-bit marker; last-value tracking every sample; clock row spans the
       same number of cycles;
C15.e  samples are pre-edge: the edge routine commits once, after every clock() ran (C05.b rules).
"""
import ast

from ..cfg import fn_paths, paths as cfg_paths
from ..dectab import single_defs
from ..srcmap import norm
from .c04 import calls_in_path
from .c05 import is_call_to, check_b as c05_check_b

LEVEL_TEXT = ('Static per-path counting rules over the recorder: one format per entry, one sample per key per cycle on every structured path, '
              'fresh list per key, run-length encoder shape; pre-edge sampling through the edge-routine ordering rules.')
REL = 'py4hw/logic/simulation.py'


def subscript_key(t):
    """self.data[K] -> text of K"""
    if isinstance(t, ast.Subscript) and norm(t.value) == 'self.data':
        return norm(t.slice)
    return None


def check_init(ctx, wf):
    init = wf.methods.get('__init__')
    where = '%s:Waveform.__init__' % REL
    loops = [n for n in init.body if isinstance(n, ast.For) and norm(n.iter) == 'self.wires']
    if len(loops) != 1 or not isinstance(loops[0].target, ast.Name):
        ctx.error('C15.a', 'loop over self.wires not found in Waveform.__init__')
        return
    lp = loops[0]
    x = lp.target.id
    ok = True
    npaths = 0
    for evs, ex in cfg_paths(lp.body):
        if ex == 'raise':
            continue
        npaths += 1
        if ex in ('break', 'return', 'continue'):
            ctx.violation('C15.a', 'entry-skipped', 'a watch-list entry can be skipped (%s) before its format is recorded' % ex, where)
            ok = False
            continue
        cs = calls_in_path(evs)
        fm = [c for c in cs if is_call_to(c, 'append') and norm(c.func.value) == 'self.format']
        if len(fm) != 1:
            ok = False
            ctx.violation('C15.a', 'one-format-per-entry', 'a path through the watch-list loop records %d display formats for one entry' % len(fm), where,
                          witness=dict(configuration='watch list with a duplicated or port entry', path=[repr(e) for e in evs if e.kind == 'branch'][:6]))
        alias = {}
        for e in evs:
            if e.kind == 'stmt' and isinstance(e.node, ast.Assign) and isinstance(e.node.targets[0], ast.Name):
                alias[e.node.targets[0].id] = norm(e.node.value)
        uq = [norm(c.args[0]) for c in cs if is_call_to(c, 'append') and norm(c.func.value) == 'self.uniqueWires' and c.args]
        di = []
        for e in evs:
            if e.kind == 'stmt' and isinstance(e.node, ast.Assign):
                for t in e.node.targets:
                    k = subscript_key(t)
                    if k is not None:
                        fresh = isinstance(e.node.value, ast.List) and not e.node.value.elts
                        di.append((k, fresh))
        if sorted(uq) != sorted(k for k, _ in di) or len(uq) > 1 or any(not f for _, f in di):
            ok = False
            ctx.violation('C15.a', 'key-registered-with-list', 'a key is appended to uniqueWires without (exactly) its own fresh sample list: unique=%s data=%s' % (uq, di), where,
                          witness=dict(configuration='watch list [w, w] or [port, wire-of-that-port]'))
            continue
        if uq:
            k = uq[0]
            guard = [norm(e.node) for e in evs if e.kind == 'branch' and 'self.uniqueWires' in norm(e.node) and e.val is True]
            good_guard = any(g.replace('(', '').replace(')', '').replace(' ', '') in ('not%sinself.uniqueWires' % k, '%snotinself.uniqueWires' % k) for g in guard)
            if not good_guard:
                ok = False
                ctx.violation('C15.a', 'guarded-registration', 'key `%s` is registered without the `not in uniqueWires` guard (a repeated entry resets or duplicates its samples)' % k, where,
                              witness=dict(configuration='watch list with the same wire twice'))
            # ports are keyed by their wire
            isport = any(e.kind == 'branch' and e.val is True and 'InPort' in norm(e.node) for e in evs)
            if isport and alias.get(k) != '%s.wire' % x:
                ok = False
                ctx.violation('C15.a', 'port-keyed-by-wire', 'a port entry is keyed by `%s`, not by its wire' % alias.get(k, k), where)
            iswire = any(e.kind == 'branch' and e.val is True and norm(e.node) == 'isinstance(%s, Wire)' % x for e in evs)
            if iswire and k != x and alias.get(k) != x:
                ok = False
                ctx.violation('C15.a', 'wire-keyed-by-itself', 'a wire entry is keyed by `%s`' % k, where)
    if ok:
        ctx.ok('C15.a', 'watch-list-registration', '%d paths: one format per entry; new keys get uniqueWires entry + fresh list under the membership guard; ports keyed by wire' % npaths)
    # getwire
    gw = wf.methods.get('getwire')
    if gw is not None:
        p = gw.args.args[0].arg
        rets = {}
        for evs, ex in fn_paths(gw):
            if ex != 'return':
                continue
            alias = {}
            for e in evs:
                if e.kind == 'stmt' and isinstance(e.node, ast.Assign) and isinstance(e.node.targets[0], ast.Name):
                    alias[e.node.targets[0].id] = norm(e.node.value)
            r = norm(evs[-1].node.value)
            r = alias.get(r, r)
            wirebr = any(e.kind == 'branch' and e.val is True and norm(e.node) == 'isinstance(%s, Wire)' % p for e in evs)
            rets['wire' if wirebr else 'port'] = r
        if rets.get('wire') == p and rets.get('port') == '%s.wire' % p:
            ctx.ok('C15.a', 'getwire', 'wire -> itself, port -> its wire')
        else:
            ctx.violation('C15.a', 'getwire', 'getwire does not map a wire to itself and a port to its wire: %s' % rets, '%s:Waveform.getwire' % REL)


def check_clock(ctx, wf):
    m = wf.methods.get('clock')
    where = '%s:Waveform.clock' % REL
    loops = [n for n in m.body if isinstance(n, ast.For)]
    if len(loops) != 1 or norm(loops[0].iter) != 'self.uniqueWires' or not isinstance(loops[0].target, ast.Name):
        ctx.violation('C15.b', 'sample-loop', 'clock() does not iterate exactly over self.uniqueWires', where, witness=dict(configuration='two watched wires'))
        return
    other = [s for s in m.body if s is not loops[0] and not (isinstance(s, ast.Expr) and isinstance(s.value, ast.Constant))]
    lp = loops[0]
    x = lp.target.id
    ok = True
    n = 0
    for evs, ex in cfg_paths(lp.body):
        if ex == 'raise':
            continue
        n += 1
        if ex in ('break', 'return', 'continue'):
            ok = False
            ctx.violation('C15.b', 'no-early-exit', 'the sampling loop can be left/skipped with `%s`: some watched keys get no sample this cycle' % ex, where,
                          witness=dict(configuration='two watched wires'))
            continue
        alias = {}
        for e in evs:
            if e.kind == 'stmt' and isinstance(e.node, ast.Assign) and isinstance(e.node.targets[0], ast.Name):
                alias[e.node.targets[0].id] = e.node.value
        apps = [c for c in calls_in_path(evs) if is_call_to(c, 'append') and isinstance(c.func.value, ast.Subscript) and norm(c.func.value.value) == 'self.data']
        if len(apps) != 1:
            ok = False
            ctx.violation('C15.b', 'one-sample-per-key', 'a path through the sampling loop appends %d samples for one key' % len(apps), where,
                          witness=dict(history='any cycle', path=[repr(e) for e in evs if e.kind == 'branch'][:4]))
            continue
        a = apps[0]
        key = norm(a.func.value.slice)
        val = a.args[0] if a.args else None
        # the value is <key>.get()
        good_val = isinstance(val, ast.Call) and isinstance(val.func, ast.Attribute) and val.func.attr == 'get' and not val.args and norm(val.func.value) == key
        # key is x itself, or getwire(x)
        kdef = alias.get(key)
        good_key = key == x or (kdef is not None and isinstance(kdef, ast.Call) and is_call_to(kdef, 'getwire') and [norm(z) for z in kdef.args] == [x])
        if not good_val or not good_key:
            ok = False
            ctx.violation('C15.b', 'sample-is-current-value', 'the sample appended to data[%s] is `%s`, not the value that key carries' % (key, norm(val) if val is not None else None), where,
                          witness=dict(history='two watched wires carrying different values'))
    if other:
        ctx.note('Waveform.clock has statements outside the sampling loop: %s' % [norm(s)[:40] for s in other])
    if ok:
        ctx.ok('C15.b', 'one-sample-per-key', '%d paths: exactly one data[key].append(key.get()) per watched key per cycle' % n)
        ctx.sample(dict(rule='C15.b', loop='for %s in self.uniqueWires' % x, paths=n))


def check_clear(ctx, wf):
    m = wf.methods.get('clear')
    where = '%s:Waveform.clear' % REL
    if m is None:
        ctx.error('C15.c', 'anchor Waveform.clear not found')
        return
    ok = False
    loops = [n for n in m.body if isinstance(n, ast.For)]
    if len(loops) == 1 and norm(loops[0].iter) in ('self.data.keys()', 'self.data', 'list(self.data.keys())', 'list(self.data)', 'self.uniqueWires') \
            and isinstance(loops[0].target, ast.Name):
        k = loops[0].target.id
        body = [s for s in loops[0].body]
        ok = len(body) == 1 and isinstance(body[0], ast.Assign) and [subscript_key(t) for t in body[0].targets] == [k] \
            and ((isinstance(body[0].value, ast.List) and not body[0].value.elts) or norm(body[0].value) == 'list()')
        # or in-place clear()
        if not ok and len(body) == 1 and isinstance(body[0], ast.Expr) and isinstance(body[0].value, ast.Call) and is_call_to(body[0].value, 'clear') \
                and norm(body[0].value.func.value) == 'self.data[%s]' % k:
            ok = True
    else:
        asg = [s for s in m.body if isinstance(s, ast.Assign) and any(norm(t) == 'self.data' for t in s.targets)]
        if len(asg) == 1 and isinstance(asg[0].value, ast.DictComp):
            dc = asg[0].value
            ok = isinstance(dc.value, ast.List) and not dc.value.elts and norm(dc.generators[0].iter) in ('self.data', 'self.data.keys()', 'self.uniqueWires') \
                and norm(dc.key) == norm(dc.generators[0].target)
    if ok:
        ctx.ok('C15.c', 'clear-fresh-lists', 'every key keeps its entry and gets its own empty list')
    else:
        ctx.violation('C15.c', 'clear-fresh-lists', 'clear() does not give every watched key its own fresh empty list (keys dropped or one list shared)', where,
                      witness=dict(history='clear(); clk(3) with two watched wires: each wire must hold 3 samples'))


def check_wavedrom(ctx, wf):
    m = wf.methods.get('get_wavedrom')
    where = '%s:Waveform.get_wavedrom' % REL
    if m is None:
        ctx.error('C15.d', 'anchor Waveform.get_wavedrom not found')
        return
    outer = [n for n in m.body if isinstance(n, ast.For) and 'self.wires' in norm(n.iter)]
    if len(outer) != 1:
        ctx.error('C15.d', 'row loop over self.wires not found')
        return
    ol = outer[0]
    inner = [n for n in ol.body if isinstance(n, ast.For)]
    if len(inner) != 1 or not isinstance(inner[0].target, ast.Name):
        ctx.error('C15.d', 'sample loop not found inside the row loop')
        return
    il = inner[0]
    # which names hold the wave string / labels: taken from the dict appended to the signal list
    wave = labels = None
    for x in ast.walk(ol):
        if isinstance(x, ast.Dict):
            for k, v in zip(x.keys, x.values):
                if isinstance(k, ast.Constant) and k.value == 'wave' and isinstance(v, ast.Name):
                    wave = v.id
                if isinstance(k, ast.Constant) and k.value == 'data' and isinstance(v, ast.Name):
                    labels = v.id
    if wave is None or labels is None:
        ctx.error('C15.d', 'row dictionary with wave/data entries not recognised')
        return
    al = single_defs(list(il.body))
    # the sample variable and the last-value variable
    tests = [n for n in ast.walk(il) if isinstance(n, ast.Compare) and isinstance(n.ops[0], (ast.NotEq, ast.Eq)) and isinstance(n.left, ast.Name)
             and isinstance(n.comparators[0], ast.Name)]
    if not tests:
        ctx.error('C15.d', 'run-length comparison not recognised')
        return
    n1, n2 = tests[0].left.id, tests[0].comparators[0].id
    # `last` is the one that is (re)assigned from the other at the end of every iteration: last = v
    v, last = n1, n2
    for x in ast.walk(il):
        if isinstance(x, ast.Assign) and len(x.targets) == 1 and isinstance(x.targets[0], ast.Name) and isinstance(x.value, ast.Name):
            if (x.targets[0].id, x.value.id) == (n1, n2):
                v, last = n2, n1
            elif (x.targets[0].id, x.value.id) == (n2, n1):
                v, last = n1, n2
    ok = True
    # last reset per row before the inner loop
    pre = ol.body[:ol.body.index(il)]
    if not any(isinstance(s, ast.Assign) and any(isinstance(t, ast.Name) and t.id == last for t in s.targets) for s in pre):
        ok = False
        ctx.violation('C15.d', 'run-length-state-per-row', 'the run-length state `%s` is not reset at the start of every row: a row whose first sample equals the previous row\'s last sample loses it' % last,
                      where, witness=dict(history='two watched wires, second starts with the value the first ended with'))
    for nm in (wave, labels):
        if not any(isinstance(s, ast.Assign) and any(isinstance(t, ast.Name) and t.id == nm for t in s.targets) for s in pre):
            ok = False
            ctx.violation('C15.d', 'row-state-per-row:%s' % nm, '`%s` is not re-initialised for every row' % nm, where)
    # trip count = number of samples of this row
    itx = norm(il.iter).replace(' ', '')
    rowdefs = single_defs(pre)
    cnt_ok = False
    if itx.startswith('range(') and itx.endswith(')'):
        arg = itx[6:-1]
        d = rowdefs.get(arg)
        if d is not None and norm(d).startswith('len('):
            inner_arg = norm(d)[4:-1]
            dd = rowdefs.get(inner_arg)
            cnt_ok = (dd is not None and norm(dd).startswith('self.data[')) or inner_arg.startswith('self.data[')
        if arg.startswith('len('):
            cnt_ok = True
    if not cnt_ok and isinstance(il.iter, ast.Name):
        dd = rowdefs.get(il.iter.id)
        cnt_ok = dd is not None and norm(dd).startswith('self.data[')
    if not cnt_ok and norm(il.iter).startswith('self.data['):
        cnt_ok = True
    if not cnt_ok:
        ok = False
        ctx.violation('C15.d', 'row-spans-all-samples', 'the sample loop `for %s in %s` does not run once per recorded sample of the row' % (norm(il.target), norm(il.iter)), where,
                      witness=dict(history='3 recorded cycles'))
    n = 0
    for evs, ex in cfg_paths(il.body):
        if ex == 'raise':
            continue
        n += 1
        if ex in ('break', 'return', 'continue'):
            ok = False
            ctx.violation('C15.d', 'no-early-exit', 'the sample loop can be left/skipped with `%s`' % ex, where)
            continue
        waves = [e.node for e in evs if e.kind == 'stmt' and isinstance(e.node, ast.AugAssign) and isinstance(e.node.target, ast.Name) and e.node.target.id == wave]
        labs = [c for c in calls_in_path(evs) if is_call_to(c, 'append') and norm(c.func.value) == labels]
        upd = [e.node for e in evs if e.kind == 'stmt' and isinstance(e.node, ast.Assign) and any(isinstance(t, ast.Name) and t.id == last for t in e.node.targets)
               and norm(e.node.value) == v]
        if len(waves) != 1:
            ok = False
            ctx.violation('C15.d', 'one-char-per-sample', 'a path emits %d wave characters for one sample' % len(waves), where, witness=dict(history='any'))
            continue
        if not upd:
            ok = False
            ctx.violation('C15.d', 'last-value-tracked', 'a path does not record the sample as the new run-length reference', where,
                          witness=dict(history='value sequence a, b, a'))
        wv = waves[0].value
        dot = isinstance(wv, ast.Constant) and wv.value == '.'
        shows_value = any(isinstance(z, ast.Name) and z.id == v for z in ast.walk(wv))
        changed = any(e.kind == 'branch' and (norm(e.node).replace('(', '').replace(')', '') in ('%s != %s' % (v, last), '%s != %s' % (last, v)) and e.val is True
                                            or norm(e.node).replace('(', '').replace(')', '') in ('%s == %s' % (v, last), '%s == %s' % (last, v)) and e.val is False)
                      for e in evs)
        if dot and changed or (not dot and not changed):
            ok = False
            ctx.violation('C15.d', 'dot-iff-repeat', 'the run-length dot is not emitted exactly for a repeated value', where, witness=dict(history='value sequence a, a, b'))
        marker = (not dot) and (not shows_value)
        if marker != (len(labs) == 1) or len(labs) > 1:
            ok = False
            ctx.violation('C15.d', 'label-iff-marker', 'data labels and multi-bit markers are not emitted together (marker=%s, labels=%d)' % (marker, len(labs)), where,
                          witness=dict(history='multi-bit wire changing value'))
        for lb in labs:
            if not any(isinstance(z, ast.Name) and z.id == v for z in ast.walk(lb)):
                ok = False
                ctx.violation('C15.d', 'label-shows-sample', 'the data label does not render the sample', where)
    # clock row
    tail = m.body[m.body.index(ol) + 1:]
    clk_loops = [s for s in tail if isinstance(s, ast.For)]
    txt = ' '.join(norm(s) for s in tail)
    lens = [k for k, d in rowdefs.items() if norm(d).startswith('len(')]
    mult = any(('* %s' % k) in txt or ('*%s' % k) in txt for k in lens + ['numclks'])
    if not (clk_loops and norm(clk_loops[0].iter).replace(' ', '') == itx) and not mult:
        ok = False
        ctx.violation('C15.d', 'clock-row-span', 'the clock row does not span the recorded number of cycles', where)
    if ok:
        ctx.ok('C15.d', 'wavedrom-encoder', '%d paths per sample: one character, dot iff repeat, label iff marker, reference updated; state reset per row' % n)


def check_f(ctx, facts, tier, seed):
    """C15.f: the recorder is bookkeeping over Python lists (no datapath), so it is evaluated by the abstract
    interpreter on elaborated systems: watch lists with direct wires, ports and repeats; wire values set by the
    analysis before every recorder.clock(); getDict() and the decoded get_wavedrom() must both give back exactly
    those sample sequences, also across clear(), for zero cycles, and for repeated drawing."""
    import random
    from ..elab import ElabError, ElabRaise, PyExc, ObjV
    from ..netlist import Design, NetError
    rnd = random.Random(seed + 1515)
    where = '%s:Waveform' % REL

    def decode(rows, fmts, ncycles):
        """rendered rows -> per-row sample list (or a string describing why it cannot be decoded)"""
        out = []
        lens = {len(r['wave']) for r in rows}
        if len(lens) != 1:
            return 'rows have different lengths %s' % sorted(lens)
        L = lens.pop()
        if L - 2 != ncycles:
            return 'the rendering spans %d cycles, the recording %d' % (L - 2, ncycles)
        if rows[0]['wave'] != 'P' + '.' * ncycles + 'x':
            return 'clock row is %r' % rows[0]['wave']
        for r, width in zip(rows[1:], fmts):
            wave = r['wave'][1:-1]
            labels = list(r.get('data', []))
            vals, last = [], None
            for ch in wave:
                if ch == '.':
                    if last is None:
                        return 'row %s starts with a repeat' % r['name']
                    vals.append(last)
                    continue
                if width == 1:
                    if ch not in '01':
                        return 'row %s: character %r for a 1-bit wire' % (r['name'], ch)
                    last = int(ch)
                else:
                    if ch != '2' or not labels:
                        return 'row %s: marker %r / missing label' % (r['name'], ch)
                    try:
                        last = int(labels.pop(0), 16)
                    except ValueError:
                        return 'row %s: label is not hexadecimal' % r['name']
                vals.append(last)
            if labels:
                return 'row %s: %d unused data labels' % (r['name'], len(labels))
            out.append(vals)
        return out

    def scenario(nwatch):
        D = Design(facts)
        el = D.el
        a, b, c = D.wire('a', 1), D.wire('b', 4), D.wire('c', 8)
        buf = D.make('Buf', 'buf', b, D.wire('b2', 4))
        pin, pout = buf.attrs['inPorts'][0], buf.attrs['outPorts'][0]
        d = D.wire('d', 64)
        # a second wire with the short name of a watched one, in another block of the hierarchy (wires are told apart by identity, not by name)
        sub = D.make('Logic', 'sub')
        a_sub = el.call(el.getattr_(sub, 'wire'), ['a', 4], {}, {})
        pool = [('a', a, a), ('b', b, b), ('c', c, c), ('port(b)', pin, b), ('port(b2)', pout, pout.attrs['wire']), ('a', a, a), ('b', b, b), ('d', d, d), ('sub.a', a_sub, a_sub)]
        watch = [rnd.choice(pool) for _ in range(nwatch)]
        if nwatch >= 2 and rnd.random() < 0.3:
            watch[:2] = [pool[0], pool[8]] if rnd.random() < 0.5 else [pool[8], pool[0]]
        wf = D.make('Waveform', 'wf', [x[1] for x in watch], rel=REL)
        wires = {id(w): w for _, _, w in pool}
        return D, el, wf, watch, list(wires.values())

    def meth(el, o, name, *args, **kw):
        el.steps = 0
        return el.call(el.getattr_(o, name), list(args), kw, {})

    nsc = 0
    bad = None
    for t in range(40 if tier == 'quick' else 300):
        try:
            D, el, wf, watch, wires = scenario(rnd.choice((1, 2, 3, 4, 5)))
            script = rnd.choice((['run', 'draw'], ['draw'], ['run', 'draw', 'clear', 'run', 'draw'], ['run', 'draw', 'run', 'draw', 'draw'],
                                 ['run', 'clear', 'draw'], ['run', 'draw', 'clear', 'draw', 'run', 'draw']))
            runlen = rnd.choice((1, 2, 3, 5, 8))          # the same length in every run of a script (stale renderings of equal length)
            expect = {w.oid: [] for w in wires}
            hist = []
            for op in script:
                hist.append(op)
                if op == 'run':
                    for _ in range(runlen):
                        for w in wires:
                            if rnd.random() < 0.6 or not expect[w.oid]:
                                w.attrs['value'] = rnd.randrange(1 << w.attrs['width'])
                                if w.attrs['width'] > 32 and rnd.random() < 0.8:      # neighbours around the top bit and small numbers: consecutive values that differ by one
                                    w.attrs['value'] = rnd.choice(((1 << 63) - 1, 1 << 63, (1 << 63) + 1, (1 << 64) - 1, (1 << 64) - 2, 0, 1))
                            expect[w.oid].append(w.attrs['value'])
                        meth(el, wf, 'clock')
                elif op == 'clear':
                    meth(el, wf, 'clear')
                    expect = {k: [] for k in expect}
                else:
                    n = len(next(iter(expect.values())))
                    dd = meth(el, wf, 'getDict')
                    for label, obj, w in watch:
                        got = dd.get(w) if hasattr(dd, 'get') else None
                        if got is None or list(got) != expect[w.oid]:
                            bad = dict(problem='getDict()[%s] is %s, the wire carried %s' % (label, got, expect[w.oid]), script=hist, watch=[x[0] for x in watch])
                            break
                    if bad:
                        break
                    r = meth(el, wf, 'get_wavedrom', rnd.choice((True, False)))
                    rows = r['signal']
                    if len(rows) != len(watch) + 1:
                        bad = dict(problem='%d rows for %d watched entries' % (len(rows) - 1, len(watch)), script=hist, watch=[x[0] for x in watch])
                        break
                    dec = decode(rows, [w.attrs['width'] for _, _, w in watch], n)
                    if isinstance(dec, str):
                        bad = dict(problem='the rendering does not decode: ' + dec, script=hist, watch=[x[0] for x in watch])
                        break
                    for (label, obj, w), vals in zip(watch, dec):
                        if vals != expect[w.oid]:
                            bad = dict(problem='row %s decodes to %s, the recording is %s' % (label, vals, expect[w.oid]), script=hist, watch=[x[0] for x in watch], run_length=runlen)
                            break
                    if bad:
                        break
            nsc += 1
            if bad:
                break
        except ElabRaise as e:
            bad = dict(problem='the recorder raises: %s' % e, script=hist, watch=[x[0] for x in watch])
            break
        except (ElabError, NetError, PyExc, KeyError, TypeError, AttributeError) as e:
            ctx.ok('C15.f', 'scenarios', 'the recorder code is outside the interpreted subset (%s: %s): decided by the shape rules only' % (type(e).__name__, str(e)[:80]), grade='refused')
            return None
    if bad:
        ctx.violation('C15.f', 'scenarios', 'recorder scenario: %s' % bad['problem'], where, witness=bad)
        return False
    # recorders driven through the simulator (a system of wires and recorders only: no datapath code is interpreted)
    try:
        nsim = 0
        for t in range(12 if tier == 'quick' else 80):
            D = Design(facts)
            el = D.el
            a, b = D.wire('a', 1), D.wire('b', 4)
            recs = []
            hist = []
            expect = []

            def attach(watch):
                wf = D.make('Waveform', 'wf%d' % len(recs), [dict(a=a, b=b)[x] for x in watch], rel=REL)
                recs.append((wf, watch, dict(a=[], b=[])))
                hist.append('attach recorder %d watching %s' % (len(recs) - 1, watch))
            if rnd.random() < 0.5:
                attach(rnd.choice((['a'], ['a', 'b'], ['b', 'b'])))
            sim = meth(el, D.sys, 'getSimulator')
            hist.append('getSimulator()')
            for step in range(rnd.choice((2, 3, 4))):
                if rnd.random() < 0.5:
                    attach(rnd.choice((['a'], ['a', 'b'], ['b'])))
                    sim = meth(el, D.sys, 'getSimulator')
                    hist.append('getSimulator()')
                a.attrs['value'] = rnd.randrange(2)
                b.attrs['value'] = rnd.randrange(16)
                k = rnd.choice((0, 1, 1, 2, 3))
                hist.append('a=%d b=%d clk(%d)' % (a.attrs['value'], b.attrs['value'], k))
                meth(el, sim, 'clk', k)
                for wf, watch, exp in recs:
                    exp['a'] += [a.attrs['value']] * k
                    exp['b'] += [b.attrs['value']] * k
            nsim += 1
            for i, (wf, watch, exp) in enumerate(recs):
                dd = meth(el, wf, 'getDict')
                for x in set(watch):
                    got = list(dd.get(dict(a=a, b=b)[x]) or [])
                    if got != exp[x]:
                        bad = dict(problem='recorder %d holds %s for wire %s, the wire carried %s in the cycles simulated since it was attached' % (i, got, x, exp[x]), history=hist)
                        break
                if bad:
                    break
            if bad:
                break
    except ElabRaise as e:
        bad = dict(problem='simulating a system of wires and recorders raises: %s' % e, history=hist)
    except (ElabError, NetError, PyExc, KeyError, TypeError, AttributeError) as e:
        ctx.ok('C15.f', 'through-simulator', 'the simulator entry code is outside the interpreted subset (%s: %s): decided by the shape rules only' % (type(e).__name__, str(e)[:80]), grade='refused')
        nsim = None
    if bad:
        ctx.violation('C15.f', 'through-simulator', 'recorder driven by the simulator: %s' % bad['problem'], '%s:Waveform / py4hw/simulation.py:Simulator.clk' % REL, witness=bad)
        return False
    if nsim is not None:
        ctx.ok('C15.f', 'through-simulator', '%d histories (recorders attached before / after the simulator exists, clk(k) for k in 0..3, values changed between calls): '
               'one pre-edge sample per simulated cycle since attachment' % nsim, grade='bounded')
    ctx.ok('C15.f', 'scenarios', '%d scenarios (watch lists of wires / ports / repeats; run, draw, clear interleavings incl. zero cycles and equal-length re-runs): '
           'getDict() and the decoded rendering equal the values the wires carried' % nsc, grade='bounded')
    return True


def run(ctx, sm, facts):
    ctx.rule('C15.a', 'watch-list registration: one format per entry; key + fresh list together under the membership guard; ports keyed by wire')
    ctx.rule('C15.b', 'one data[key].append(key.get()) per watched key per cycle on every path')
    ctx.rule('C15.c', 'clear() gives every key its own fresh list')
    ctx.rule('C15.d', 'wavedrom encoder shape (per-row state, one char per sample, label iff marker)')
    ctx.rule('C05.b', 'edge routine ordering (samples are pre-edge): see C05')
    wf = facts.cls('Waveform', REL)
    for mname in ('__init__', 'clock', 'get_wavedrom'):
        if mname not in wf.methods:
            ctx.error('C15', 'anchor Waveform.%s not found' % mname)
            return
    ctx.rule('C15.f', 'recorder scenarios evaluated on elaborated systems: getDict() and the decoded rendering equal the carried values')
    check_f(ctx, facts, ctx.tier, ctx.seed)
    nv, ne = len(ctx.violations), len(ctx.errors)
    check_init(ctx, wf)
    check_clock(ctx, wf)
    check_clear(ctx, wf)
    check_wavedrom(ctx, wf)
    ctx.defer_shape(('C15.a', 'C15.b', 'C15.c', 'C15.d'), 'C15.f', nv, ne)
    c05_check_b(ctx, facts)
    # Wire identity: keys of the sample table are wire objects
    for cn in ('Wire', 'BidirWire'):
        c = facts.cls(cn, 'py4hw/base.py')
        ident = [m for k in facts.mro(c) for m in ('__eq__', '__hash__') if m in k.methods]
        if ident:
            ctx.violation('C15.a', '%s-identity' % cn, '%s defines %s: the sample table is keyed by wire objects' % (cn, ident), 'py4hw/base.py:%s' % cn)
        else:
            ctx.ok('C15.a', '%s-identity' % cn, 'wires keep identity equality/hash')
    ctx.not_decided.append('decoding the rendering back to sample sequences for all histories (per-sample rules + bounded scenarios, not proved)')
