"""C11 - ill-formed netlists are rejected when they are built or checked.

C11.a  Wire.setSource: decision table - an existing source makes the call raise
       before any store, otherwise the source is stored; addSource delegates;
       no other code stores a non-None source into a wire; output ports of
       primitive leaves (propagatable or clockable) register as source exactly
       once, structural parents never;
C11.b  Logic.__init__: duplicate child name raises before the child table is
       touched; it is the only store into any children mapping;
C11.c  Logic.appendWire: duplicate wire name raises before the store; it is
       the only store into any _wires mapping; constructors and
       rename/reparent* register through it;
C11.d  debug.checkIntegrity: for both port lists a raise happens exactly when
       the wire has no source; all ports and all children are visited.
"""
import ast

from ..cfg import fn_paths, paths as cfg_paths
from ..dectab import feasible, single_defs, Unknown, Obj
from ..facts import iter_functions
from ..callgraph import qual
from ..srcmap import norm
from ..wiretype import WireTyper
from .c04 import calls_in_path
from .c05 import is_call_to, complete_iteration

LEVEL_TEXT = ('Static check-then-act rules: decision tables of the registration functions over their structured '
              'CFG paths, sole-writer census of the source / children / wire tables, decision table and exhaustiveness of the integrity check.')
BASE = 'py4hw/base.py'
DEBUG = 'py4hw/debug.py'


def stores_on(evs, pred):
    out = []
    for e in evs:
        if e.kind == 'stmt' and isinstance(e.node, (ast.Assign, ast.AugAssign)):
            tg = e.node.targets if isinstance(e.node, ast.Assign) else [e.node.target]
            for t in tg:
                if pred(t):
                    out.append(e.node)
    return out


def check_a(ctx, facts):
    w = facts.cls('Wire', BASE)
    ss = w.methods.get('setSource')
    where = '%s:Wire.setSource' % BASE
    if ss is None:
        ctx.error('C11.a', 'anchor Wire.setSource not found')
        return
    p = ss.args.args[1].arg
    A, B = Obj('block A'), Obj('block B')
    for name, val, want, par in (('wire already driven by another block', Obj('port'), 'raise', (A, B)),
                                 ('wire already driven by another port of the same block', Obj('port'), 'raise', (A, A)),
                                 ('wire undriven', None, 'store', (A, B))):
        try:
            atoms = {'self.source': val, 'self.getSource()': val, '%s.parent' % p: par[1], '%s' % p: Obj('new port')}
            if val is not None:
                atoms['self.source.parent'] = par[0]
                atoms['self.getSource().parent'] = par[0]
            fs = feasible(fn_paths(ss), atoms, single_defs(ss))
        except Unknown as e:
            ctx.error('C11.a', 'setSource guard not evaluable: %s' % e)
            return
        for evs, ex in fs:
            st = stores_on(evs, lambda t: norm(t) == 'self.source')
            key = 'setSource:%s' % name
            if want == 'raise':
                if ex == 'raise' and not st:
                    ctx.ok('C11.a', key, 'raises, earlier driver untouched')
                else:
                    ctx.violation('C11.a', key, 'connecting a second driver %s' % ('overwrites the earlier source' if st else 'is accepted silently (exit %s)' % ex),
                                  where, witness=dict(sequence='Buf(sys,"b1",a,r); Buf(sys,"b2",c,r)'))
            else:
                good = [s for s in st if isinstance(s, ast.Assign) and norm(s.value) == p]
                if ex != 'raise' and len(good) == 1 and len(st) == 1:
                    ctx.ok('C11.a', key, 'stores the new source')
                else:
                    ctx.violation('C11.a', key, 'the first driver of a wire is not recorded (exit %s, stores %s)' % (ex, [norm(s) for s in st]), where,
                                  witness=dict(sequence='Buf(sys,"b1",a,r); checkIntegrity(sys)'))
    ads = w.methods.get('addSource')
    if ads is not None:
        pa = ads.args.args[1].arg
        ok = True
        for evs, ex in fn_paths(ads):
            cs = [c for c in calls_in_path(evs) if is_call_to(c, 'setSource') and norm(c.func.value) == 'self' and [norm(a) for a in c.args] == [pa]]
            st = stores_on(evs, lambda t: norm(t) == 'self.source')
            if ex != 'raise' and (len(cs) != 1 or st):
                ok = False
        if ok:
            ctx.ok('C11.a', 'addSource-delegates', 'addSource(source) = setSource(source)')
        else:
            ctx.violation('C11.a', 'addSource-delegates', 'Wire.addSource does not go through the checked setSource on every path', '%s:Wire.addSource' % BASE,
                          witness=dict(sequence='two primitive blocks driving the same wire'))
    # other stores to a wire's source
    bad = []
    n = 0
    for rel, c, fn in iter_functions(facts):
        if c is not None and c.name == 'Wire' and fn.name in ('setSource', '__init__'):
            continue
        ports = {}
        if c is not None and facts.is_logic(c):
            ports, _ = facts.ports(c)
        ty = WireTyper(fn, ports, wire_class_self=(c is not None and c.name in ('Wire', 'BidirWire')))
        for x in ast.walk(fn):
            if isinstance(x, (ast.Assign, ast.AugAssign)):
                tg = x.targets if isinstance(x, ast.Assign) else [x.target]
                for t in tg:
                    if isinstance(t, ast.Attribute) and t.attr == 'source' and (ty.is_wire(t.value) or (isinstance(t.value, ast.Name) and t.value.id in ('w', 'wire'))):
                        n += 1
                        if not (isinstance(x, ast.Assign) and norm(x.value) == 'None'):
                            bad.append((rel, qual(c, fn), norm(x)))
    ini = w.methods.get('__init__')
    st0 = [x for x in ast.walk(ini) if isinstance(x, ast.Assign) and any(norm(t) == 'self.source' for t in x.targets)] if ini else []
    if not st0 or any(norm(x.value) != 'None' for x in st0):
        bad.append((BASE, 'Wire.__init__', 'a new wire does not start without a source'))
    if bad:
        for b in bad:
            ctx.violation('C11.a', 'source-writer:%s' % b[1], 'a wire\'s source is written outside the checked setSource: `%s`' % b[2], '%s:%s' % (b[0], b[1]),
                          witness=dict(sequence='second driver attached through this path'))
    else:
        ctx.ok('C11.a', 'source-sole-writer', 'only setSource stores a port into a wire\'s source (%d other stores, all None)' % n)
    # OutPort / InOutPort registration for primitive leaves only
    for pc in ('OutPort', 'InOutPort'):
        c = facts.cls(pc, BASE)
        ini = c.methods.get('__init__')
        a = [x.arg for x in ini.args.args]
        par, wire = a[1], a[3]
        okp = True
        for pv, cv in ((True, False), (False, True), (True, True), (False, False)):
            atoms = {}
            for pre in (par, 'self.parent'):
                atoms['%s.isPrimitive()' % pre] = pv or cv
                atoms['%s.isPropagatable()' % pre] = pv
                atoms['%s.isClockable()' % pre] = cv
            try:
                fs = feasible(fn_paths(ini), atoms, single_defs(ini))
            except Unknown as e:
                ctx.error('C11.a', '%s registration guard not evaluable: %s' % (pc, e))
                okp = False
                continue
            for evs, ex in fs:
                cs = [x for x in calls_in_path(evs) if (is_call_to(x, 'addSource') or is_call_to(x, 'setSource')) and norm(x.func.value) in (wire, 'self.wire')
                      and [norm(z) for z in x.args] == ['self']]
                want = 1 if (pv or cv) else 0
                if len(cs) != want:
                    okp = False
                    ctx.violation('C11.a', '%s-registers-source:prop=%s,clk=%s' % (pc, pv, cv),
                                  'an output port of a %s block registers as driver %d time(s), expected %d'
                                  % ('primitive' if want else 'structural', len(cs), want), '%s:%s.__init__' % (BASE, pc),
                                  witness=dict(configuration='leaf with propagate()=%s clock()=%s' % (pv, cv),
                                               effect='checkIntegrity rejects a well-formed hierarchy / a double driver is not noticed'))
        if okp:
            ctx.ok('C11.a', '%s-registers-source' % pc, 'driver registered exactly once for propagatable or clockable leaves, never for structural blocks')
    # isPrimitive = clockable or propagatable, decided by the presence of the methods
    lg = facts.cls('Logic', BASE)
    ip = lg.methods.get('isPrimitive')
    txt = ' '.join(norm(r.value) for r in ast.walk(ip) if isinstance(r, ast.Return) and r.value is not None) if ip else ''
    okip = 'self.isClockable()' in txt and 'self.isPropagatable()' in txt and ' or ' in txt and ' and ' not in txt and 'not' not in txt
    for mn, meth in (('isPropagatable', 'propagate'), ('isClockable', 'clock')):
        m = lg.methods.get(mn)
        t2 = ' '.join(norm(r.value) for r in ast.walk(m) if isinstance(r, ast.Return) and r.value is not None) if m else ''
        okip = okip and t2.replace('"', "'") == "has_method(self, '%s')" % meth
    if okip:
        ctx.ok('C11.a', 'isPrimitive', 'primitive = has clock() or has propagate()')
    else:
        ctx.violation('C11.a', 'isPrimitive', 'isPrimitive/isPropagatable/isClockable no longer mean "has propagate() or clock()"', '%s:Logic.isPrimitive' % BASE)


def table_guard(ctx, facts, rule, cname, mname, table_expr, key_expr, value_expr, member_atoms, extra_true, what, witness):
    """generic check-then-insert: duplicate -> raise before store; fresh -> store table[key] = value"""
    c = facts.cls(cname, BASE)
    m = c.methods.get(mname)
    where = '%s:%s.%s' % (BASE, cname, mname)
    if m is None:
        ctx.error(rule, 'anchor %s.%s not found' % (cname, mname))
        return

    def is_tab(t):
        return isinstance(t, ast.Subscript) and norm(t.value) == table_expr

    for name, dup in (('duplicate %s' % what, True), ('fresh %s' % what, False)):
        atoms = dict(extra_true)
        for a in member_atoms:
            atoms[a] = dup
        try:
            fs = feasible(fn_paths(m), atoms, single_defs(m))
        except Unknown as e:
            ctx.error(rule, '%s.%s guard not evaluable: %s' % (cname, mname, e))
            return
        for evs, ex in fs:
            st = stores_on(evs, is_tab)
            dels = [e for e in evs if e.kind == 'stmt' and isinstance(e.node, ast.Delete) and any(is_tab(t) for t in e.node.targets)]
            key = '%s.%s:%s' % (cname, mname, name)
            if dup:
                if ex == 'raise' and not st and not dels:
                    ctx.ok(rule, key, 'raises before the table is touched')
                else:
                    ctx.violation(rule, key, 'a duplicate %s %s' % (what, 'replaces the earlier one' if st else 'is accepted silently (exit %s)' % ex),
                                  where, witness=witness)
            else:
                good = [s for s in st if isinstance(s, ast.Assign) and any(is_tab(t) and norm(t.slice) == key_expr for t in s.targets) and norm(s.value) == value_expr]
                if ex != 'raise' and len(good) == 1 and len(st) == 1:
                    ctx.ok(rule, key, 'registered as %s[%s] = %s' % (table_expr, key_expr, value_expr))
                else:
                    ctx.violation(rule, key, 'a new %s is not registered under its name (exit %s, stores %s)' % (what, ex, [norm(s) for s in st]), where, witness=witness)


def sole_store(ctx, facts, rule, attr, allowed, what):
    bad = []
    n = 0
    for rel, c, fn in iter_functions(facts):
        q = qual(c, fn)
        for x in ast.walk(fn):
            tg = []
            if isinstance(x, ast.Assign):
                tg = x.targets
            elif isinstance(x, ast.AugAssign):
                tg = [x.target]
            for t in tg:
                for y in ast.walk(t):
                    if isinstance(y, ast.Subscript) and isinstance(y.ctx, ast.Store) and isinstance(y.value, ast.Attribute) and y.value.attr == attr:
                        n += 1
                        if (rel, q) not in allowed:
                            bad.append((rel, q, norm(x)))
            if isinstance(x, ast.Call) and isinstance(x.func, ast.Attribute) and x.func.attr in ('update', 'setdefault', '__setitem__') \
                    and isinstance(x.func.value, ast.Attribute) and x.func.value.attr == attr:
                bad.append((rel, q, norm(x)))
    if bad:
        for b in bad:
            ctx.violation(rule, '%s-writer:%s' % (attr, b[1]), 'the %s table is written outside the checked registration: `%s`' % (what, b[2]), '%s:%s' % (b[0], b[1]),
                          witness=dict(sequence='register a second %s with an existing name through this path' % what))
    else:
        ctx.ok(rule, '%s-sole-writer' % attr, 'the only subscript store into any .%s mapping is the checked one (%d store sites)' % (attr, n))


def check_b(ctx, facts):
    lg = facts.cls('Logic', BASE)
    ini = lg.methods.get('__init__')
    a = [x.arg for x in ini.args.args]
    par, nm = a[1], a[2]
    table_guard(ctx, facts, 'C11.b', 'Logic', '__init__', '%s.children' % par, nm, 'self',
                ['%s in %s.children.keys()' % (nm, par), '%s in %s.children' % (nm, par), '%s.children.get(%s)' % (par, nm)],
                {par: Obj('parent'), 'isinstance(%s, Logic)' % par: True}, 'child name',
                dict(sequence="Buf(sys,'x',a,b); Buf(sys,'x',c,d)"))
    sole_store(ctx, facts, 'C11.b', 'children', {(BASE, 'Logic.__init__')}, 'child')
    # a new block starts with empty tables (after registering itself in the parent)
    for attr in ('children', '_wires'):
        st = [x for x in ast.walk(ini) if isinstance(x, ast.Assign) and any(norm(t) == 'self.%s' % attr for t in x.targets)]
        if len(st) == 1 and isinstance(st[0].value, ast.Dict) and not st[0].value.keys:
            ctx.ok('C11.b', 'Logic.__init__:%s-empty' % attr, 'fresh name-keyed table')
        else:
            ctx.violation('C11.b', 'Logic.__init__:%s-empty' % attr, 'a new block does not start with its own empty %s table' % attr, '%s:Logic.__init__' % BASE)


def check_c(ctx, facts):
    lg = facts.cls('Logic', BASE)
    aw = lg.methods.get('appendWire')
    if aw is None:
        ctx.error('C11.c', 'anchor Logic.appendWire not found')
        return
    w = aw.args.args[1].arg
    table_guard(ctx, facts, 'C11.c', 'Logic', 'appendWire', 'self._wires', '%s.name' % w, w,
                ['%s.name in self._wires.keys()' % w, '%s.name in self._wires' % w], {}, 'wire name',
                dict(sequence="sys.wire('a'); sys.wire('a')"))
    sole_store(ctx, facts, 'C11.c', '_wires', {(BASE, 'Logic.appendWire')}, 'wire')
    for wc in ('Wire', 'BidirWire'):
        c = facts.cls(wc, BASE)
        ini = c.methods.get('__init__')
        a = [x.arg for x in ini.args.args]
        ok = all(any(is_call_to(x, 'appendWire') and norm(x.func.value) in (a[1], 'self.parent') and [norm(z) for z in x.args] == ['self'] for x in calls_in_path(evs))
                 for evs, ex in fn_paths(ini) if ex != 'raise')
        if ok:
            ctx.ok('C11.c', '%s.__init__-registers' % wc, 'every new wire is registered through parent.appendWire(self)')
        else:
            ctx.violation('C11.c', '%s.__init__-registers' % wc, 'a wire can be created without going through the duplicate-name check', '%s:%s.__init__' % (BASE, wc),
                          witness=dict(sequence="two wires of the same name in one block"))
        for mn, tgt in (('rename', 'self.parent'), ('reparent', None), ('reparentAndRename', None)):
            m = c.methods.get(mn)
            if m is None:
                continue
            newp = [x.arg for x in m.args.args][1] if mn != 'rename' else None
            good = True
            for evs, ex in fn_paths(m):
                if ex == 'raise':
                    continue
                cs = [x for x in calls_in_path(evs) if is_call_to(x, 'appendWire') and [norm(z) for z in x.args] == ['self']]
                if len(cs) != 1 or norm(cs[0].func.value) not in ((tgt,) if tgt else (newp, 'self.parent')):
                    good = False
                # name / parent updated before re-registration
                idx = [i for i, e in enumerate(evs) if e.kind == 'stmt' and cs and cs[0] in list(ast.walk(e.node))]
                for i, e in enumerate(evs):
                    if e.kind == 'stmt' and isinstance(e.node, ast.Assign) and any(norm(t) in ('self.name', 'self.parent') for t in e.node.targets):
                        if idx and i > idx[0]:
                            good = False
            if good:
                ctx.ok('C11.c', '%s.%s' % (wc, mn), 're-registers through appendWire after updating name/parent')
            else:
                ctx.violation('C11.c', '%s.%s' % (wc, mn), '%s does not re-register the wire through the checked appendWire (once, after the update)' % mn,
                              '%s:%s.%s' % (BASE, wc, mn), witness=dict(sequence="a=sys.wire('a'); b=sys.wire('b'); b.%s(...'a')" % mn))
    for mn, cls_ in (('wire', 'Wire'), ('bidir_wire', 'BidirWire')):
        m = lg.methods.get(mn)
        if m is None:
            continue
        a = [x.arg for x in m.args.args]
        rets = [r for r in ast.walk(m) if isinstance(r, ast.Return)]
        if rets and all(isinstance(r.value, ast.Call) and norm(r.value.func) == cls_ and [norm(z) for z in r.value.args][:2] == ['self', a[1]] for r in rets):
            ctx.ok('C11.c', 'Logic.%s' % mn, 'creates %s(self, name, ...)' % cls_)
        else:
            ctx.violation('C11.c', 'Logic.%s' % mn, 'Logic.%s does not create a %s owned by the block under the given name' % (mn, cls_), '%s:Logic.%s' % (BASE, mn))


def check_d(ctx, facts):
    fn = facts.func(DEBUG, 'checkIntegrity', required=False)
    where = '%s:checkIntegrity' % DEBUG
    if fn is None:
        ctx.error('C11.d', 'anchor debug.checkIntegrity not found')
        return
    objn = fn.args.args[0].arg
    for lst in ('inPorts', 'outPorts'):
        loops = [x for x in fn.body if isinstance(x, ast.For) and norm(x.iter) == '%s.%s' % (objn, lst)
                 and any(isinstance(y, ast.Raise) for y in ast.walk(x))]
        key = 'checkIntegrity:%s' % lst
        if len(loops) != 1 or not isinstance(loops[0].target, ast.Name):
            ctx.violation('C11.d', key, 'no loop over %s.%s that can refuse an undriven wire' % (objn, lst), where,
                          witness=dict(fault='remove the driver of a wire attached to an %s' % lst[:-1]))
            continue
        lp = loops[0]
        pv = lp.target.id
        al = single_defs(list(lp.body))
        # which local holds the source?
        srcn = [k for k, v in al.items() if isinstance(v, ast.Call) and is_call_to(v, 'getSource')] + \
               [k for k, v in al.items() if isinstance(v, ast.Attribute) and v.attr == 'source']
        sinkn = [k for k, v in al.items() if isinstance(v, ast.Call) and is_call_to(v, 'getSinks')]
        wiren = [k for k, v in al.items() if norm(v) == '%s.wire' % pv]
        if not srcn:
            ctx.error('C11.d', 'checkIntegrity: source lookup not recognised in the %s loop' % lst)
            continue
        srcv = al[srcn[0]]
        src_ok = norm(srcv) in tuple('%s.getSource()' % w for w in wiren + ['%s.wire' % pv]) + tuple('%s.source' % w for w in wiren + ['%s.wire' % pv])
        if not src_ok:
            ctx.violation('C11.d', key, 'the source that is tested (`%s`) is not the source of the port\'s own wire' % norm(srcv), where)
            continue
        al2 = {k: v for k, v in al.items() if k not in srcn + sinkn}
        good = True
        for sname, sval, nsinks in (('undriven, with readers', None, 2), ('undriven, no readers', None, 0), ('driven, with readers', Obj('port'), 1), ('driven, no readers', Obj('port'), 0)):
            atoms = {srcn[0]: sval}
            for s in sinkn:
                atoms['len(%s)' % s] = nsinks
            try:
                fs = feasible(cfg_paths(lp.body), atoms, al2)
            except Unknown as e:
                ctx.error('C11.d', 'integrity guard not evaluable: %s' % e)
                good = False
                break
            for evs, ex in fs:
                raised = ex == 'raise'
                want = sval is None
                if raised != want or ex in ('break', 'return'):
                    good = False
                    ctx.violation('C11.d', '%s:%s' % (key, sname), 'a port whose wire is %s makes the check %s (exit %s)' % (sname, 'raise' if raised else 'pass', ex), where,
                                  witness=dict(scenario=sname, port_list=lst))
        if good:
            ctx.ok('C11.d', key, 'raises exactly when the wire of a port has no source (4 scenarios), visits every port')
            ctx.sample(dict(rule='C11.d', port_list=lst, scenarios=['undriven->raise', 'driven->pass']))
    # recursion over all children
    rec = [x for x in fn.body if isinstance(x, ast.For) and any(isinstance(y, ast.Call) and norm(y.func) == fn.name for y in ast.walk(x))]
    if len(rec) == 1 and norm(rec[0].iter) == '%s.children.values()' % objn and complete_iteration_fn(rec[0], fn.name):
        ctx.ok('C11.d', 'checkIntegrity:recursion', 'recurses into every child')
    else:
        ctx.violation('C11.d', 'checkIntegrity:recursion', 'the integrity check does not recurse into every child', where,
                      witness=dict(fault='undriven wire two levels down, in the second child'))
    # nothing swallows the refusal
    if any(isinstance(x, ast.Try) for x in ast.walk(fn)):
        ctx.violation('C11.d', 'checkIntegrity:not-swallowed', 'a try/except inside the integrity check can swallow the refusal', where)
    ctx.assumptions.append('checkPort (port belongs to its parent) is the only other reachable raise in checkIntegrity')


def complete_iteration_fn(lp, fname):
    tv = lp.target.id if isinstance(lp.target, ast.Name) else None
    for evs, ex in cfg_paths(lp.body):
        if ex in ('break', 'return'):
            return False
        hit = [c for c in calls_in_path(evs) if norm(c.func) == fname and [norm(a) for a in c.args][:1] == [tv]]
        if not hit and ex != 'raise':
            return False
    return True


def run(ctx, sm, facts):
    ctx.rule('C11.a', 'setSource decision table; addSource delegates; no other non-None source store; output ports of primitive leaves register once')
    ctx.rule('C11.b', 'duplicate child raises before the store; sole writer of children tables')
    ctx.rule('C11.c', 'duplicate wire raises before the store; sole writer of _wires; constructors and rename/reparent go through appendWire')
    ctx.rule('C11.d', 'checkIntegrity raises iff source is None, for both port lists, all ports, all children')
    ctx.rule('C11.f', 'rejection / acceptance clauses evaluated on elaborated construction sequences (double driver, duplicate child / wire, rename / reparent, integrity check on library blocks and single-fault variants)')
    from ..facts import Facts
    from .c02 import overlay_source, CASES_REL
    res = check_f(ctx, Facts(sm.with_overlay({CASES_REL: overlay_source()})))      # + synthetic user classes (a leaf inheriting propagate())
    # the shape rules below report only what they can read; when a registration function was rewritten into a shape they do not
    # recognise, the scenario results above decide the clause instead (no alarm on a behaviour-preserving rewrite)
    before = len(ctx.violations), len(ctx.errors)
    check_a(ctx, facts)
    check_b(ctx, facts)
    check_c(ctx, facts)
    check_d(ctx, facts)
    scen_ok = all(st != 'bad' for st, _ in res.values()) and sum(1 for st, _ in res.values() if st == 'ok') >= 40
    if scen_ok:
        # sole-writer / re-registration / walk-shape clauses are exercised by the scenarios (a duplicate never replaces or joins the table, rename /
        # reparent collide, faults at any depth are found); the check-then-act tables of C11.a stay armed
        ctx.defer_shape(('C11.b', 'C11.c', 'C11.d'), 'C11.f', before[0], before[1])
    ctx.not_decided.append('the acceptance clause for every library block at every width (that each constructor drives every internal wire exactly once) is decided only for the registration mechanism, not per constructor')


SELFVAL = [
    dict(name='setSource overwrites silently', file=BASE, old="        if (self.source != None):\n            raise Exception('Source of wire", new="        if (False):\n            raise Exception('Source of wire", expect='C11.a'),
    dict(name='duplicate child replaces', file=BASE, old="            if (instanceName in parent.children.keys()):\n                raise", new="            if (instanceName in parent.children.keys() and False):\n                raise", expect='C11.b'),
    dict(name='rename bypasses appendWire', file=BASE, old="        self.name = newname\n        self.parent.appendWire(self)\n        \n    def reparent(self, newparent):\n        del self.parent._wires[self.name]\n        self.parent = newparent\n        newparent.appendWire(self)\n\n    def reparentAndRename(self, newparent, newname):\n        del self.parent._wires[self.name]\n        self.name = newname\n        self.parent = newparent\n        newparent.appendWire(self)\n\nclass BidirWire",
         new="        self.name = newname\n        self.parent._wires[newname] = self\n        \n    def reparent(self, newparent):\n        del self.parent._wires[self.name]\n        self.parent = newparent\n        newparent.appendWire(self)\n\n    def reparentAndRename(self, newparent, newname):\n        del self.parent._wires[self.name]\n        self.name = newname\n        self.parent = newparent\n        newparent.appendWire(self)\n\nclass BidirWire", expect='C11.c'),
    dict(name='integrity ignores outputs', file=DEBUG, old="    for outP in obj.outPorts:\n        wire = outP.wire\n        sinks = wire.getSinks()\n        source = wire.getSource()\n        \n        if (len(sinks) == 0):\n            print('WARNING', obj.getFullPath(), wire.name, 'with no sinks')\n        if (source == None):",
         new="    for outP in obj.outPorts:\n        wire = outP.wire\n        sinks = wire.getSinks()\n        source = wire.getSource()\n        \n        if (len(sinks) == 0):\n            print('WARNING', obj.getFullPath(), wire.name, 'with no sinks')\n        if (source == None and len(sinks) > 0):", expect='C11.d'),
    dict(name='OutPort registers only combinational leaves', file=BASE, old="        self.wire = wire\n        \n        if (parent.isPrimitive()):\n            wire.addSource(self)\n\n    def getFullPath",
         new="        self.wire = wire\n        \n        if (parent.isPropagatable()):\n            wire.addSource(self)\n\n    def getFullPath", expect='C11.a'),
    dict(name='refactor: guard with is not None / in dict', file=BASE, old="        if (self.source != None):\n            raise Exception('Source of wire", new="        if self.source is not None:\n            raise Exception('Source of wire", expect=None),
]


def selfval(ctx, sm):
    from ..selfval import run_selfval
    run_selfval(ctx, sm, run, SELFVAL)


# ---------------------------------------------------------------------------------------------
# C11.f  the rejection / acceptance clauses evaluated on elaborated construction sequences.
# Construction and integrity-check code is structure-only, so it is evaluated abstractly (hv/elab.py):
# each scenario below is a construction sequence of the kind the property quantifies over.
def scenarios(ctx, facts, tier):
    from ..elab import ElabError, ElabRaise, PyExc, ObjV
    from ..netlist import Design, NetError
    from ..specs import SPECS
    res = {}

    def attempt(name, fn):
        """fn() -> None if the scenario behaves as the property says, else a message"""
        try:
            msg = fn()
        except (ElabError, NetError) as e:
            res[name] = ('error', str(e))
            return
        res[name] = ('bad', msg) if msg else ('ok', '')

    def raises(D, thunk):
        try:
            thunk()
            return False
        except (ElabRaise, PyExc):
            return True

    def s_double_driver():
        D = Design(facts)
        a, b, r = D.wire('a'), D.wire('b'), D.wire('r')
        first = D.make('Buf', 'b1', a, r)
        src = r.attrs.get('source')
        if not raises(D, lambda: D.make('Buf', 'b2', b, r)):
            return 'a second block driving wire r was accepted'
        if r.attrs.get('source') is not src or src is None:
            return 'the earlier driver of r did not stay in place'
        return None

    def s_double_driver_inout():
        # an in/out pin of a primitive is a driver like any other: on an ordinary (single-driver) wire that already has one it is refused
        D = Design(facts)
        a, r = D.wire('a', 2), D.wire('r', 2)
        D.make('Buf', 'b1', a, r)
        src = r.attrs.get('source')
        if not raises(D, lambda: D.make('BidirBuf', 'pad', D.wire('pin', 2), D.wire('pout', 2), D.wire('poe'), r)):
            return 'an in/out pin of a primitive was accepted as a second driver of the ordinary wire r'
        if r.attrs.get('source') is not src or src is None:
            return 'the earlier driver of r did not stay in place'
        return None

    def s_double_driver_same_block():
        D = Design(facts)
        a = D.wire('a', 2)
        b0, b1 = D.wire('b0'), D.wire('b1')
        if not raises(D, lambda: D.make('BitsLSBF', 'bits', a, [b0, b0])):
            return 'one block driving the same wire from two of its output ports was accepted'
        return None

    def s_duplicate_child():
        D = Design(facts)
        a, r, r2 = D.wire('a'), D.wire('r'), D.wire('r2')
        first = D.make('Buf', 'x', a, r)
        if not raises(D, lambda: D.make('Buf', 'x', a, r2)):
            return 'a second child named x was accepted'
        if D.sys.attrs['children'].get('x') is not first:
            return 'the earlier child x did not stay in place'
        return None

    def s_duplicate_wire():
        D = Design(facts)
        a = D.wire('a')
        if not raises(D, lambda: D.wire('a')):
            return 'a second wire named a was accepted'
        if D.sys.attrs['_wires'].get('a') is not a:
            return 'the earlier wire a did not stay in place'
        return None

    def s_rename(method, args):
        def f():
            D = Design(facts)
            a, b = D.wire('a'), D.wire('b')
            other = D.make('Buf', 'holder', a, b)       # another parent for reparent variants
            tgt = {'sys': D.sys, 'other': other}
            aa = [tgt.get(x, x) for x in args]
            final = 'b' if method == 'reparent' else 'a'        # the name the moved wire ends up with
            if method != 'rename':
                ow = D.el.call(D.el.getattr_(other, 'wire'), [final, 1], {}, {})   # the new parent already owns a wire of that name
            if not raises(D, lambda: D.el.call(D.el.getattr_(b, method), aa, {}, {})):
                return '%s onto an existing wire name was accepted' % method
            owner = D.sys if method == 'rename' else other
            kept = owner.attrs['_wires'].get(final)
            if kept is not (a if method == 'rename' else ow):
                return 'the earlier wire named %s was replaced by %s' % (final, method)
            return None
        return f

    def s_rename_ok():
        D = Design(facts)
        b = D.wire('b')
        D.el.call(D.el.getattr_(b, 'rename'), ['c'], {}, {})
        if D.sys.attrs['_wires'].get('c') is not b or 'b' in D.sys.attrs['_wires']:
            return 'a legal rename does not re-register the wire under its new name'
        return None

    def integrity(D, obj):
        f = D.el.eval_name('checkIntegrity', DEBUG)
        D.el.call(f, [obj], {}, {})

    def s_integrity(sp, p):
        def f():
            D = Design(facts)
            ins, outs = sp['build'](D, p)
            # drive every input of the design
            for n, w in ins.items():
                D.make('Constant', 'k_' + n, 0, w)
            dut = D.sys.attrs['children']['dut']
            try:
                integrity(D, dut)
            except (ElabRaise, PyExc) as e:
                return 'a well-formed %s%s is rejected by the integrity check: %s' % (sp['name'], p, str(e)[:80])
            return None
        return f

    def s_fault(kind):
        def f():
            D = Design(facts)
            a, b, r = D.wire('a', 2), D.wire('b', 2), D.wire('r', 2)
            D.make('Constant', 'ka', 1, a)
            if kind != 'input':
                D.make('Constant', 'kb', 1, b)
            x = D.make('Xor2', 'dut', a, b, r)          # structural: Nand2 x4 -> And2 + Not
            D.make('Buf', 'reader', r, D.wire('r2', 2))
            if kind == 'deep':
                # remove the driver of an internal wire two levels down (second child)
                inner = list(x.attrs['children'].values())[1]
                mid = inner.attrs['_wires']['Mid'] if 'Mid' in inner.attrs.get('_wires', {}) else list(inner.attrs['_wires'].values())[0]
                mid.attrs['source'] = None
            elif kind == 'output-unread':
                D2 = Design(facts)
                a2, r2 = D2.wire('a', 2), D2.wire('r', 2)
                D2.make('Constant', 'ka', 1, a2)
                y = D2.make('Nand2', 'dut', a2, a2, r2)
                r2.attrs['source'] = None           # output wire undriven and nobody reads it
                try:
                    integrity(D2, y)
                    return 'a block whose output port wire is undriven (and unread) is accepted'
                except (ElabRaise, PyExc):
                    return None
            try:
                integrity(D, x)
                return 'a hierarchy with an undriven %s wire is accepted' % kind
            except (ElabRaise, PyExc):
                return None
        return f

    def s_fault_replica():
        # two replicas with the same inner instance and wire names under different parents; the fault is in the later one
        D = Design(facts)
        a, b = D.wire('a', 2), D.wire('b', 2)
        D.make('Constant', 'ka', 1, a)
        D.make('Constant', 'kb', 1, b)
        x1 = D.make('Xor2', 'lane0', a, b, D.wire('r0', 2))
        x2 = D.make('Xor2', 'lane1', a, b, D.wire('r1', 2))
        inner = list(x2.attrs['children'].values())[2]
        ws = inner.attrs.get('_wires', {})
        mid = ws.get('Mid') or list(ws.values())[0]
        mid.attrs['source'] = None
        try:
            integrity(D, D.sys)
            return 'an undriven wire in the second of two identically named replicas is accepted'
        except (ElabRaise, PyExc):
            return None

    def s_duplicate_child_empty(first_kind):
        # the earlier child has nothing attached yet (a grouping block, a block whose ports are added later): it is a child like any other
        def f():
            D = Design(facts)
            first = D.make('Logic', 'x')
            a, r = D.wire('a'), D.wire('r')
            second = (lambda: D.make('Logic', 'x')) if first_kind == 'empty' else (lambda: D.make('Buf', 'x', a, r))
            if not raises(D, second):
                return 'a second child named x was accepted because the earlier child x has no ports, children or wires yet'
            if D.sys.attrs['children'].get('x') is not first:
                return 'the earlier (still empty) child x did not stay in place'
            return None
        return f

    def s_fault_structural_port():
        # the undriven wire is attached only to a port of an intermediate structural block (an unused input of a sub-block): no leaf reads it
        D = Design(facts)
        a, r, u = D.wire('a', 2), D.wire('r', 2), D.wire('u', 2)
        D.make('Constant', 'ka', 1, a)
        sub = D.make('Logic', 'sub')
        for nm, w, meth in (('a', a, 'addIn'), ('u', u, 'addIn'), ('r', r, 'addOut')):
            D.el.call(D.el.getattr_(sub, meth), [nm, w], {}, {})
        D.el.instantiate(D.el.find_class('Buf'), [sub, 'inner', a, r], {})
        D.make('Buf', 'reader', r, D.wire('r2', 2))
        try:
            integrity(D, D.sys)
            return 'a hierarchy in which an input port of a structural sub-block is attached to a wire nobody drives is accepted'
        except (ElabRaise, PyExc):
            return None

    def s_inheriting_leaf():
        # a leaf whose propagate() is inherited from a library block is a primitive driver like its base class
        if D_has('HvInvChild') is None:
            raise ElabError('synthetic class HvInvChild not available')
        D = Design(facts)
        a, b, r = D.wire('a'), D.wire('b'), D.wire('r')
        D.make('Constant', 'ka', 1, a)
        D.make('Constant', 'kb', 1, b)
        first = D.make('HvInvChild', 'n1', a, r)
        src = r.attrs.get('source')
        if src is None:
            return 'the output port of a leaf that inherits propagate() is not registered as the driver of its wire'
        if not raises(D, lambda: D.make('Buf', 'b2', b, r)):
            return 'a second driver was accepted on a wire driven by a leaf that inherits propagate()'
        D2 = Design(facts)
        a2, r2 = D2.wire('a'), D2.wire('r')
        D2.make('Constant', 'ka', 1, a2)
        D2.make('HvInvChild', 'n1', a2, r2)
        D2.make('Buf', 'reader', r2, D2.wire('r2'))
        try:
            integrity(D2, D2.sys)
        except (ElabRaise, PyExc) as e:
            return 'a fully driven circuit with a leaf that inherits propagate() is rejected by the integrity check: %s' % str(e)[:80]
        return None

    def D_has(cname):
        return Design(facts).el.find_class(cname)

    def s_move_driven(method):
        # a wire that already has a driver and readers is moved / renamed: it stays the same net (driver kept, second driver still refused)
        def f():
            D = Design(facts)
            a, b, r = D.wire('a'), D.wire('b'), D.wire('r')
            D.make('Buf', 'b1', a, r)
            D.make('Buf', 'rd', r, D.wire('r2'))
            other = D.make('Logic', 'other')
            src = r.attrs.get('source')
            args = dict(rename=['moved'], reparent=[other], reparentAndRename=[other, 'moved'])[method]
            D.el.call(D.el.getattr_(r, method), args, {}, {})
            if r.attrs.get('source') is not src or src is None:
                return 'after %s() the wire has forgotten its driver' % method
            if not r.attrs.get('sinks'):
                return 'after %s() the wire has forgotten its readers' % method
            if not raises(D, lambda: D.make('Buf', 'b2', b, r)):
                return 'after %s() a second driver is accepted on a wire that already has one' % method
            return None
        return f

    def s_integrity_twice():
        # the check is a function of the hierarchy as it is now: a fault added (anywhere below) after a successful check is found by the next one
        D = Design(facts)
        a, r = D.wire('a', 2), D.wire('r', 2)
        D.make('Constant', 'ka', 1, a)
        sub = D.make('Logic', 'sub')
        for nm, w, meth in (('a', a, 'addIn'), ('r', r, 'addOut')):
            D.el.call(D.el.getattr_(sub, meth), [nm, w], {}, {})
        D.el.instantiate(D.el.find_class('Buf'), [sub, 'inner', a, r], {})
        D.make('Buf', 'reader', r, D.wire('r2', 2))
        try:
            integrity(D, D.sys)
        except (ElabRaise, PyExc) as e:
            return 'a well-formed hierarchy is rejected: %s' % str(e)[:60]
        u = D.wire('u', 2)                       # nobody drives u
        D.el.instantiate(D.el.find_class('Buf'), [sub, 'late', u, D.wire('x', 2)], {})
        try:
            integrity(D, D.sys)
            return 'a block with an undriven input added one level down after a successful check is accepted by the next check'
        except (ElabRaise, PyExc):
            return None

    for mth in ('rename', 'reparent', 'reparentAndRename'):
        attempt('%s of a wire that is already driven and read' % mth, s_move_driven(mth))
    attempt('integrity: fault added below after a successful check', s_integrity_twice)
    attempt('duplicate child name, earlier child still empty (second empty too)', s_duplicate_child_empty('empty'))
    attempt('duplicate child name, earlier child still empty (second a library block)', s_duplicate_child_empty('block'))
    attempt('integrity: undriven wire on a port of an intermediate structural block only', s_fault_structural_port)
    attempt('leaf that inherits propagate(): registered driver, second driver refused, integrity accepts', s_inheriting_leaf)
    attempt('integrity: undriven wire in a later replica with repeated names', s_fault_replica)
    attempt('second driver from another block', s_double_driver)
    attempt('second driver from the same block', s_double_driver_same_block)
    attempt('in/out pin as second driver of an ordinary wire', s_double_driver_inout)
    attempt('duplicate child name', s_duplicate_child)
    attempt('duplicate wire name', s_duplicate_wire)
    attempt('rename onto an existing name', s_rename('rename', ['a']))
    attempt('reparent onto an existing name', s_rename('reparent', ['other']))
    attempt('reparentAndRename onto an existing name', s_rename('reparentAndRename', ['other', 'a']))
    attempt('legal rename', s_rename_ok)
    for k in ('input', 'deep', 'output-unread'):
        attempt('integrity: undriven %s wire' % k, s_fault(k))
    nacc = 0
    for sp in SPECS:
        cfgs = list(sp['configs'](tier))
        if not cfgs:
            continue
        p = cfgs[len(cfgs) // 2]
        attempt('integrity accepts %s' % sp['name'], s_integrity(sp, p))
        nacc += 1
    return res


def check_f(ctx, facts):
    res = scenarios(ctx, facts, ctx.tier)
    nok = 0
    for name, (st, msg) in sorted(res.items()):
        if st == 'ok':
            nok += 1
            if not name.startswith('integrity accepts'):
                ctx.ok('C11.f', name, 'behaves as the property states')
        elif st == 'bad':
            ctx.violation('C11.f', name, msg, '%s / %s' % (BASE, DEBUG), witness=dict(sequence=name))
        else:
            if name.startswith('integrity accepts') and ('Raise' in msg or 'refused' in msg):
                continue
            ctx.note('C11.f scenario `%s` not evaluable: %s' % (name, msg[:100]))
    acc = [n for n, (st, _) in res.items() if n.startswith('integrity accepts') and st == 'ok']
    ctx.ok('C11.f', 'integrity-accepts-library', '%d library blocks with all inputs driven pass the integrity check' % len(acc), grade='bounded')
    ctx.floor('C11.f', 'scenarios evaluated', nok, 40)
    return res
