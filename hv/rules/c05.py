"""C05 - clock edges are atomic (two-phase update discipline).

C05.a  nothing reachable from any clock() writes a wire immediately (put /
       settle / settleAll), reads a wire's pending `next`, or stores wire state;
C05.b  Simulator._clk_cycle: all clockAll() calls precede the single
       Wire.settleAll(), which is outside every loop and precedes every
       propagate(); listeners and the cycle counter come last; clockAll visits
       every clockable and is the only caller of clock();
C05.c  one pending list: every prepare() in the Wire hierarchy stores a masked
       `next` and appends the wire to the list settleAll() iterates completely
       and then empties; settle() copies next -> value;
C05.d  clk(n): exactly one _clk_cycle() per iteration of range(cycles); the only
       early exit is the do_run flag.
"""
import ast

from ..callgraph import closure, qual
from ..cfg import fn_paths, calls_on_path, in_loop_at, paths as cfg_paths
from ..facts import iter_functions, is_self_attr, Facts
from ..srcmap import norm
from ..wiretype import WireTyper
from .c06 import wire_hierarchy, MaskAlg

LEVEL_TEXT = ('Static two-phase-update discipline: call-graph closure of every clock() method, '
              'phase order of the edge routine over all structured CFG paths, single pending list.')

SIM = 'py4hw/simulation.py'
BASE = 'py4hw/base.py'
IMMEDIATE = ('put', 'settle', 'settleAll')


def is_call_to(c, attr):
    return isinstance(c.func, ast.Attribute) and c.func.attr == attr or \
        isinstance(c.func, ast.Name) and c.func.id == attr


def clock_methods(facts):
    out = []
    for c in facts.logic_classes():
        if 'clock' in c.methods:
            out.append((c, c.methods['clock']))
    return out


def edge_phase_offenders(facts, c, m):
    """C05.a offenders in the call closure of one clock() method"""
    bad = []
    untyped = []
    for cc, ff in closure(facts, c, m, stop=lambda k, f: k is not None and k.name in ('Wire', 'BidirWire', 'Logic')):
        if cc is not None and cc.name in ('Wire', 'BidirWire'):
            continue
        ports = {}
        if cc is not None and facts.is_logic(cc):
            ports, _ = facts.ports(cc)
        ty = WireTyper(ff, ports)
        for n in ast.walk(ff):
            if isinstance(n, ast.Call) and isinstance(n.func, ast.Attribute):
                a = n.func.attr
                if a in IMMEDIATE:
                    recv = n.func.value
                    if a == 'settleAll' or ty.is_wire(recv):
                        bad.append((qual(cc, ff), a, norm(n)))
                    elif a in ('put', 'settle'):
                        # receivers that are attributes of self but not known ports are still
                        # suspicious when the class is a Logic block: self.<x>.put(...)
                        if is_self_attr(recv) and cc is not None and facts.is_logic(cc) \
                                and recv.attr not in facts.self_attrs_assigned(cc):
                            bad.append((qual(cc, ff), a, norm(n)))
                        else:
                            untyped.append('%s `%s`' % (qual(cc, ff), norm(n)))
            if isinstance(n, ast.Attribute) and n.attr == 'next' and isinstance(n.ctx, ast.Load) and ty.is_wire(n.value):
                bad.append((qual(cc, ff), 'read-next', norm(n)))
            if isinstance(n, ast.Attribute) and n.attr in ('value', 'next') and isinstance(n.ctx, ast.Store) \
                    and ty.is_wire(n.value):
                bad.append((qual(cc, ff), 'store-' + n.attr, norm(n)))
    return bad, untyped


def check_a(ctx, facts):
    cms = clock_methods(facts)
    untyped_all = []
    for c, m in cms:
        bad, untyped = edge_phase_offenders(facts, c, m)
        untyped_all += untyped
        key = '%s.clock' % c.name
        if bad:
            for q, a, txt in bad:
                ctx.violation('C05.a', '%s:%s:%s' % (key, q, a),
                              'edge-phase code writes/reads a wire outside the two-phase discipline: `%s`' % txt,
                              '%s:%s (reached from %s)' % (c.rel, q, key),
                              witness=dict(schedule='two sequential blocks connected through this wire, visited in either order',
                                           effect='the later-visited block sees the post-edge value'))
        else:
            ctx.ok('C05.a', key, 'call closure contains no put/settle/settleAll on a wire and no read of next')
    ctx.floor('C05.a', 'clock() methods', len(cms), 18)
    ctx.analysed['clock_methods'] = len(cms)
    ctx.analysed['untyped_put_receivers_in_clock_closures'] = sorted(set(untyped_all))[:20]
    ctx.sample(dict(rule='C05.a', instance='Reg.clock', obligation='no Wire.put/settle/settleAll, no read of .next in call closure'))


def check_b(ctx, facts):
    sim = facts.cls('Simulator', SIM)
    cyc = facts.lookup_inl(sim, '_clk_cycle')
    if cyc is None:
        ctx.error('C05.b', 'anchor Simulator._clk_cycle not found')
        return
    where = '%s:Simulator._clk_cycle' % SIM
    P = fn_paths(cyc)
    ok = True
    seen_k = seen_p = False

    def is_prop(c):
        return is_call_to(c, 'propagate') or is_call_to(c, 'propagateAll')

    for evs, ex in P:
        if ex == 'raise':
            continue
        K = calls_on_path(evs, lambda c: is_call_to(c, 'clockAll'))
        S = calls_on_path(evs, lambda c: is_call_to(c, 'settleAll'))
        Pp = calls_on_path(evs, is_prop)
        N = calls_on_path(evs, lambda c: is_call_to(c, '_notifyListeners'))
        T = [i for i, ev in enumerate(evs) if ev.kind == 'stmt' and isinstance(ev.node, ast.AugAssign)
             and is_self_attr(ev.node.target, 'total_clks')]
        seen_k |= bool(K)
        seen_p |= bool(Pp)
        if len(S) != 1:
            ctx.violation('C05.b', 'settleAll-count', 'a path through the edge routine calls settleAll() %d times '
                          '(exit=%s)' % (len(S), ex), where,
                          witness=dict(path=[repr(e) for e in evs][:12]))
            ok = False
            continue
        s = S[0]
        if in_loop_at(evs, s):
            ctx.violation('C05.b', 'settleAll-in-loop', 'settleAll() runs inside a loop (per-driver commit): a later '
                          'clock domain sees post-edge values of an earlier one', where,
                          witness=dict(schedule='two clock drivers, register chain across them'))
            ok = False
        if any(k > s for k in K):
            ctx.violation('C05.b', 'clockAll-after-settle', 'clockAll() can run after settleAll() in the same cycle', where)
            ok = False
        if any(p < s for p in Pp):
            ctx.violation('C05.b', 'propagate-before-settle', 'propagate runs before prepared values are settled', where)
            ok = False
        if ex in ('fall', 'return'):
            if not N or not T:
                ctx.violation('C05.b', 'missing-notify-or-count', 'a completed cycle skips listener notification or the cycle counter', where)
                ok = False
            elif Pp and (min(N) < max(Pp) or min(T) < s):
                ctx.violation('C05.b', 'notify-before-propagate', 'listeners are notified before propagation completed', where)
                ok = False
    # the propagate pass is unconditional: every completed path enters the propagate loop (or calls propagateAll)
    ploops = [n for n in ast.walk(cyc) if isinstance(n, ast.For) and any(isinstance(x, ast.Call) and is_call_to(x, 'propagate') for x in ast.walk(n))]
    for evs, ex in P:
        if ex == 'raise':
            continue
        entered = any(e.kind == 'loop' and e.node in ploops for e in evs) or calls_on_path(evs, lambda c: is_call_to(c, 'propagateAll'))
        if not entered:
            conds = [(norm(e.node), e.val) for e in evs if e.kind == 'branch']
            ctx.violation('C05.b', 'propagate-unconditional', 'a completed cycle can skip the post-edge propagate pass (under %s): blocks that change state in clock() '
                          'and decode it in propagate() keep stale outputs' % conds[-2:], where,
                          witness=dict(history='an edge at which no prepared wire changes value while a block\'s internal state does'))
            ok = False
            break
    # nothing called from inside the driver loop (other than clock() bodies, C05.a) settles wires
    from ..callgraph import closure, resolve_call
    for lp in [n for n in ast.walk(cyc) if isinstance(n, ast.For) and any(isinstance(x, ast.Call) and is_call_to(x, 'clockAll') for x in ast.walk(n))]:
        for n in ast.walk(lp):
            if isinstance(n, ast.Call):
                for cc, ff in resolve_call(facts, sim, cyc, n, late_bound=True):
                    if ff.name != 'clockAll':
                        continue
                    for c2, f2 in closure(facts, cc, ff, stop=lambda k, f: f.name == 'clock'):
                        if f2.name == 'clock' or (c2 is not None and c2.name in ('Wire', 'BidirWire')):
                            continue
                        for x in ast.walk(f2):
                            if isinstance(x, ast.Call) and (is_call_to(x, 'settleAll') or is_call_to(x, 'settle')):
                                ok = False
                                ctx.violation('C05.b', 'settle-inside-driver-loop:%s' % qual(c2, f2),
                                              '`%s` commits prepared values while sequential blocks are still being visited (per-domain commit)' % norm(x),
                                              '%s:%s' % (SIM, qual(c2, f2)),
                                              witness=dict(schedule='two clock domains; a register of the second reads a register of the first'))
    if not seen_k:
        ctx.violation('C05.b', 'no-clockAll', 'no path of the edge routine clocks the drivers', where)
        ok = False
    if not seen_p:
        ctx.violation('C05.b', 'no-propagate', 'no path of the edge routine re-propagates after the edge', where)
        ok = False
    if ok:
        ctx.ok('C05.b', '_clk_cycle-phase-order', '%d structured paths: clockAll* < settleAll (once, outside loops) < propagate* < notify, count' % len(P))
        ctx.sample(dict(rule='C05.b', paths=len(P), order='clockAll* ; Wire.settleAll() ; propagate* ; _notifyListeners() ; total_clks += 1'))
    # the propagate loop and clockAll visit every element: no break / return / continue-before-call
    for cname, mname, callee in (('Simulator', '_clk_cycle', 'propagate'), ('ClockDriverSimulator', 'clockAll', 'clock'),
                                ('Simulator', 'propagateAll', 'propagate')):
        c = facts.cls(cname, SIM)
        m = facts.lookup_inl(c, mname)
        if m is None:
            ctx.error('C05.b', 'anchor %s.%s not found' % (cname, mname))
            continue
        loops = [n for n in ast.walk(m) if isinstance(n, ast.For) and any(
            isinstance(x, ast.Call) and is_call_to(x, callee) for x in ast.walk(n))]
        if not loops:
            if mname == '_clk_cycle' and any(isinstance(x, ast.Call) and is_call_to(x, 'propagateAll') for x in ast.walk(m)):
                ctx.ok('C05.b', '%s-loop' % mname, 'delegates to propagateAll()')
                continue
            ctx.violation('C05.b', '%s-loop' % mname, 'no loop calling %s() on every element' % callee, '%s:%s.%s' % (SIM, cname, mname))
            continue
        for lp in loops:
            bad = complete_iteration(lp, callee)
            key = '%s.%s-visits-all' % (cname, mname)
            if bad:
                ctx.violation('C05.b', key, bad, '%s:%s.%s' % (SIM, cname, mname),
                              witness=dict(schedule='more than one element in the list'))
            else:
                ctx.ok('C05.b', key, 'loop `for %s in %s` calls %s() on every element on every path' % (norm(lp.target), norm(lp.iter), callee))
    # during the clocking phase nothing else is evaluated: clockAll (and what it calls besides the clock() methods, which C05.a covers)
    # neither propagates a block nor writes / commits a wire - such a value would be visible to blocks clocked later in the same edge
    from ..callgraph import closure
    cds = facts.cls('ClockDriverSimulator', SIM, required=False)
    ca = facts.lookup_inl(cds, 'clockAll') if cds is not None else None
    if ca is not None:
        mid = []
        fns = [(cds, ca)] + [(k, f) for k, f in closure(facts, cds, ca, stop=lambda k, f: f.name == 'clock') if f.name != 'clock']
        for k, f in fns:
            for x in ast.walk(f):
                if isinstance(x, ast.Call) and isinstance(x.func, ast.Attribute) and x.func.attr in ('propagate', 'propagateAll', 'put', 'settle', 'settleAll'):
                    mid.append('%s in %s' % (norm(x)[:50], qual(k, f)))
        if mid:
            ctx.violation('C05.b', 'clock-phase-pure', 'the clocking phase evaluates / commits something besides clock(): %s' % mid[:3], '%s:ClockDriverSimulator.clockAll' % SIM,
                          witness=dict(schedule='a block with both clock() and propagate() visited before a block that reads its output'))
        else:
            ctx.ok('C05.b', 'clock-phase-pure', 'clockAll and its helpers call nothing but clock(): no propagate / put / settle during the clocking phase')
    # clockAll is the only call site of .clock()
    sites = []
    for rel, c, fn in iter_functions(facts):
        for n in ast.walk(fn):
            if isinstance(n, ast.Call) and isinstance(n.func, ast.Attribute) and n.func.attr == 'clock' and not n.args:
                if isinstance(n.func.value, ast.Call) and norm(n.func.value).startswith('super('):
                    continue
                sites.append((rel, qual(c, fn)))
    foreign = [s for s in sites if s != (SIM, 'ClockDriverSimulator.clockAll') and not s[0].startswith('py4hw/gui')]
    other = [s for s in foreign if not s[1].endswith('.clock')]
    if other:
        for s in other:
            ctx.violation('C05.b', 'clock-call-site:%s' % s[1], '.clock() is called outside ClockDriverSimulator.clockAll', '%s:%s' % s)
    else:
        ctx.ok('C05.b', 'clock-call-sites', 'clock() is only called from clockAll (and delegating clock() methods): %s' % sites)


def complete_iteration(lp, callee):
    """None if every path through the loop body calls <target>.callee() and no path leaves the loop early"""
    tv = lp.target.id if isinstance(lp.target, ast.Name) else None
    for evs, ex in cfg_paths(lp.body):
        if ex in ('break', 'return'):
            return 'the loop can be left early (%s) before all elements are visited' % ex
        hit = calls_on_path(evs, lambda c: is_call_to(c, callee) and isinstance(c.func, ast.Attribute)
                            and (tv is None or norm(c.func.value) == tv))
        if not hit and ex != 'raise':
            return 'a path through the loop body skips %s() for an element (exit=%s)' % (callee, ex)
    return None


def class_attr_owner(facts, c, attr):
    for k in facts.mro(c):
        for s in k.node.body:
            if isinstance(s, ast.Assign) and any(isinstance(t, ast.Name) and t.id == attr for t in s.targets):
                return k.name
    return None


def list_ref(facts, c, e):
    """normalise an expression naming a class-level list: -> 'Class.attr' or None"""
    if isinstance(e, ast.Attribute):
        if isinstance(e.value, ast.Name):
            if e.value.id in ('self', 'cls') or e.value.id == c.name:
                o = class_attr_owner(facts, c, e.attr)
                return '%s.%s' % (o, e.attr) if o else None
            if e.value.id in facts.classes:
                o = class_attr_owner(facts, facts.classes[e.value.id][0], e.attr)
                return '%s.%s' % (o, e.attr) if o else None
        if isinstance(e.value, ast.Call) and norm(e.value) in ('type(self)', 'self.__class__'):
            o = class_attr_owner(facts, c, e.attr)
            return '%s.%s' % (o, e.attr) if o else None
        if isinstance(e.value, ast.Attribute) and norm(e.value) == 'self.__class__':
            o = class_attr_owner(facts, c, e.attr)
            return '%s.%s' % (o, e.attr) if o else None
    return None


def check_c(ctx, facts):
    wh = wire_hierarchy(facts)
    wire = facts.cls('Wire', BASE)
    sa = facts.lookup(wire, 'settleAll')
    if sa is None:
        ctx.error('C05.c', 'anchor Wire.settleAll not found')
        return
    where = '%s:Wire.settleAll' % BASE
    # which list does settleAll iterate?
    loops = [n for n in sa.body if isinstance(n, ast.For)]
    pending = None
    if len(loops) == 1:
        it = loops[0].iter
        if isinstance(it, ast.Call) and isinstance(it.func, ast.Name) and it.func.id in ('list', 'tuple') and it.args:
            it = it.args[0]
        pending = list_ref(facts, wire, it)
    if pending is None:
        ctx.error('C05.c', 'Wire.settleAll does not have the recognised shape (one loop over a class-level pending list)')
        return
    bad = complete_iteration(loops[0], 'settle')
    if bad:
        ctx.violation('C05.c', 'settleAll-visits-all', bad, where, witness=dict(history='two wires prepared in one edge'))
    else:
        ctx.ok('C05.c', 'settleAll-visits-all', 'iterates %s completely, settle() on each' % pending)
    # after the loop the list is emptied on every path; not before
    emptied = True
    for evs, ex in fn_paths(sa):
        if ex == 'raise':
            continue
        li = [i for i, ev in enumerate(evs) if ev.kind == 'endloop' and ev.node is loops[0]]
        if not li:
            continue
        end = li[-1]
        clears = []
        for i, ev in enumerate(evs):
            n = ev.node
            if ev.kind != 'stmt':
                continue
            if isinstance(n, ast.Assign) and any(list_ref(facts, wire, t) == pending for t in n.targets):
                if isinstance(n.value, ast.List) and not n.value.elts or norm(n.value) == 'list()':
                    clears.append(i)
                else:
                    clears.append(-1)
            if isinstance(n, ast.Expr) and isinstance(n.value, ast.Call) and isinstance(n.value.func, ast.Attribute) \
                    and n.value.func.attr == 'clear' and list_ref(facts, wire, n.value.func.value) == pending:
                clears.append(i)
        if not clears or any(i < end for i in clears):
            emptied = False
    if emptied:
        ctx.ok('C05.c', 'settleAll-clears', '%s is rebound to the empty list after the loop on every path' % pending)
    else:
        ctx.violation('C05.c', 'settleAll-clears', 'the pending list is not emptied (exactly) after all wires were settled: '
                      'updates are lost or carried over to a later edge', where,
                      witness=dict(history='prepare on edge 1, nothing on edge 2: the stale value is re-applied or dropped'))
    # who may write the pending list: only prepare() (registers) and settleAll() (empties after settling) of the wire hierarchy.  Any other code
    # that rebinds, clears or edits it drops updates that were prepared for this edge, or carries them over.
    attr = pending.split('.')[-1]
    foreign = []
    from ..facts import iter_functions
    for rel, c, fn in iter_functions(facts):
        if not rel.startswith('py4hw/'):
            continue
        if c is not None and any(k.name in ('Wire', 'BidirWire') for k in facts.mro(c)) and fn.name in ('prepare', 'settleAll'):
            continue
        for n in ast.walk(fn):
            t = None
            if isinstance(n, (ast.Assign, ast.AugAssign, ast.Delete)):
                for tg in (n.targets if isinstance(n, (ast.Assign, ast.Delete)) else [n.target]):
                    base = tg.value if isinstance(tg, ast.Subscript) else tg
                    if isinstance(base, ast.Attribute) and base.attr == attr and isinstance(base.value, ast.Name) and base.value.id in ('Wire', 'BidirWire', 'self', 'cls'):
                        if base.value.id in ('Wire', 'BidirWire') or (c is not None and any(k.name in ('Wire', 'BidirWire') for k in facts.mro(c))):
                            t = norm(n)[:60]
            if isinstance(n, ast.Call) and isinstance(n.func, ast.Attribute) and n.func.attr in ('clear', 'pop', 'remove', 'append', 'extend', 'insert') \
                    and isinstance(n.func.value, ast.Attribute) and n.func.value.attr == attr and isinstance(n.func.value.value, ast.Name) and n.func.value.value.id in ('Wire', 'BidirWire'):
                t = norm(n)[:60]
            if t:
                foreign.append((rel, (c.name + '.' if c else '') + fn.name, t))
    for rel, q, t in foreign:
        ctx.violation('C05.c', 'pending-list-writer:%s' % q, 'the pending list %s is written outside prepare() / settleAll(): `%s` - updates prepared for the current edge are dropped (or others carried over)'
                      % (pending, t), '%s:%s' % (rel, q), witness=dict(history='a block prepares a wire, then this code runs before the edge commits (e.g. from inside a clock() method)'))
    if not foreign:
        ctx.ok('C05.c', 'pending-list-writers', 'only prepare() and settleAll() of the wire hierarchy write %s' % pending)
    n_prep = 0
    for c in wh:
        for mname in ('prepare',):
            m = c.methods.get(mname)
            if m is None:
                continue
            n_prep += 1
            key = '%s.prepare' % c.name
            w = '%s:%s.prepare' % (c.rel, c.name)
            apps = [n for n in ast.walk(m) if isinstance(n, ast.Call) and isinstance(n.func, ast.Attribute)
                    and n.func.attr == 'append' and n.args and isinstance(n.args[0], ast.Name) and n.args[0].id == 'self']
            ok_paths = True
            for evs, ex in fn_paths(m):
                if ex == 'raise':
                    continue
                hit = calls_on_path(evs, lambda cc: cc in apps and list_ref(facts, c, cc.func.value) == pending)
                st = [ev for ev in evs if ev.kind == 'stmt' and isinstance(ev.node, ast.Assign)
                      and any(is_self_attr(t, 'next') for t in ev.node.targets)]
                if len(hit) < 1 or len(st) < 1:
                    ok_paths = False
            if ok_paths and apps:
                ctx.ok('C05.c', key, 'stores next and appends self to %s on every path' % pending)
            else:
                lists = sorted({str(list_ref(facts, c, a.func.value)) for a in apps})
                ctx.violation('C05.c', key, 'prepare() does not register the wire in the pending list settleAll() iterates (%s); '
                              'it uses %s' % (pending, lists or 'no list'), w,
                              witness=dict(history='prepare(v) then clock edge: the value never becomes visible'))
        m = c.methods.get('settle')
        if m is not None:
            key = '%s.settle' % c.name
            st = [n for n in ast.walk(m) if isinstance(n, ast.Assign) and any(is_self_attr(t, 'value') for t in n.targets)]
            if len(st) == 1 and is_self_attr(st[0].value, 'next') and all(ex != 'return' or any(e.node is st[0] for e in evs)
                                                                       for evs, ex in fn_paths(m)) \
                    and all(any(e.node is st[0] for e in evs) for evs, ex in fn_paths(m) if ex != 'raise'):
                ctx.ok('C05.c', key, 'value := next on every path')
            else:
                ctx.violation('C05.c', key, 'settle() does not copy next into value on every path', '%s:%s.settle' % (c.rel, c.name))
        sa2 = c.methods.get('settleAll')
        if sa2 is not None and c is not wire:
            ctx.note('%s defines its own settleAll (sibling, not called by the simulator)' % c.name)
    ctx.floor('C05.c', 'prepare() implementations', n_prep, 2)
    # the simulator calls the settleAll that was analysed
    sim = facts.cls('Simulator', SIM)
    cyc = facts.lookup_inl(sim, '_clk_cycle')
    calls = [n for n in ast.walk(cyc) if isinstance(n, ast.Call) and is_call_to(n, 'settleAll')] if cyc else []
    for n in calls:
        recv = norm(n.func.value) if isinstance(n.func, ast.Attribute) else ''
        if recv == 'Wire':
            ctx.ok('C05.c', 'simulator-uses-Wire.settleAll', 'edge routine calls Wire.settleAll()')
        else:
            tgt = facts.classes.get(recv, [None])[0]
            m2 = facts.lookup(tgt, 'settleAll') if tgt else None
            if m2 is None or not same_settle(facts, tgt, m2, pending):
                ctx.violation('C05.c', 'simulator-uses-Wire.settleAll', 'edge routine settles through `%s`, which does not drain %s' % (norm(n), pending),
                              '%s:Simulator._clk_cycle' % SIM)
            else:
                ctx.ok('C05.c', 'simulator-uses-Wire.settleAll', '%s.settleAll drains the same list' % recv)


def same_settle(facts, c, m, pending):
    loops = [n for n in m.body if isinstance(n, ast.For)]
    return len(loops) == 1 and list_ref(facts, c, loops[0].iter) == pending and complete_iteration(loops[0], 'settle') is None


def check_d(ctx, facts):
    sim = facts.cls('Simulator', SIM)
    clk = facts.lookup(sim, 'clk')
    if clk is None:
        ctx.error('C05.d', 'anchor Simulator.clk not found')
        return
    where = '%s:Simulator.clk' % SIM
    params = [a.arg for a in clk.args.args if a.arg != 'self']
    loops = [n for n in ast.walk(clk) if isinstance(n, (ast.For, ast.While)) and any(
        isinstance(x, ast.Call) and is_call_to(x, '_clk_cycle') for x in ast.walk(n))]
    outside = [x for x in ast.walk(clk) if isinstance(x, ast.Call) and is_call_to(x, '_clk_cycle')
               and not any(x in list(ast.walk(l)) for l in loops)]
    if len(loops) != 1 or outside or not isinstance(loops[0], ast.For):
        ctx.violation('C05.d', 'clk-loop', 'clk() does not consist of one for-loop issuing the cycles (loops=%d, calls outside=%d)'
                      % (len(loops), len(outside)), where, witness=dict(history='clk(3) versus clk(1);clk(1);clk(1)'))
        return
    lp = loops[0]
    it = norm(lp.iter).replace(' ', '')
    p = params[0] if params else 'cycles'
    if it not in ('range(%s)' % p, 'range(0,%s)' % p, 'range(0,%s,1)' % p, 'range(1,%s+1)' % p):
        ctx.violation('C05.d', 'clk-trip-count', 'loop `for %s in %s` does not run once per requested cycle' % (norm(lp.target), norm(lp.iter)),
                      where, witness=dict(cycles=2))
    else:
        ctx.ok('C05.d', 'clk-trip-count', 'loop runs %s times' % p)
    # the parameter is not modified before the loop
    for n in ast.walk(clk):
        if isinstance(n, (ast.Assign, ast.AugAssign)):
            tg = n.targets if isinstance(n, ast.Assign) else [n.target]
            if any(isinstance(t, ast.Name) and t.id == p for t in tg):
                ctx.violation('C05.d', 'clk-param-rebound', 'the cycle count is modified: `%s`' % norm(n), where)
    # nothing computed once per clk() call may flow into the per-edge routine (clk(n) must equal n x clk(1))
    for c in ast.walk(lp):
        if isinstance(c, ast.Call) and is_call_to(c, '_clk_cycle'):
            dyn = [norm(a) for a in list(c.args) + [k.value for k in c.keywords] if not isinstance(a, ast.Constant)]
            if dyn:
                ctx.violation('C05.d', 'clk-per-call-state', 'the edge routine receives values computed once per clk() call (%s): a run split into several clk() calls behaves differently' % dyn,
                              where, witness=dict(history='clk(2) versus clk(1); clk(1) with a clock enable that changes between the two edges'))
    okb = True
    for evs, ex in cfg_paths(lp.body):
        k = calls_on_path(evs, lambda c: is_call_to(c, '_clk_cycle'))
        if ex in ('fall', 'continue'):
            if len(k) != 1:
                ctx.violation('C05.d', 'clk-one-cycle-per-iteration', 'an iteration issues %d edge routines' % len(k), where,
                              witness=dict(cycles=1))
                okb = False
        elif ex in ('return', 'break'):
            conds = [norm(e.node) for e in evs if e.kind == 'branch']
            if not conds or not all('do_run' in c for c in conds) or k:
                ctx.violation('C05.d', 'clk-early-exit', 'clk() can stop early for a reason other than the do_run flag (conditions %s)' % conds,
                              where, witness=dict(cycles=2))
                okb = False
    if okb:
        ctx.ok('C05.d', 'clk-one-cycle-per-iteration', 'every iteration issues exactly one _clk_cycle(); only early exit is the do_run flag')


CONTROL_A = ('py4hw/logic/storage.py', 'self.q.prepare(self.value)', 'self.q.put(self.value)')


def run(ctx, sm, facts):
    ctx.rule('C05.a', 'no put/settle/settleAll on a wire, no read of .next, in the call closure of any clock()')
    ctx.rule('C05.b', 'edge routine phase order over all structured paths; complete iteration; single caller of clock()')
    ctx.rule('C05.c', 'single pending list: prepare registers in the list settleAll drains and empties; settle copies next')
    ctx.rule('C05.d', 'clk(n) issues exactly n edge routines')
    check_a(ctx, facts)
    check_b(ctx, facts)
    check_c(ctx, facts)
    check_d(ctx, facts)
    rel, old, new = CONTROL_A
    if sm.has(rel) and old in sm.text(rel):
        sm2 = sm.with_overlay({rel: sm.text(rel).replace(old, new, 1)})
        f2 = Facts(sm2, rels=[rel, BASE])
        c = f2.cls('Reg', rel)
        bad, _ = edge_phase_offenders(f2, c, c.methods['clock'])
        ctx.control('C05.a', bool(bad), 'Reg.clock writing q with put()')
    else:
        ctx.note('positive control for C05.a skipped: Reg.clock no longer contains the anchor text')
    ctx.not_decided += ['that user-written blocks outside the repository respect the discipline',
                        'idempotence of the initial propagateAll for stateful combinational blocks']
    ctx.assumptions.append('.put() receivers that cannot be typed as wires are listed, not flagged')


SELFVAL = [
    dict(name='Reg.clock uses put', file='py4hw/logic/storage.py', old='self.q.prepare(self.value)', new='self.q.put(self.value)', expect='C05.a'),
    dict(name='settleAll per driver', file=SIM,
         old='            self.clockDrivers[drv].clockAll()\n            \n        Wire.settleAll()',
         new='            self.clockDrivers[drv].clockAll()\n            Wire.settleAll()', expect='C05.b'),
    dict(name='pending list not cleared', file=BASE,
         old="        for w in Wire.prepared:\n            w.settle()\n            \n        # empty list\n        Wire.prepared = []\n    \n    def rename(self, newname):\n        del self.parent._wires[self.name]\n        self.name = newname\n        self.parent.appendWire(self)\n        \n    def reparent(self, newparent):\n        del self.parent._wires[self.name]\n        self.parent = newparent\n        newparent.appendWire(self)\n\n    def reparentAndRename(self, newparent, newname):\n        del self.parent._wires[self.name]\n        self.name = newname\n        self.parent = newparent\n        newparent.appendWire(self)\n\nclass BidirWire",
         new="        for w in Wire.prepared:\n            w.settle()\n            \n    \n    def rename(self, newname):\n        del self.parent._wires[self.name]\n        self.name = newname\n        self.parent.appendWire(self)\n        \n    def reparent(self, newparent):\n        del self.parent._wires[self.name]\n        self.parent = newparent\n        newparent.appendWire(self)\n\n    def reparentAndRename(self, newparent, newname):\n        del self.parent._wires[self.name]\n        self.name = newname\n        self.parent = newparent\n        newparent.appendWire(self)\n\nclass BidirWire",
         expect='C05.c'),
    dict(name='BidirWire uses its own pending list', file=BASE,
         old='        self.next = val & mask\n        Wire.prepared.append(self)\n        \n    def settle(self):\n        self.value = self.next\n        \n    def get(self) -> int:\n        return self.value\n    \n    def addSource(self, source):        ',
         new='        self.next = val & mask\n        self.prepared.append(self)\n        \n    def settle(self):\n        self.value = self.next\n        \n    def get(self) -> int:\n        return self.value\n    \n    def addSource(self, source):        ',
         expect='C05.c'),
    dict(name='clk runs one cycle short', file=SIM, old='for i in range(cycles):', new='for i in range(cycles - 1):', expect='C05.d'),
    dict(name='refactor: settleAll via alias and clear()', file=BASE,
         old="        for w in Wire.prepared:\n            w.settle()\n            \n        # empty list\n        Wire.prepared = []\n    \n    def rename(self, newname):",
         new="        for w in list(Wire.prepared):\n            w.settle()\n        Wire.prepared.clear()\n    \n    def rename(self, newname):",
         expect=None),
    dict(name='refactor: _clk_cycle delegates to propagateAll', file=SIM,
         old='        for obj in self.propagatables:\n            obj.propagate();\n            \n        self._notifyListeners()',
         new='        self.propagateAll()\n        self._notifyListeners()', expect=None),
]


def selfval(ctx, sm):
    from ..selfval import run_selfval
    run_selfval(ctx, sm, run, SELFVAL)
