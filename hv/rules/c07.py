"""C07 - integer arithmetic blocks compute their mathematical function.

C07.a  leaf contracts: summary(propagate) == integer operation mod 2^w(r) (grid of widths, all
       inputs; signed variants through the two's-complement primitive);
C07.b  structural compositions (Add with carry in/out, SignedAdd/Sub, Neg, Abs, Sign, SignedDiv,
       barrel shifters logical/arithmetic with constant or wire flag, rotations, leading-zero
       count, binary-to-BCD): elaborated netlist == documented function;
C07.c  definite failures in arithmetic.py;
C07.e  IntegerHelper.c2_to_signed / signed_to_c2 / signExtend == two's-complement contract.
"""
from ..leafrules import leaf_contracts, definite_failures, shared_instance_state
from ..structrules import run_specs
from .c12 import twos_complement

LEVEL_TEXT = ('Static extraction + finite-domain equivalence: leaf summaries and elaborated netlists of the arithmetic blocks versus the integer '
              'operation reduced modulo 2^w(output), over a grid of (mixed) widths and all inputs for small widths.')
LEAVES = ['AddCarryIn', 'Sub', 'SubBorrowIn', 'Mul', 'SignedMul', 'Div', 'Mod', 'SignExtend', 'ZeroExtend',
          'ShiftLeftConstant', 'ShiftRightConstant', 'RotateLeftConstant', 'RotateRightConstant']


def run(ctx, sm, facts):
    ctx.rule('C07.a', 'leaf propagate() summaries == integer operation mod 2^w(r)')
    ctx.rule('C07.b', 'elaborated netlists of the arithmetic compositions == documented function')
    ctx.rule('C07.c', 'no undefined name / never-assigned attribute in arithmetic.py')
    ctx.rule('C07.e', "two's-complement helpers == contract")
    leaf_contracts(ctx, facts, 'C07.a', LEAVES, ctx.tier, ctx.seed, 12)
    run_specs(ctx, facts, 'C07', 'C07.b', ctx.tier, ctx.seed, floor=14)
    definite_failures(ctx, facts, sm, 'C07.c', ['py4hw/logic/arithmetic.py'],
                      class_filter=lambda n: n not in ('Counter', 'ModuloCounter', 'StepUpCounter'))
    twos_complement(ctx, facts, 'C07.e')
    ctx.rule('C07.g', 'instance isolation in arithmetic.py: no mutable default / class-level container / memoised method carries state between instances')
    shared_instance_state(ctx, facts, 'C07.g', ['py4hw/logic/arithmetic.py'])
    ctx.not_decided += ['widths above the grid bound', 'division/modulo by zero (documented as unspecified)']
    ctx.assumptions += ['documented functions transcribed in hv/specs.py and hv/contracts.py', 'elaborator and summariser faithful']
