"""C12 - number-format helpers (work in progress: two's-complement clause shared with C07)."""
import ast

from ..ireval import Cfg, ev, EvalError, Nondet
from ..summ import Summariser, NotSummarisable, Env, show

HELPER = 'py4hw/helper.py'


def fn_summary(facts, fn, params):
    """summary of a pure integer function: IR of its return value over ('var', p) parameters"""
    S = Summariser(facts, None, ports={})
    bind = {p: ('var', p) for p in params}
    s = S.method(fn, bind=bind)
    return s.ret


def twos_complement(ctx, facts, rule):
    ih = facts.cls('IntegerHelper', HELPER, required=False)
    if ih is None:
        ctx.error(rule, 'anchor IntegerHelper not found')
        return
    def sgn(v, w):
        v &= (1 << w) - 1
        return v - (1 << w) if (v >> (w - 1)) & 1 else v
    cases = [('IntegerHelper.c2_to_signed', ih.methods.get('c2_to_signed'), ['v', 'w'], lambda v, w: sgn(v, w),
              lambda: ((v, w) for w in range(1, 7) for v in list(range(1 << w)) + [(1 << w) + 1, (1 << (w + 1)) - 1])),
             ('IntegerHelper.signed_to_c2', ih.methods.get('signed_to_c2'), ['v', 'w'], lambda v, w: v % (1 << w),
              lambda: ((v, w) for w in range(1, 7) for v in range(-(1 << w), 1 << w))),
             ('signExtend', facts.func(HELPER, 'signExtend', required=False), ['v', 'w', 'nw'], lambda v, w, nw: sgn(v, w) % (1 << nw),
              lambda: ((v, w, nw) for w in range(1, 5) for nw in range(w, w + 4) for v in range(1 << w)))]
    for name, fn, params, ref, dom in cases:
        if fn is None:
            ctx.error(rule, 'anchor %s not found' % name)
            continue
        where = '%s:%s' % (HELPER, name)
        try:
            ret = fn_summary(facts, fn, params)
        except NotSummarisable as e:
            ctx.error(rule, '%s not summarisable: %s' % (name, e))
            continue
        if ret is None:
            ctx.violation(rule, name, '%s returns nothing on some path' % name, where)
            continue
        bad = None
        n = 0
        for args in dom():
            env = dict(zip(params, args))
            try:
                got = ev(ret, Cfg(), env)
            except (EvalError, Nondet) as e:
                bad = dict(arguments=env, error=str(e))
                break
            n += 1
            if got != ref(*args):
                bad = dict(arguments=env, returned=got, expected=ref(*args))
                break
        if bad:
            ctx.violation(rule, name, '%s does not implement the two\'s-complement conversion' % name, where, witness=bad)
        else:
            ctx.ok(rule, name, '%d argument tuples (all values of widths 1..6) agree; summary: %s' % (n, show(ret)[:120]), grade='bounded')
            ctx.sample(dict(rule=rule, function=name, summary=show(ret)[:160], evaluations=n))
