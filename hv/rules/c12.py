"""C12 - number-format helpers (work in progress: two's-complement clause shared with C07)."""
import ast

from ..ireval import Cfg, ev, EvalError, Nondet
from ..summ import Summariser, NotSummarisable, Env, show

HELPER = 'py4hw/helper.py'


def fn_summary(facts, fn, params):
    """summary of a pure integer function: IR of its return value over ('var', p) parameters"""
    S = Summariser(facts, None, ports={})
    bind = {p: ('var', p) for p in params}
    s = S.method(fn, bind=bind)
    return s.ret


def twos_complement(ctx, facts, rule):
    ih = facts.cls('IntegerHelper', HELPER, required=False)
    if ih is None:
        ctx.error(rule, 'anchor IntegerHelper not found')
        return
    def sgn(v, w):
        v &= (1 << w) - 1
        return v - (1 << w) if (v >> (w - 1)) & 1 else v
    cases = [('IntegerHelper.c2_to_signed', ih.methods.get('c2_to_signed'), ['v', 'w'], lambda v, w: sgn(v, w),
              lambda: ((v, w) for w in range(1, 7) for v in list(range(1 << w)) + [(1 << w) + 1, (1 << (w + 1)) - 1])),
             ('IntegerHelper.signed_to_c2', ih.methods.get('signed_to_c2'), ['v', 'w'], lambda v, w: v % (1 << w),
              lambda: ((v, w) for w in range(1, 7) for v in range(-(1 << w), 1 << w))),
             ('signExtend', facts.func(HELPER, 'signExtend', required=False), ['v', 'w', 'nw'], lambda v, w, nw: sgn(v, w) % (1 << nw),
              # "converts a signed or unsigned value": negative Python integers and values with bits above w are in the domain (the low w bits count)
              lambda: ((v, w, nw) for w in range(1, 5) for nw in range(w, w + 4) for v in range(-(1 << w) - 1, (1 << (w + 1)) + 2)))]
    for name, fn, params, ref, dom in cases:
        if fn is None:
            ctx.error(rule, 'anchor %s not found' % name)
            continue
        where = '%s:%s' % (HELPER, name)
        try:
            ret = fn_summary(facts, fn, params)
        except NotSummarisable as e:
            ctx.error(rule, '%s not summarisable: %s' % (name, e))
            continue
        if ret is None:
            ctx.violation(rule, name, '%s returns nothing on some path' % name, where)
            continue
        bad = None
        n = 0
        for args in dom():
            env = dict(zip(params, args))
            try:
                got = ev(ret, Cfg(), env)
            except (EvalError, Nondet) as e:
                bad = dict(arguments=env, error=str(e))
                break
            n += 1
            if got != ref(*args):
                bad = dict(arguments=env, returned=got, expected=ref(*args))
                break
        if bad:
            ctx.violation(rule, name, '%s does not implement the two\'s-complement conversion' % name, where, witness=bad)
        else:
            ctx.ok(rule, name, '%d argument tuples (all values of widths 1..6) agree; summary: %s' % (n, show(ret)[:120]), grade='bounded')
            ctx.sample(dict(rule=rule, function=name, summary=show(ret)[:160], evaluations=n))


# ---------------------------------------------------------------------------------------------
# C12.b sibling agreement of the hp / sp / dp variants
FMT = {'hp': (5, 10), 'sp': (8, 23), 'dp': (11, 52)}


def roles(fmt, v):
    """possible format roles of an integer constant in a function written for format fmt"""
    E, M = FMT[fmt]
    bias = (1 << (E - 1)) - 1
    tab = [(E + M, 'SIGNPOS'), (M, 'M'), (M - 1, 'M-1'), (M + 1, 'M+1'), ((1 << E) - 1, 'EMAX'), (bias, 'BIAS'), (-bias, '-BIAS'), (bias + 1, 'BIAS+1'),
           (-(bias + 1), '-(BIAS+1)'), (1 - bias, 'EMIN'), ((1 << M) - 1, 'MMASK'), (1 << M, 'HIDDEN'), (1 << (M - 1), 'QNAN'), ((1 << (M - 1)) - 1, 'QNAN-1'),
           (E, 'E'), (bias - 1, 'BIAS-1'), (E + M + 1, 'WIDTH'), (-(bias) - 1 + 1, '-BIAS'), (1 << E, '2^E'), ((1 << (E + M)) - 1, 'ABSMASK'), (M + 2, 'M+2'),
           (-bias - M, 'EMIN-M-1+1'), (1 - bias - M, 'EMIN-M')]
    return {n for val, n in tab if val == v}


def const_value(n):
    if isinstance(n, ast.Constant) and isinstance(n.value, int) and not isinstance(n.value, bool):
        return n.value
    if isinstance(n, ast.UnaryOp) and isinstance(n.op, ast.USub) and isinstance(n.operand, ast.Constant) and isinstance(n.operand.value, int):
        return -n.operand.value
    return None


def rename(s, fmt):
    return s.replace('_' + fmt, '_FMT').replace(fmt + '_', 'FMT_')


def strip_fn(fn):
    body = [s for s in fn.body if not (isinstance(s, ast.Expr) and isinstance(s.value, ast.Constant) and isinstance(s.value.value, str))]
    return body


def mentions_nan(node):
    return any(isinstance(x, ast.Attribute) and x.attr == 'isnan' or isinstance(x, ast.Name) and 'nan' in x.id.lower() for x in ast.walk(node))


def cmp_nodes(a, b, fa, fb, path, out):
    """parallel walk; appends (path, text a, text b) for the first difference on each branch"""
    if len(out) >= 3:
        return
    va, vb = const_value(a), const_value(b)
    if va is not None and vb is not None:
        if va == vb and abs(va) <= 2:
            return
        ra, rb = roles(fa, va), roles(fb, vb)
        if ra & rb:
            return
        if va == vb and not ra and not rb:
            return
        out.append((path, ast.unparse(a) + (' [%s]' % '/'.join(sorted(ra)) if ra else ''), ast.unparse(b) + (' [%s]' % '/'.join(sorted(rb)) if rb else '')))
        return
    if type(a) is not type(b):
        out.append((path, ast.unparse(a)[:70] if isinstance(a, ast.AST) else repr(a), ast.unparse(b)[:70] if isinstance(b, ast.AST) else repr(b)))
        return
    if isinstance(a, ast.If) and mentions_nan(a.test) and mentions_nan(b.test):
        return          # NaN payloads are excluded by the property
    if isinstance(a, ast.Constant):
        if isinstance(a.value, str) and isinstance(b.value, str):
            return
        if a.value != b.value:
            out.append((path, repr(a.value), repr(b.value)))
        return
    for f in a._fields:
        x, y = getattr(a, f, None), getattr(b, f, None)
        if f in ('ctx', 'type_comment', 'lineno', 'kind'):
            continue
        if isinstance(x, list) and isinstance(y, list):
            if f == 'body' or f == 'orelse':
                x = [s for s in x if not (isinstance(s, ast.Expr) and isinstance(s.value, ast.Constant))]
                y = [s for s in y if not (isinstance(s, ast.Expr) and isinstance(s.value, ast.Constant))]
            if len(x) != len(y):
                out.append((path + '.' + f, '%d statements: %s' % (len(x), '; '.join(ast.unparse(s)[:40] for s in x[:3])), '%d statements: %s' % (len(y), '; '.join(ast.unparse(s)[:40] for s in y[:3]))))
                continue
            for i, (p, q) in enumerate(zip(x, y)):
                if isinstance(p, ast.AST) and isinstance(q, ast.AST):
                    cmp_nodes(p, q, fa, fb, '%s.%s[%d]' % (path, f, i), out)
        elif isinstance(x, ast.AST) and isinstance(y, ast.AST):
            cmp_nodes(x, y, fa, fb, path + '.' + f, out)
        elif isinstance(x, str) and isinstance(y, str):
            if rename(x, fa) != rename(y, fb):
                out.append((path + '.' + f, x, y))
        elif x != y and not (isinstance(x, ast.AST) or isinstance(y, ast.AST)):
            out.append((path + '.' + f, repr(x), repr(y)))
        elif (x is None) != (y is None):
            out.append((path + '.' + f, repr(x), repr(y)))


SIBLINGS = [('FloatingPointHelper', 'sp_to_ieee754_parts', 'dp_to_ieee754_parts', 'sp', 'dp'),
            ('FloatingPointHelper', 'ieee754_parts_to_sp', 'ieee754_parts_to_dp', 'sp', 'dp'),
            ('FloatingPointHelper', 'ieee754_to_sp', 'ieee754_to_dp', 'sp', 'dp'),
            ('FloatingPointHelper', 'sp_to_ieee754', 'dp_to_ieee754', 'sp', 'dp'),
            ('FloatingPointHelper', 'unpack_ieee754_sp_parts', 'unpack_ieee754_dp_parts', 'sp', 'dp'),
            ('FPNum', 'from_ieee754_sp', 'from_ieee754_dp', 'sp', 'dp'),
            ('FPNum', 'from_ieee754_hp', 'from_ieee754_sp', 'hp', 'sp'),
            ('FPNum', 'unpack_ieee754_hp_parts', 'unpack_ieee754_sp_parts', 'hp', 'sp'),
            ('FPNum', 'unpack_ieee754_sp_parts', 'unpack_ieee754_dp_parts', 'sp', 'dp'),
            ('FPNum', 'pack_ieee754_sp_parts', 'pack_ieee754_dp_parts', 'sp', 'dp'),
            ('FPNum', 'pack_ieee754_hp_parts', 'pack_ieee754_sp_parts', 'hp', 'sp')]


def siblings(ctx, facts):
    n = 0
    for cn, fa_name, fb_name, fa, fb in SIBLINGS:
        c = facts.cls(cn, HELPER, required=False)
        if c is None or fa_name not in c.methods or fb_name not in c.methods:
            ctx.error('C12.b', 'anchor %s.%s / %s not found' % (cn, fa_name, fb_name))
            continue
        n += 1
        A, B = c.methods[fa_name], c.methods[fb_name]
        out = []
        ma = ast.Module(body=strip_fn(A), type_ignores=[])
        mb = ast.Module(body=strip_fn(B), type_ignores=[])
        cmp_nodes(ma, mb, fa, fb, '', out)
        key = '%s.%s~%s' % (cn, fa_name, fb_name)
        if out:
            for path, ta, tb in out[:2]:
                ctx.violation('C12.b', '%s:%s' % (key, ta[:40]), 'the %s and %s variants of one conversion disagree beyond their format constants: `%s` versus `%s`' % (fa, fb, ta, tb),
                              '%s:%s.%s' % (HELPER, cn, fa_name), witness=dict(position=path, **{fa: ta, fb: tb}))
        else:
            ctx.ok('C12.b', key, 'identical after mapping constants to format roles (sign position, exponent mask, bias, minimum exponent, hidden bit, mantissa mask)')
    ctx.floor('C12.b', 'sibling pairs', n, 9)


def exactness(ctx, facts):
    """C12.e: the exact operations of FPNum never consult the precision limit nor shift bits out"""
    c = facts.cls('FPNum', HELPER, required=False)
    if c is None:
        ctx.error('C12.e', 'anchor FPNum not found')
        return
    for mn in ('add', 'sub', 'mul', 'compare', 'neg', 'abs', 'increase_exponent', 'increase_precision'):
        m = c.methods.get(mn)
        if m is None:
            ctx.error('C12.e', 'anchor FPNum.%s not found' % mn)
            continue
        lossy = []
        for x in ast.walk(m):
            if isinstance(x, ast.Attribute) and x.attr == 'max_prec':
                lossy.append('consults max_prec')
            if isinstance(x, ast.BinOp) and isinstance(x.op, (ast.RShift, ast.FloorDiv, ast.Div)):
                lossy.append('`%s`' % ast.unparse(x)[:40])
            if isinstance(x, ast.AugAssign) and isinstance(x.op, (ast.RShift, ast.FloorDiv, ast.Div)):
                lossy.append('`%s`' % ast.unparse(x)[:40])
            if isinstance(x, ast.Call) and isinstance(x.func, ast.Attribute) and x.func.attr in ('reducePrecision', 'reducePrecisionWithRounding', 'reduceExponentPrecision'):
                lossy.append('calls %s' % x.func.attr)
            if isinstance(x, ast.Call) and isinstance(x.func, ast.Name) and x.func.id in ('float', 'round', 'int'):
                lossy.append('converts through %s()' % x.func.id)
        if lossy:
            ctx.violation('C12.e', 'FPNum.%s' % mn, 'an exact operation drops bits: %s' % ', '.join(sorted(set(lossy))), '%s:FPNum.%s' % (HELPER, mn),
                          witness=dict(note='chained operations whose combined precision exceeds the limit lose low-order bits'))
        else:
            ctx.ok('C12.e', 'FPNum.%s' % mn, 'no right shift, division, rounding or precision limit: the result keeps every bit')


def ordering(ctx, facts):
    """C12.f: FPNum.compare orders the rationals the operands denote.
    (1) mantissas are not normalised (a zero keeps whatever exponent it had), so no ordering decision may be
        control-dependent on a test of the exponent or precision fields: those may only steer the alignment;
        mantissas are compared only after both operands can be aligned in exponent and precision;
    (2) decision table: with finite operands of opposite sign and zero mantissas every feasible path returns 0
        (+0 and -0 denote the same rational); with equal signs and equal aligned mantissas it returns 0."""
    from ..cfg import fn_paths
    from ..dectab import ev as dev, Unknown, Crash
    from ..srcmap import norm
    c = facts.cls('FPNum', HELPER, required=False)
    fn = c.methods.get('compare') if c is not None else None
    if fn is None:
        ctx.error('C12.f', 'anchor FPNum.compare not found')
        return
    where = '%s:FPNum.compare' % HELPER
    other = fn.args.args[1].arg if len(fn.args.args) > 1 else 'bref'
    # ---- (1) control dependence
    ret_names = set()
    for n in ast.walk(fn):
        if isinstance(n, ast.Return) and n.value is not None:
            for x in ast.walk(n.value):
                if isinstance(x, ast.Name):
                    ret_names.add(x.id)

    def deciding(n):
        if isinstance(n, ast.Return):
            return True
        if isinstance(n, ast.Assign):
            return any(isinstance(t, ast.Name) and t.id in ret_names for t in n.targets)
        return False

    def mentions_scale(test):
        return sorted({x.attr for x in ast.walk(test) if isinstance(x, ast.Attribute) and x.attr in ('e', 'p')})
    bad = []

    def walk(stmts, tests):
        for st in stmts:
            if deciding(st):
                for t in tests:
                    f = mentions_scale(t)
                    if f:
                        bad.append((norm(st)[:50], norm(t)[:60], f))
            if isinstance(st, ast.If):
                walk(st.body, tests + [st.test])
                walk(st.orelse, tests + [st.test])
            elif isinstance(st, (ast.For, ast.While)):
                walk(st.body, tests + ([st.test] if isinstance(st, ast.While) else []))
                walk(st.orelse, tests)
            elif isinstance(st, ast.Try):
                walk(st.body, tests)
                for h in st.handlers:
                    walk(h.body, tests)
                walk(st.finalbody, tests)
            elif isinstance(st, ast.With):
                walk(st.body, tests)
    walk(fn.body, [])
    compares_m = any(isinstance(x, ast.Compare) and any(isinstance(y, ast.Attribute) and y.attr == 'm' for y in ast.walk(x)) for x in ast.walk(fn))
    if bad:
        st, t, f = bad[0]
        ctx.violation('C12.f', 'FPNum.compare:decided-on-scale', 'the order is decided under a test of the %s field (`%s` governs `%s`): mantissas are not normalised, a zero or a denormalised value keeps '
                      'any exponent' % ('/'.join(f), t, st), where, witness=dict(operands='FPNum(0.0) against FPNum(0.125): zero carries exponent -1, 0.125 exponent -3'))
    elif compares_m:
        aligned = {}
        for x in ast.walk(fn):
            if isinstance(x, ast.Call) and isinstance(x.func, ast.Attribute) and x.func.attr in ('increase_exponent', 'increase_precision', 'adjust_sem', 'adjust_semp'):
                aligned.setdefault(x.func.attr, set()).add(norm(x.func.value))
        exp_ok = len(aligned.get('increase_exponent', ())) >= 2 or aligned.get('adjust_sem') or aligned.get('adjust_semp')
        prec_ok = len(aligned.get('increase_precision', ())) >= 2 or aligned.get('adjust_semp')
        if exp_ok and prec_ok:
            ctx.ok('C12.f', 'FPNum.compare:aligned', 'mantissas are compared after either operand can be aligned in exponent and precision; no ordering decision depends on the e / p fields')
        else:
            ctx.violation('C12.f', 'FPNum.compare:not-aligned', 'mantissas are compared although %s cannot be aligned on both operands' % ('the exponent' if not exp_ok else 'the precision'), where,
                          witness=dict(alignment_calls={k: sorted(v) for k, v in aligned.items()}))
    else:
        ctx.ok('C12.f', 'FPNum.compare:aligned', 'compare() does not compare mantissa fields directly (rewritten): the alignment clause is not evaluable', grade='refused')
    # ---- (2) decision table
    scen = [('opposite-sign zeros', dict(s1=-1, s2=1, m1=0, m2=0), 0),
            ('opposite-sign zeros (reversed)', dict(s1=1, s2=-1, m1=0, m2=0), 0),
            ('equal values, both negative', dict(s1=-1, s2=-1, m1=5, m2=5), 0),
            ('equal values, both positive', dict(s1=1, s2=1, m1=5, m2=5), 0),
            ('negative against positive', dict(s1=-1, s2=1, m1=5, m2=3), -1),
            ('positive against negative', dict(s1=1, s2=-1, m1=3, m2=5), 1),
            ('both negative, larger magnitude first', dict(s1=-1, s2=-1, m1=7, m2=3), -1),
            ('both positive, larger magnitude first', dict(s1=1, s2=1, m1=7, m2=3), 1)]
    # local objects built from the operands: name -> which operand
    objs = {'self': 1, other: 2}
    for n in ast.walk(fn):
        if isinstance(n, ast.Assign) and len(n.targets) == 1 and isinstance(n.targets[0], ast.Name) and isinstance(n.value, ast.Call):
            srcs = {x.value.id for x in ast.walk(n.value) if isinstance(x, ast.Attribute) and isinstance(x.value, ast.Name) and x.value.id in ('self', other)}
            if len(srcs) == 1:
                objs[n.targets[0].id] = 1 if 'self' in srcs else 2
    # aliases: x = a ; t = (a, b) ; a2, b2 = t  (helper extraction leaves such chains behind)
    tuples = {}
    for _ in range(4):
        for n in ast.walk(fn):
            if not (isinstance(n, ast.Assign) and len(n.targets) == 1):
                continue
            t, v = n.targets[0], n.value
            if isinstance(t, ast.Name) and isinstance(v, ast.Name) and v.id in objs:
                objs[t.id] = objs[v.id]
            elif isinstance(t, ast.Name) and isinstance(v, ast.Tuple) and all(isinstance(x, ast.Name) and x.id in objs for x in v.elts):
                tuples[t.id] = [objs[x.id] for x in v.elts]
            elif isinstance(t, ast.Tuple) and all(isinstance(x, ast.Name) for x in t.elts):
                src = [objs.get(x.id) for x in v.elts] if isinstance(v, ast.Tuple) and all(isinstance(x, ast.Name) for x in v.elts) else tuples.get(v.id) if isinstance(v, ast.Name) else None
                if src and len(src) == len(t.elts) and all(k is not None for k in src):
                    for x, k in zip(t.elts, src):
                        objs[x.id] = k
    paths = fn_paths(fn)
    for label, sc, expect in scen:
        base = {}
        for nm, k in objs.items():
            base['%s.s' % nm] = sc['s%d' % k]
            base['%s.m' % nm] = sc['m%d' % k]
            base['%s.nan' % nm] = False
            base['%s.infinity' % nm] = False
        results = set()
        unknown = False
        for evs, ex in paths:
            atoms = dict(base)
            feasible = True
            rv = None
            for e in evs:
                if e.kind == 'branch':
                    try:
                        v = bool(dev(e.node, atoms))
                    except (Unknown, Crash):
                        continue
                    if v != e.val:
                        feasible = False
                        break
                elif e.kind == 'stmt' and isinstance(e.node, ast.Assign) and len(e.node.targets) == 1 and isinstance(e.node.targets[0], ast.Name):
                    try:
                        atoms[e.node.targets[0].id] = dev(e.node.value, atoms)
                    except (Unknown, Crash):
                        atoms.pop(e.node.targets[0].id, None)
                elif e.kind == 'return':
                    try:
                        rv = dev(e.node.value, atoms) if e.node.value is not None else None
                    except (Unknown, Crash):
                        rv = 'unknown'
            if not feasible or ex != 'return':
                continue
            if rv == 'unknown':
                unknown = True
            else:
                results.add(rv)
        wrong = sorted(r for r in results if r != expect)
        if wrong:
            ctx.violation('C12.f', 'FPNum.compare:%s' % label, 'compare() returns %s for %s (expected %d: the operands denote %s)' %
                          (wrong, label, expect, 'the same rational' if expect == 0 else 'rationals in that order'), where,
                          witness=dict(operand_fields=sc, note='sign fields s1/s2, aligned mantissas m1/m2; finite operands'))
        elif unknown or not results:
            ctx.ok('C12.f', 'FPNum.compare:%s' % label, 'return value not evaluable from the sign / mantissa fields (rewritten code)', grade='refused')
        else:
            ctx.ok('C12.f', 'FPNum.compare:%s' % label, 'every feasible path returns %d' % expect)


def operand_purity(ctx, facts, rule='C12.i', classes=('FPNum', 'FixedPoint'), floor=15):
    """C12.i: the value-returning operations of FPNum / FixedPoint are observers of their operands.  A method that returns a value must not store into, or call a
    mutating method on, anything that may alias `self` or a parameter; it works on copies (constructor call, copy(), result of another value-returning method).
    Mutators = methods that store into self.* or call a mutator on self (fix-point).  Aliasing is flow-insensitive: a local is an alias as soon as one
    assignment binds it to self / a parameter / another alias."""
    n = 0
    for cname in classes:
        c = facts.cls(cname, HELPER, required=False)
        if c is None:
            ctx.error(rule, 'anchor class %s not found' % cname)
            continue
        mut = set()
        changed = True
        while changed:
            changed = False
            for mn, m in c.methods.items():
                if mn in mut:
                    continue
                if not m.args.args:
                    continue
                sn = m.args.args[0].arg
                hit = any(isinstance(x, (ast.Assign, ast.AugAssign)) and any(
                    isinstance(t, ast.Attribute) and isinstance(t.value, ast.Name) and t.value.id == sn
                    for t in (x.targets if isinstance(x, ast.Assign) else [x.target])) for x in ast.walk(m)) or any(
                    isinstance(x, ast.Call) and isinstance(x.func, ast.Attribute) and x.func.attr in mut and isinstance(x.func.value, ast.Name) and x.func.value.id == sn
                    for x in ast.walk(m))
                if hit:
                    mut.add(mn)
                    changed = True
        for mn, m in c.methods.items():
            if mn in mut or mn.startswith('__') or not m.args.args or m.args.args[0].arg != 'self':
                continue
            if not any(isinstance(r, ast.Return) and r.value is not None and not (isinstance(r.value, ast.Constant) and r.value.value is None) for r in ast.walk(m)):
                continue
            n += 1
            params = {a.arg for a in m.args.args}
            alias = set(params)
            grew = True
            while grew:
                grew = False
                for x in ast.walk(m):
                    if isinstance(x, ast.Assign):
                        v = x.value
                        vs = [v] if not isinstance(v, ast.IfExp) else [v.body, v.orelse]
                        al = any(isinstance(y, ast.Name) and y.id in alias for y in vs)
                        for t in x.targets:
                            for tt in ([t] if not isinstance(t, ast.Tuple) else t.elts):
                                if isinstance(tt, ast.Name) and al and tt.id not in alias:
                                    alias.add(tt.id)
                                    grew = True
            bad = None
            for x in ast.walk(m):
                if isinstance(x, (ast.Assign, ast.AugAssign)):
                    for t in (x.targets if isinstance(x, ast.Assign) else [x.target]):
                        if isinstance(t, ast.Attribute) and isinstance(t.value, ast.Name) and t.value.id in alias:
                            bad = 'stores into `%s`' % norm(t)
                if isinstance(x, ast.Call) and isinstance(x.func, ast.Attribute) and x.func.attr in mut and isinstance(x.func.value, ast.Name) and x.func.value.id in alias:
                    bad = 'calls the mutating method `%s` on `%s`, which may be the caller\'s operand' % (x.func.attr, x.func.value.id)
                if bad:
                    break
            key = '%s.%s' % (cname, mn)
            if bad:
                ctx.violation(rule, key, '%s() returns a value but %s: the operand denotes / converts differently after the operation' % (key, bad), '%s:%s' % (HELPER, key),
                              witness=dict(history='x = %s(...); y = x.%s(other); x.components() / x.convert(..) before and after differ' % (cname, mn)))
            else:
                ctx.ok(rule, key, 'works on copies: no store into / mutating call on self, a parameter or an alias of them')
    ctx.floor(rule, 'value-returning operations analysed', n, floor)


def float_ranges(ctx, facts):
    """C12.j: interval analysis (hv/fprange.py) of the functions that rebuild a Python float from IEEE-754 fields: over every partition of the
    field domain (sign; exponent field zero / non-zero below the reserved maximum; fraction zero / non-zero) no floating-point intermediate
    may leave the range of a double while the exact result is representable (overflow to inf / OverflowError, or a non-zero value flushed to 0)."""
    from ..fprange import RangeInterp, Iv, NotEvaluable, DBL_MAX
    fh = facts.cls('FloatingPointHelper', HELPER, required=False)
    if fh is None:
        ctx.error('C12.j', 'anchor FloatingPointHelper not found')
        return

    def resolve(call):
        f = call.func
        if isinstance(f, ast.Attribute) and isinstance(f.value, ast.Name) and f.value.id in ('FloatingPointHelper', 'self', 'cls'):
            return fh.methods.get(f.attr)
        return None
    n = 0
    for fmt, mname in (('sp', 'ieee754_parts_to_sp'), ('dp', 'ieee754_parts_to_dp')):
        fn = fh.methods.get(mname)
        if fn is None:
            ctx.error('C12.j', 'anchor FloatingPointHelper.%s not found' % mname)
            continue
        E, M = FMT[fmt]
        params = [a.arg for a in fn.args.args]
        if len(params) != 3:
            ctx.error('C12.j', '%s does not take (sign, exponent, fraction)' % mname)
            continue
        bad = None
        npart = 0
        try:
            for s in (0, 1):
                for e in ((0, 0), (1, (1 << E) - 2)):
                    for m in ((0, 0), (1, (1 << M) - 1)):
                        ri = RangeInterp(resolve)
                        rets = ri.function(fn, dict(zip(params, (Iv(s), Iv(*e), Iv(*m)))))
                        npart += 1
                        if not rets:
                            raise NotEvaluable('no return value')
                        final_ok = all(r.absmax() <= DBL_MAX for r in rets)
                        if ri.findings and final_ok:
                            k, txt, iv = ri.findings[0]
                            bad = dict(partition=dict(sign=s, exponent_field='%d..%d' % e, fraction_field='%d..%d' % m), intermediate=txt, range_of_intermediate=iv, kind=k,
                                       range_of_exact_result=repr(rets[0]))
                            break
                    if bad:
                        break
                if bad:
                    break
        except NotEvaluable as ex:
            ctx.ok('C12.j', mname, 'outside the expression language of the interval analysis (%s): not decided' % str(ex)[:60], grade='refused')
            continue
        n += 1
        where = '%s:FloatingPointHelper.%s' % (HELPER, mname)
        if bad:
            ctx.violation('C12.j', mname, '%s: a floating-point intermediate can %s although the exact result is a representable double: `%s` ranges over %s' %
                          (mname, 'exceed the largest double (inf / OverflowError)' if bad['kind'] == 'overflow' else 'fall below the smallest subnormal (flushed to 0)',
                           bad['intermediate'], bad['range_of_intermediate']), where, witness=bad)
        else:
            ctx.ok('C12.j', mname, '%d partitions of (sign, exponent, fraction): every floating-point intermediate stays within [2^-1074, DBL_MAX]' % npart)
    ctx.floor('C12.j', 'decoders analysed', n, 0)


def float_paths(ctx, facts):
    """C12.h: shape conditions of the float conversions that the exactness clauses of the statement need:
    - FPNum.to_float keeps the sign of zero: the sign field is applied in a numeric type that has a signed zero (Decimal / float /
      copysign), never as an integer factor or through Fraction;
    - the exponent of a float is extracted exactly (comparison loops, frexp, bit fields), never through a floating logarithm, whose
      rounding is off by one just below a power of two."""
    from ..srcmap import norm
    c = facts.cls('FPNum', HELPER, required=False)
    tf = c.methods.get('to_float') if c is not None else None
    if tf is None:
        ctx.error('C12.h', 'anchor FPNum.to_float not found')
    else:
        bad = []
        for n in ast.walk(tf):
            if isinstance(n, ast.Name) and n.id == 'Fraction':
                bad.append('the value goes through Fraction (no signed zero)')
            if isinstance(n, ast.BinOp) and isinstance(n.op, ast.Mult):
                for x, y in ((n.left, n.right), (n.right, n.left)):
                    if isinstance(x, ast.Attribute) and x.attr == 's' and isinstance(x.value, ast.Name) and x.value.id == 'self':
                        floaty = (isinstance(y, ast.Call) and norm(y.func) in ('float', 'Decimal', 'math.copysign', 'math.ldexp')) or norm(y) in ('math.inf', 'math.nan') \
                            or (isinstance(y, ast.Constant) and isinstance(y.value, float))
                        if not floaty and not isinstance(y, ast.Name):
                            bad.append('the sign is applied as an integer factor: `%s`' % norm(n)[:50])
        if bad:
            ctx.violation('C12.h', 'FPNum.to_float:signed-zero', 'to_float() cannot return -0.0: %s' % sorted(set(bad))[0], '%s:FPNum.to_float' % HELPER,
                          witness=dict(value='FPNum(-0.0), FPNum(0x80000000, "sp"): the platform encoding is -0.0, the helper returns +0.0'))
        else:
            ctx.ok('C12.h', 'FPNum.to_float:signed-zero', 'the sign field is applied in Decimal / float arithmetic (signed zero preserved)')
    fh = facts.cls('FloatingPointHelper', HELPER, required=False)
    n = 0
    for k in ([fh] if fh is not None else []) + ([c] if c is not None else []):
        for mn, m in k.methods.items():
            logs = [norm(x)[:40] for x in ast.walk(m) if isinstance(x, ast.Call) and norm(x.func) in ('math.log2', 'math.log', 'math.log10', 'np.log2', 'numpy.log2')]
            # only where the result feeds an exponent (floor / int / ceil of the logarithm)
            expo = [norm(x)[:60] for x in ast.walk(m) if isinstance(x, ast.Call) and norm(x.func) in ('int', 'math.floor', 'math.ceil', 'round')
                    and any(isinstance(y, ast.Call) and norm(y.func) in ('math.log2', 'math.log', 'math.log10') for y in ast.walk(x))]
            n += 1
            if expo:
                ctx.violation('C12.h', '%s.%s:exponent-by-logarithm' % (k.name, mn), 'the binary exponent is taken from a floating logarithm (`%s`): log2 of a value a few ulp below 2**k rounds to k, '
                              'so the exponent is one too large there' % expo[0], '%s:%s.%s' % (HELPER, k.name, mn),
                              witness=dict(value='math.nextafter(2.0**k, 0) for large k; sys.float_info.max'))
    if n:
        if not any(v['rule'] == 'C12.h' and 'exponent-by-logarithm' in v['key'] for v in ctx.violations):
            ctx.ok('C12.h', 'exact-exponent', '%d conversion methods: no binary exponent is derived from a floating logarithm' % n)


def run(ctx, sm, facts):
    from ..leafrules import definite_failures
    from .c14 import helper_clause
    ctx.rule('C12.g', 'FixedPoint.add / sub / mult: extracted encoding function == exact arithmetic over a grid of formats and all operand pairs (shared with C14.d)')
    helper_clause(ctx, facts, 'C12.g')
    ctx.rule('C12.k', 'no memoised conversion / shared mutable state in helper.py (equal-comparing arguments such as 0.0 and -0.0 must not share a result)')
    from ..leafrules import shared_instance_state
    shared_instance_state(ctx, facts, 'C12.k', [HELPER])
    ctx.rule('C12.j', 'interval analysis of the field-to-float decoders: no float intermediate leaves the double range while the result is representable')
    float_ranges(ctx, facts)
    ctx.rule('C12.i', 'operand purity: value-returning operations of FPNum / FixedPoint never mutate self, a parameter or an alias of them')
    operand_purity(ctx, facts)
    ctx.rule('C12.h', 'float conversion shape: signed zero preserved by to_float; exponents never from a floating logarithm')
    float_paths(ctx, facts)
    ctx.rule('C12.f', 'FPNum.compare: ordering decided on aligned mantissas and signs only; decision table over sign / zero scenarios')
    ordering(ctx, facts)
    ctx.rule('C12.b', 'hp/sp/dp variants of each conversion agree after mapping constants to format roles (NaN payloads excluded)')
    ctx.rule('C12.c', "two's-complement helpers == contract over all values of widths 1..6")
    ctx.rule('C12.d', 'no undefined name / never-assigned attribute in the number-format helper classes')
    ctx.rule('C12.e', 'exact FPNum operations never drop bits')
    siblings(ctx, facts)
    twos_complement(ctx, facts, 'C12.c')
    exactness(ctx, facts)
    definite_failures(ctx, facts, sm, 'C12.d', [HELPER], class_filter=lambda n: n in ('FPNum', 'FloatingPointHelper', 'IntegerHelper', 'FixedPoint'))
    ctx.not_decided += ['round-trip over all bit patterns and agreement with the platform encoder (numeric run-time facts)', 'rounding of float -> parts conversions',
                        'rational exactness of FPNum arithmetic as such (only the no-bit-dropped clause and the shape of compare() are decided)']


LEVEL_TEXT = ('Static clause-level rules: sibling agreement of the hp/sp/dp conversion variants under format-role normalisation, two\'s-complement helpers '
              'against their contract, no-bit-dropped shape of the exact FPNum operations, definite-failure lint. Numeric round-trip facts are not decided.')
