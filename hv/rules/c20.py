"""C20 - the hardware-in-the-loop UART command codec decodes and encodes exactly.

The decoder (CMDRequest) and the encoder (CMDResponse) are elaborated from their constructors
and stepped through the symbolic summaries of their clock() methods, inside an environment model
that speaks the ready/valid protocol (a transfer happens at an edge where ready and valid were
both 1 before the edge):

C20.a  decoder: for every command stream of the grid and every producer pacing (0, 1, 2 idle
       cycles between characters) the sequence of action pulses with their numbers equals the
       stream's meaning: 'I<n>=' -> set_index_in(n); '<v>!' -> set_v_in(v); 'O<n>?' ->
       set_index_out(n) then start_resp; 'K<n>;' -> exactly n clock pulses; each strobe lasts one
       cycle; every character offered is consumed exactly once;
C20.b  encoder: for every value, digit count and consumer pacing the characters transferred are
       '=' + the value as that many upper-case hex digits, most significant first + '!';
C20.c  structural facts of the two state machines read from the summaries: every strobe that is
       raised is lowered on every path of the following state (one-cycle pulses).
"""
import itertools
import random

from ..elab import ElabError, ElabRaise, PyExc
from ..ireval import EvalError, Nondet
from ..netlist import Design, NetError

LEVEL_TEXT = ('Static extraction + bounded co-simulation: the codec state machines are read as symbolic summaries of clock() and stepped '
              'inside ready/valid environment models over a grid of command streams, values and handshake pacings.')
REL = 'py4hw/emulation/HILWrapperUART.py'


def build_req(facts, summaries, w=16):
    D = Design(facts, summaries)
    names = ['ready', 'valid', 'c', 'index_in', 'v_in', 'index_out', 'set_index_in', 'set_v_in', 'set_index_out', 'clk_pulse', 'start_resp']
    widths = dict(c=8, index_in=w, v_in=w, index_out=w)
    ws = {n: D.wire(n, widths.get(n, 1)) for n in names}
    D.make('CMDRequest', 'req', *[ws[n] for n in names], rel=REL)
    D.prepare()
    return D, ws


def meaning(stream, w):
    """expected action events of a well-formed command stream"""
    ev = []
    temp = 0
    for ch in stream:
        if ch in 'IOK':
            temp = 0
        elif ch in '0123456789ABCDEF':
            temp = ((temp << 4) | int(ch, 16))
        elif ch == '=':
            ev.append(('set_index_in', temp & ((1 << w) - 1)))
            temp = 0
        elif ch == '!':
            ev.append(('set_v_in', temp & ((1 << w) - 1)))
            temp = 0
        elif ch == '?':
            ev.append(('set_index_out', temp & ((1 << w) - 1)))
            ev.append(('start_resp', None))
            temp = 0
        elif ch == ';':
            ev += [('clk_pulse', None)] * temp
            temp = 0
    return ev


def timer_constants(summ, attr):
    """constants a state attribute is compared with in a clock() summary"""
    out = set()

    def walk(x):
        if isinstance(x, tuple):
            if len(x) == 4 and x[0] == 'cmp':
                for a, b in ((x[2], x[3]), (x[3], x[2])):
                    if not (isinstance(b, tuple) and b[0] == 'c' and isinstance(b[1], int)):
                        continue
                    if a == ('attr', attr):
                        out.add(b[1])
                    elif isinstance(a, tuple) and a[0] == 'bin' and a[1] in '+-':       # (attr + d) == K,  (attr - d) == K,  (d + attr) == K
                        l, r = a[2], a[3]
                        if l == ('attr', attr) and r[0] == 'c' and isinstance(r[1], int):
                            out.add(b[1] - r[1] if a[1] == '+' else b[1] + r[1])
                        elif r == ('attr', attr) and l[0] == 'c' and isinstance(l[1], int) and a[1] == '+':
                            out.add(b[1] - l[1])
            for y in x:
                walk(y)
        elif isinstance(x, (list, dict)):
            for y in (x.values() if isinstance(x, dict) else x):
                walk(y)
    walk([summ.state, summ.prepares, summ.stores])
    return out


def run_decoder(facts, summaries, stream, gap, w=16, maxcycles=4000, pause_after=None, report=None):
    """pause_after=k: after the k-th character has been taken and the decoder waits again (ready, no character offered), the pause is analysed:
    one idle edge that leaves the whole state and every output unchanged is a fixpoint, so a pause of any length is equivalent to it; a state
    attribute that moves by a constant while waiting is a timer, and the run is continued from the states in which the timer meets each
    constant it is compared with (reachable by waiting long enough), so that a timeout is met whatever its length."""
    D, ws = build_req(facts, summaries, w)
    queue = list(stream)
    wait = 0
    events = []
    consumed = 0
    idle = 0
    t = 0
    strobes = {'set_index_in': 'index_in', 'set_v_in': 'v_in', 'set_index_out': 'index_out', 'start_resp': None, 'clk_pulse': None}
    last = {k: 0 for k in strobes}
    expected_pulses = sum(1 for _ in meaning(stream, w))
    while t < maxcycles:
        t += 1
        if queue and wait == 0:
            D.put(ws['valid'], 1)
            D.put(ws['c'], ord(queue[0]))
        else:
            D.put(ws['valid'], 0)
            D.put(ws['c'], 0)
        D.settle()
        transfer = D.get(ws['valid']) == 1 and D.get(ws['ready']) == 1
        if pause_after is not None and consumed == pause_after and not transfer and D.get(ws['ready']) == 1 and D.get(ws['valid']) == 0:
            pause_after = None
            leaf = D.seq[0]
            for rep in range(40):
                before = (dict(leaf.cfg.attr), dict(D.values))
                D.clock()
                D.settle()
                if D.get(ws['ready']) != 1:
                    report['left-waiting'] = True
                    break
                changed = {a: (before[0].get(a), v) for a, v in leaf.cfg.attr.items() if before[0].get(a) != v}
                wchanged = [k for k, v in D.values.items() if before[1].get(k) != v]
                if not changed and not wchanged:
                    report['fixpoint'] = report.get('fixpoint', 0) + 1
                    break
                timers = {a: nv - ov for a, (ov, nv) in changed.items() if isinstance(ov, int) and isinstance(nv, int)}
                if len(timers) != len(changed) or wchanged:
                    report['moving'] = sorted(changed) + ['wire'] * len(wchanged)
                    break
                # accelerate: jump each timer to just before the nearest constant it is compared with (reachable by waiting)
                jumped = False
                for a, dlt in timers.items():
                    cur = leaf.cfg.attr[a]
                    ks = sorted(k for k in timer_constants(leaf.csum, a) if (k - cur) * dlt > 0 and (k - cur) % dlt == 0 and abs(k - cur) > abs(dlt))
                    if dlt < 0:
                        ks.reverse()
                    if ks:
                        report.setdefault('timers', {})[a] = ks[0]
                        leaf.cfg.attr[a] = ks[0] - dlt
                        jumped = True
                if not jumped:
                    report['timers-exhausted'] = True
                    break
        D.clock()
        if transfer:
            queue.pop(0)
            consumed += 1
            wait = gap
        elif wait > 0:
            wait -= 1
        for s, val in strobes.items():
            cur = D.get(ws[s])
            if cur == 1:
                if s == 'clk_pulse':
                    if last[s] == 0:
                        events.append((s, None))
                else:
                    events.append((s, D.get(ws[val]) if val else None))
            last[s] = cur
        if not queue:
            idle += 1
            if idle > 40 + 4 * expected_pulses:
                break
    return events, consumed, len(queue)


STREAMS = ['I2=5!7!', '12!34!', 'I3=9!A!B!', 'IC=', 'KD;', 'CDCD!', 'OD?', 'I9=0C!', '89AB!CDEF!', '0123!4567!', 'I2=', 'A5!', 'I1=7F!', 'O1?', 'K3;', 'K0;', 'I0=5!I1=FF!', 'I2=O1?A5A5!', 'IA=BEEF!O3?K2;', 'K1;K2;', 'I10=1234!', 'O0?O1?']


def check_decoder(ctx, facts, tier, seed):
    summaries = {}
    where = '%s:CMDRequest.clock' % REL
    streams = list(STREAMS)
    if tier == 'thorough':
        rnd = random.Random(seed)
        for _ in range(12):
            s = ''
            for _ in range(rnd.randrange(1, 4)):
                k = rnd.choice('IOKV')
                num = ''.join(rnd.choice('0123456789ABCDEF') for _ in range(rnd.randrange(1, 4)))
                s += {'I': 'I%s=', 'O': 'O%s?', 'K': 'K%s;', 'V': '%s!'}[k] % (num if k != 'K' else rnd.choice('0123'))
            streams.append(s)
    n = 0
    for stream in streams:
        for gap in (0, 1, 2):
            try:
                ev, consumed, left = run_decoder(facts, summaries, stream, gap)
            except (ElabError, NetError, ElabRaise, PyExc) as e:
                ctx.error('C20.a', 'decoder could not be elaborated / stepped: %s' % e)
                return
            except (EvalError, Nondet) as e:
                ctx.violation('C20.a', 'decoder-runs', 'the decoder summary fails on stream %r: %s' % (stream, e), where, witness=dict(stream=stream, gap=gap))
                return
            n += 1
            exp = meaning(stream, 16)
            if left or consumed != len(stream):
                ctx.violation('C20.a', 'every-character-consumed-once', 'the decoder handshakes %d characters for a stream of %d (left in the producer: %d)' % (consumed, len(stream), left),
                              where, witness=dict(stream=stream, idle_cycles_between_characters=gap))
                return
            if ev != exp:
                ctx.violation('C20.a', 'actions-match-stream', 'the action pulses differ from the meaning of the command stream', where,
                              witness=dict(stream=stream, idle_cycles_between_characters=gap, observed=ev[:12], expected=exp[:12]))
                return
        ctx.ok('C20.a', 'stream:%s' % stream, 'pacings 0,1,2: %d action pulses as expected' % len(meaning(stream, 16)), grade='bounded')
    # pauses of arbitrary length inside a command (C20.c)
    nfix = npause = 0
    for stream in ('I12=', '1234!', 'O1F?', 'K12;', 'I1=7F!'):
        for k in range(1, len(stream)):
            rep = {}
            try:
                ev, consumed, left = run_decoder(facts, summaries, stream, 12, pause_after=k, report=rep)
            except (EvalError, Nondet, NetError) as e:
                ctx.violation('C20.c', 'pause:%s@%d' % (stream, k), 'the decoder summary fails during a long pause: %s' % e, where, witness=dict(stream=stream, pause_after_character=k))
                continue
            if not rep:
                ctx.error('C20.c', 'the decoder never waited for a character during the pause of stream %r after character %d' % (stream, k))
                continue
            npause += 1
            nfix += 1 if rep.get('fixpoint') and not rep.get('timers') else 0
            exp = meaning(stream, 16)
            if ev != exp or left or consumed != len(stream):
                ctx.violation('C20.c', 'pause-inside-command', 'a pause of the producer inside a command changes what is decoded: a waiting-time counter (%s) reaches the constant it is compared with' %
                              ', '.join('%s == %d' % kv for kv in sorted(rep.get('timers', {}).items())), where,
                              witness=dict(stream=stream, pause_after_character=k, pause_length='until %s' % rep.get('timers'), observed=ev[:8], expected=exp[:8]))
                return
    ctx.ok('C20.c', 'pauses', '%d pauses inside commands: %d are fixpoints of the waiting state (one idle edge changes no state and no output, so every longer pause is the same state); '
           'the others were continued from every timer threshold and decode the same' % (npause, nfix), grade='pass' if nfix == npause else 'bounded')
    ctx.ok('C20.a', 'decoder', '%d (stream, pacing) runs: every character consumed once; action pulses and numbers equal the stream meaning; strobes last one cycle' % n, grade='bounded')
    ctx.sample(dict(rule='C20.a', stream='IA=BEEF!O3?K2;', expected=meaning('IA=BEEF!O3?K2;', 16)))


def run_encoder(facts, summaries, value, digits, pattern, maxcycles=600, hold=True):
    D = Design(facts, summaries)
    vin, size, start, ready, valid, v = D.wire('vin', 40), D.wire('size', 8), D.wire('start_resp'), D.wire('ready'), D.wire('valid'), D.wire('v', 8)
    D.make('CMDResponse', 'resp', vin, size, start, ready, valid, v, rel=REL)
    D.prepare()
    out = []
    t = 0
    done_at = None
    while t < maxcycles:
        t += 1
        # value and size become valid in the very cycle the request is raised (as in the wrapper, where the strobe that selects the
        # output also starts the response); before that the inputs carry something else
        # hold=False: the selected value is only there in the request cycle; the design under test moves on while a slow consumer drains
        here = (t >= 2) if hold else (t == 2)
        D.put(vin, value if here else (value ^ 0x5A5A5A5A5 ^ (t * 0x111)) & ((1 << 40) - 1))
        D.put(size, digits if here else (digits % 7) + 1)
        D.put(start, 1 if t == 2 else 0)
        D.put(ready, pattern(t))
        D.settle()
        transfer = D.get(valid) == 1 and D.get(ready) == 1
        ch = D.get(v)
        D.clock()
        if transfer:
            out.append(chr(ch) if 32 <= ch < 127 else '\\x%02x' % ch)
            if out and out[-1] == '!':
                done_at = t
        if done_at and t > done_at + 12:
            break
    return ''.join(out)


def run_encoder_seq(facts, summaries, requests, pattern, gap, maxcycles=900):
    """several responses on ONE encoder: request k+1 is raised `gap` cycles after the '!' of response k was handed over (gap >= 1)"""
    D = Design(facts, summaries)
    vin, size, start, ready, valid, v = D.wire('vin', 40), D.wire('size', 8), D.wire('start_resp'), D.wire('ready'), D.wire('valid'), D.wire('v', 8)
    D.make('CMDResponse', 'resp', vin, size, start, ready, valid, v, rel=REL)
    D.prepare()
    out = []
    k = 0
    next_at = 2
    t = 0
    done = None
    while t < maxcycles:
        t += 1
        req = k < len(requests) and t == next_at
        cur = requests[min(k, len(requests) - 1)]
        D.put(vin, cur[0])
        D.put(size, cur[1])
        D.put(start, 1 if req else 0)
        D.put(ready, pattern(t))
        D.settle()
        transfer = D.get(valid) == 1 and D.get(ready) == 1
        ch = D.get(v)
        D.clock()
        if req:
            k += 1
            next_at = None
        if transfer:
            out.append(chr(ch) if 32 <= ch < 127 else '\\x%02x' % ch)
            if out[-1] == '!':
                if k < len(requests):
                    next_at = t + gap
                else:
                    done = t
        if done and t > done + 12:
            break
    return ''.join(out)


def check_encoder(ctx, facts, tier, seed):
    summaries = {}
    where = '%s:CMDResponse.clock' % REL
    rnd = random.Random(seed + 5)
    pats = [('always ready', lambda t: 1), ('every other cycle', lambda t: t % 2), ('one in three', lambda t: int(t % 3 == 0)),
            ('ready low for 5 cycles then high', lambda t: int(t > 7))]
    rbits = [rnd.randrange(2) for _ in range(700)]
    pats.append(('pseudo-random', lambda t: rbits[t % 700]))
    cases = [(0x0, 1), (0x9, 1), (0xA, 1), (0xF, 1), (0x5A, 2), (0xA5, 2), (0x09AF, 4), (0x1234ABCD, 8), (0x1234ABCD, 9), (0xF234ABCD, 10), (0xBEEF, 2), (0x10, 3)]
    if tier == 'thorough':
        cases += [(rnd.randrange(1 << 36), d) for d in (1, 2, 3, 5, 6, 7, 9)]
    n = 0
    for value, digits in cases:
        exp = '=' + ('%0*X' % (digits, value))[-digits:] + '!'
        for pname, pat in pats:
            try:
                got = run_encoder(facts, summaries, value, digits, pat)
            except (ElabError, NetError, ElabRaise, PyExc) as e:
                ctx.error('C20.b', 'encoder could not be elaborated / stepped: %s' % e)
                return
            except (EvalError, Nondet) as e:
                ctx.violation('C20.b', 'encoder-runs', 'the encoder summary fails: %s' % e, where, witness=dict(value=hex(value), digits=digits))
                return
            n += 1
            if got != exp:
                ctx.violation('C20.b', 'response-text', 'the characters handed over differ from "=" <hex digits MSB first> "!"', where,
                              witness=dict(value=hex(value), digits=digits, consumer=pname, transferred=got, expected=exp))
                return
            try:
                got = run_encoder(facts, summaries, value, digits, pat, hold=False)
            except (EvalError, Nondet, NetError) as e:
                got = 'fails: %s' % e
            n += 1
            if got != exp:
                ctx.violation('C20.b', 'response-value-latched', 'the response does not carry the value selected when it was requested: value and digit count change '
                              'while the consumer is still draining the response', where,
                              witness=dict(value_in_request_cycle=hex(value), digits=digits, consumer=pname, transferred=got, expected=exp))
                return
        ctx.ok('C20.b', 'value:%s/%d' % (hex(value), digits), '%d consumer pacings: %s' % (len(pats), exp), grade='bounded')
    # several responses on one encoder: the same value with another digit count, another value, requests close behind the previous '!'
    seqs = [[(0x0, 2), (0x0, 4)], [(0x5A, 2), (0x5A, 1), (0x5A, 3)], [(0xBEEF, 4), (0x12, 4)], [(0x7, 1), (0x7, 1)]]
    ns = 0
    for reqs in seqs:
        exp = ''.join('=' + ('%0*X' % (d, val))[-d:] + '!' for val, d in reqs)
        for pname, pat in pats[:4]:
            for gap in (1, 2, 3, 5):
                try:
                    got = run_encoder_seq(facts, summaries, reqs, pat, gap)
                except (EvalError, Nondet, NetError) as e:
                    got = 'fails: %s' % e
                ns += 1
                if got != exp:
                    ctx.violation('C20.b', 'responses-in-sequence', 'a later response on the same encoder differs from "=" <hex digits> "!" for its own value and digit count '
                                  '(state of an earlier response survives, or the request is missed)', where,
                                  witness=dict(requests=[(hex(a), d) for a, d in reqs], cycles_between_done_and_next_request=gap, consumer=pname, transferred=got, expected=exp))
                    return
    ctx.ok('C20.b', 'responses-in-sequence', '%d runs of 2-3 responses on one encoder (same value / other digit count, requests 1..5 cycles after the previous "!")' % ns, grade='bounded')
    ctx.ok('C20.b', 'encoder', '%d (value, digits, consumer pacing) runs: transferred text equals = <upper-case hex, MSB first> !' % n, grade='bounded')
    ctx.sample(dict(rule='C20.b', value='0x1234ABCD', digits=9, expected='=01234ABCD!'))


def run(ctx, sm, facts):
    ctx.rule('C20.a', 'decoder co-simulated with a ready/valid producer over command streams x pacings: actions == stream meaning')
    ctx.rule('C20.c', 'pauses of any length inside a command: the waiting state is a fixpoint of an idle edge, or every timer threshold reachable by waiting decodes the same')
    ctx.rule('C20.b', 'encoder co-simulated with a ready/valid consumer over values x digit counts x pacings: text == =<HEX>!')
    ctx.rule('C20.d', 'instance isolation in the codec file (no class-level container / mutable default / memoised method)')
    from ..leafrules import shared_instance_state
    shared_instance_state(ctx, facts, 'C20.d', [REL])
    for cn in ('CMDRequest', 'CMDResponse'):
        c = facts.cls(cn, REL, required=False)
        if c is None or 'clock' not in c.methods:
            ctx.error('C20', 'anchor %s.clock not found' % cn)
            return
    check_decoder(ctx, facts, ctx.tier, ctx.seed)
    check_encoder(ctx, facts, ctx.tier, ctx.seed)
    ctx.not_decided += ['command streams, values and pacings outside the grid', 'malformed command streams (the property quantifies over well-formed ones)']
    ctx.assumptions += ['a transfer happens at an edge where ready and valid were both 1 before the edge', 'summariser/elaborator faithful']
