"""C19 - Verilog generation is a pure, repeatable function of the circuit.

C19.a  effect analysis: no function of the generation code (rtl_generation.py, the transpiler and
       its AST utilities, every verilogBody()/structureName()) stores into, deletes from, or calls a
       mutating method on a value rooted at a circuit object (obj / child / wire / port ...);
C19.b  wire-name cache: every module global the cache uses is declared global and reset to None by
       clearWireNamesCache(); every public entry point calls it before anything else; the hit test
       compares the requested scope with the cached one;
C19.c  no state survives a request: no mutable default argument, no memoising decorator, no store
       into module-level / class-level containers anywhere in the generation code; the list of
       emitted modules is a fresh list unless the caller supplies one.
"""
import ast

from ..cfg import fn_paths
from ..facts import iter_functions, Facts
from ..callgraph import qual
from ..srcmap import norm
from .c04 import calls_in_path
from .c05 import is_call_to

LEVEL_TEXT = ('Static effect / escape analysis over the generation code: circuit-rooted receivers are never written, the only process-wide '
              'state (the wire-name cache) is completely reset at every entry point, nothing else is kept between requests.')
RTL = 'py4hw/rtl_generation.py'
GEN_FILES = [RTL, 'py4hw/transpilation/python2verilog_transpilation.py', 'py4hw/transpilation/astutils.py']
MUT = {'append', 'extend', 'insert', 'remove', 'pop', 'clear', 'reverse', 'sort', 'update', 'setdefault', 'put', 'prepare', 'settle', 'setSource',
       'addSource', 'addSink', 'addIn', 'addOut', 'addInOut', 'addParameter', 'appendWire', 'rename', 'reparent', 'reparentAndRename', 'wire', 'wires',
       'bidir_wire', 'addInterfaceSource', 'addInterfaceSink', 'reconnectIn', 'popitem', '__setitem__', '__delitem__'}
CONTAINER_ATTRS = {'inPorts', 'outPorts', 'inOutPorts', 'children', '_wires', 'sinks', 'ins', 'outs', 'bits', 'sels', 'parameters', 'sourceToSink', 'sinkToSource', 'clockables',
                   'propagatables', 'sources', 'wires'}
CIRC_PARAM = {'obj', 'child', 'w', 'wire', 'p', 'scope', 'ins', 'inp', 'outp', 'port', 'parent', 'logic', 'circuit', 'block', 'instance', 'leaf'}


def gen_functions(facts):
    out = []
    for rel, c, fn in iter_functions(facts):
        if rel in GEN_FILES:
            out.append((rel, c, fn))
        elif fn.name in ('verilogBody', 'structureName') and c is not None:
            out.append((rel, c, fn))
    return out


def circuit_roots(fn, c):
    circ = set(a.arg for a in fn.args.args if a.arg in CIRC_PARAM)
    for a in fn.args.args:
        if a.annotation is not None and norm(a.annotation).split('.')[-1] in ('Logic', 'Wire', 'InPort', 'OutPort', 'HWSystem'):
            circ.add(a.arg)
    self_is_circuit = fn.name in ('verilogBody', 'structureName')

    def rooted(e):
        while True:
            if isinstance(e, ast.Attribute):
                if isinstance(e.value, ast.Name) and e.value.id == 'self':
                    if e.attr == 'obj':
                        return True
                    return self_is_circuit
                e = e.value
            elif isinstance(e, ast.Subscript):
                e = e.value
            elif isinstance(e, ast.Call):
                f = e.func
                if isinstance(f, ast.Attribute) and f.attr in ('values', 'keys', 'items', 'getSinks', 'getSource', 'allLeaves'):
                    e = f.value
                elif isinstance(f, ast.Name) and f.id in ('collectPortWires', 'collectLocalWires', 'getObjectClockDriver', 'list', 'reversed', 'sorted', 'enumerate') and e.args:
                    if f.id in ('list', 'sorted', 'reversed', 'collectPortWires', 'collectLocalWires'):
                        return False        # a fresh container
                    e = e.args[0]
                else:
                    return False
            elif isinstance(e, ast.Name):
                return e.id in circ or (e.id == 'self' and self_is_circuit)
            else:
                return False
    changed = True
    while changed:
        changed = False
        for n in ast.walk(fn):
            tg = None
            if isinstance(n, ast.Assign) and len(n.targets) == 1 and isinstance(n.targets[0], ast.Name) and rooted(n.value):
                tg = [n.targets[0].id]
            if isinstance(n, (ast.For, ast.comprehension)) and rooted(n.iter):
                tg = [x.id for x in ast.walk(n.target) if isinstance(x, ast.Name)]
            for v in tg or []:
                if v not in circ:
                    circ.add(v)
                    changed = True
    return rooted


def effects(facts):
    out = []
    fns = gen_functions(facts)
    for rel, c, fn in fns:
        rooted = circuit_roots(fn, c)
        for n in ast.walk(fn):
            if isinstance(n, (ast.Assign, ast.AugAssign, ast.Delete, ast.AnnAssign)):
                tgs = n.targets if isinstance(n, (ast.Assign, ast.Delete)) else [n.target]
                for tg in tgs:
                    for t in (tg.elts if isinstance(tg, ast.Tuple) else [tg]):
                        if isinstance(t, (ast.Attribute, ast.Subscript)) and rooted(t.value):
                            out.append((rel, qual(c, fn), 'store', norm(t)))
            # `outs = obj.outPorts; outs += obj.inOutPorts`: for a list, += extends the object in place - the circuit's own port list grows
            if isinstance(n, ast.AugAssign) and isinstance(n.target, ast.Name) and isinstance(n.op, (ast.Add, ast.Mult, ast.BitOr)):
                for m in ast.walk(fn):
                    if isinstance(m, ast.Assign) and any(isinstance(t, ast.Name) and t.id == n.target.id for t in m.targets) and isinstance(m.value, ast.Attribute) \
                            and m.value.attr in CONTAINER_ATTRS and rooted(m.value.value):
                        out.append((rel, qual(c, fn), 'in-place', '%s (alias of %s)' % (norm(n)[:50], norm(m.value))))
                        break
            if isinstance(n, ast.Call) and isinstance(n.func, ast.Attribute) and n.func.attr in MUT and rooted(n.func.value):
                out.append((rel, qual(c, fn), 'call', norm(n.func)))
            if isinstance(n, ast.Call) and isinstance(n.func, ast.Name) and n.func.id in ('setattr', 'delattr') and n.args and rooted(n.args[0]):
                out.append((rel, qual(c, fn), 'call', norm(n)))
            # constructing circuit objects below a circuit parent during generation
            if isinstance(n, ast.Call) and isinstance(n.func, ast.Name) and n.func.id in facts.classes and n.args and rooted(n.args[0]):
                k = facts.classes[n.func.id][0]
                if facts.is_logic(k) or k.name in ('Wire', 'BidirWire'):
                    out.append((rel, qual(c, fn), 'construct', norm(n)[:60]))
    return out, len(fns)


def module_globals(tree):
    g = set()
    for s in tree.body:
        if isinstance(s, ast.Assign):
            for t in s.targets:
                if isinstance(t, ast.Name):
                    g.add(t.id)
        elif isinstance(s, ast.AnnAssign) and isinstance(s.target, ast.Name):
            g.add(s.target.id)
    return g


def locals_of(fn):
    loc = set(a.arg for a in fn.args.args + fn.args.kwonlyargs)
    if fn.args.vararg:
        loc.add(fn.args.vararg.arg)
    if fn.args.kwarg:
        loc.add(fn.args.kwarg.arg)
    glob = set()
    for n in ast.walk(fn):
        if isinstance(n, ast.Global):
            glob.update(n.names)
    for n in ast.walk(fn):
        if isinstance(n, (ast.Assign, ast.AugAssign, ast.AnnAssign)):
            for t in (n.targets if isinstance(n, ast.Assign) else [n.target]):
                for x in ast.walk(t):
                    if isinstance(x, ast.Name) and isinstance(x.ctx, ast.Store):
                        loc.add(x.id)
        elif isinstance(n, (ast.For, ast.comprehension)):
            for x in ast.walk(n.target):
                if isinstance(x, ast.Name):
                    loc.add(x.id)
        elif isinstance(n, (ast.With,)):
            for it in n.items:
                if it.optional_vars is not None:
                    for x in ast.walk(it.optional_vars):
                        if isinstance(x, ast.Name):
                            loc.add(x.id)
        elif isinstance(n, ast.ExceptHandler) and n.name:
            loc.add(n.name)
        elif isinstance(n, (ast.Import, ast.ImportFrom)):
            for a in n.names:
                loc.add((a.asname or a.name).split('.')[0])
    return loc - glob, glob


def persistent_state(sm, facts):
    """C19.c offenders: (rel, qual, kind, text)"""
    out = []
    for rel, c, fn in gen_functions(facts):
        t = sm.tree(rel)
        mg = module_globals(t)
        loc, glob = locals_of(fn)
        q = qual(c, fn)
        for d in fn.args.defaults + [k for k in fn.args.kw_defaults if k is not None]:
            if isinstance(d, (ast.List, ast.Dict, ast.Set)) or (isinstance(d, ast.Call) and isinstance(d.func, ast.Name) and d.func.id in ('list', 'dict', 'set')):
                out.append((rel, q, 'mutable-default', norm(d)))
        for d in fn.decorator_list:
            if 'cache' in norm(d) or 'memo' in norm(d).lower():
                out.append((rel, q, 'memoising-decorator', norm(d)))
        allowed = {'wire_names_cache', 'wire_names_cache_obj'}
        for n in ast.walk(fn):
            # writes through a module-level container or rebinding of a module global
            if isinstance(n, (ast.Assign, ast.AugAssign)):
                for tg in (n.targets if isinstance(n, ast.Assign) else [n.target]):
                    base = tg
                    while isinstance(base, (ast.Subscript, ast.Attribute)):
                        base = base.value
                    if isinstance(base, ast.Name):
                        nm = base.id
                        if isinstance(tg, ast.Name):
                            if nm in glob and nm not in allowed:
                                out.append((rel, q, 'global-rebound', norm(n)[:70]))
                        elif nm not in loc and (nm in mg or nm in facts.classes) and nm != 'self':
                            out.append((rel, q, 'module-or-class-level-container-written', norm(tg)[:70]))
            if isinstance(n, ast.Call) and isinstance(n.func, ast.Attribute) and n.func.attr in MUT:
                base = n.func.value
                while isinstance(base, (ast.Subscript, ast.Attribute)):
                    base = base.value
                if isinstance(base, ast.Name) and base.id not in loc and (base.id in mg) and base.id != 'self':
                    out.append((rel, q, 'module-level-container-mutated', norm(n.func)[:70]))
    return out


def check_cache(ctx, sm, facts):
    clr = facts.func(RTL, 'clearWireNamesCache', required=False)
    gwn = facts.func(RTL, 'getWireNames', required=False)
    if clr is None or gwn is None:
        ctx.error('C19.b', 'anchors clearWireNamesCache / getWireNames not found')
        return
    _, g_used = locals_of(gwn)
    assigned_in_gwn = {t.id for n in ast.walk(gwn) if isinstance(n, ast.Assign) for t in n.targets if isinstance(t, ast.Name) and t.id in g_used}
    read_cache = {x.id for x in ast.walk(gwn) if isinstance(x, ast.Name) and x.id in module_globals(sm.tree(RTL)) and 'cache' in x.id}
    cache_vars = assigned_in_gwn | read_cache
    if not cache_vars:
        ctx.ok('C19.b', 'cache-reset', 'getWireNames keeps no module-level cache')
    else:
        loc, glob = locals_of(clr)
        ok = True
        for v in sorted(cache_vars):
            resets = [n for n in ast.walk(clr) if isinstance(n, ast.Assign) and any(isinstance(t, ast.Name) and t.id == v for t in n.targets) and norm(n.value) == 'None']
            if v not in glob or not resets:
                ok = False
                ctx.violation('C19.b', 'cache-reset:%s' % v, 'clearWireNamesCache() does not reset the module global `%s` (declared global: %s, assigned None: %s): a stale half of the cache survives the clear'
                              % (v, v in glob, bool(resets)), '%s:clearWireNamesCache' % RTL,
                              witness=dict(history='getVerilog(block) twice in a row: the second request hits a cache whose dictionary was dropped'))
        if ok:
            ctx.ok('C19.b', 'cache-reset', 'every cache global (%s) is declared global and reset to None' % ', '.join(sorted(cache_vars)))
    # hit test
    hit = [n for n in ast.walk(gwn) if isinstance(n, ast.If) and any(isinstance(r, ast.Return) for r in n.body)]
    p = gwn.args.args[0].arg
    good = [h for h in hit if norm(h.test).replace('(', '').replace(')', '') in ('%s == wire_names_cache_obj' % p, '%s is wire_names_cache_obj' % p,
                                                                                  'wire_names_cache_obj == %s' % p, 'wire_names_cache_obj is %s' % p)]
    if cache_vars and not good:
        ctx.violation('C19.b', 'cache-hit-test', 'the cache hit test does not compare the requested scope with the cached one', '%s:getWireNames' % RTL,
                      witness=dict(history='generate module A then module B in one request'))
    elif cache_vars:
        ctx.ok('C19.b', 'cache-hit-test', 'hit iff the requested scope is the cached scope')
        # the fill stores both globals together
        fills = {t.id: norm(n.value) for n in ast.walk(gwn) if isinstance(n, ast.Assign) for t in n.targets if isinstance(t, ast.Name) and t.id in cache_vars}
        if fills.get('wire_names_cache_obj') == p and 'wire_names_cache' in fills:
            ctx.ok('C19.b', 'cache-fill', 'scope and dictionary stored together')
        else:
            ctx.violation('C19.b', 'cache-fill', 'the cache is filled inconsistently: %s' % fills, '%s:getWireNames' % RTL)
    # entry points clear first
    gen = facts.cls('VerilogGenerator', RTL)
    for en in ('getVerilog', 'getVerilogForHierarchy'):
        m = gen.methods.get(en)
        if m is None:
            ctx.error('C19.b', 'anchor VerilogGenerator.%s not found' % en)
            continue
        ok = True
        for evs, ex in fn_paths(m):
            if ex == 'raise':
                continue
            cs = calls_in_path(evs)
            idx_clear = [i for i, c in enumerate(cs) if is_call_to(c, 'clearWireNamesCache')]
            idx_work = [i for i, c in enumerate(cs) if isinstance(c.func, ast.Attribute) and c.func.attr in ('_getVerilog', '_getVerilogForHierarchy', 'createModuleHeader')
                        or is_call_to(c, 'getWireNames')]
            if not idx_clear or (idx_work and min(idx_work) < min(idx_clear)):
                ok = False
        if ok:
            ctx.ok('C19.b', 'entry-clears-cache:%s' % en, 'clearWireNamesCache() precedes the generation work on every path')
        else:
            ctx.violation('C19.b', 'entry-clears-cache:%s' % en, 'the entry point %s can start generating before the wire-name cache is cleared' % en,
                          '%s:VerilogGenerator.%s' % (RTL, en), witness=dict(history='generate, rename a wire / build another circuit, generate again'))
        # fresh emitted-module list
        vals = set()
        for evs, ex in fn_paths(m):
            if ex == 'raise':
                continue
            v = None
            for e in evs:
                if e.kind == 'stmt' and isinstance(e.node, ast.Assign) and any(norm(t) == 'self.created_structures' for t in e.node.targets):
                    v = e.node.value
            conds = [(norm(e.node), e.val) for e in evs if e.kind == 'branch']
            vals.add((norm(v) if v is not None else None, tuple(conds)))
        def fresh_or_supplied(x):
            txt, conds = x
            if txt is None:
                return False
            if txt == '[]':
                return True
            t = txt.replace('(', '').replace(')', '')
            # `[] if createdStructures is None else createdStructures` (either orientation)
            if t.startswith('[] if ') and ' is None else ' in t:
                return True
            if ' if ' in t and ' is not None else []' in t:
                return True
            return any('is None' in c and not val for c, val in conds)
        bad = [x for x in vals if not fresh_or_supplied(x)]
        if bad:
            ctx.violation('C19.c', 'fresh-module-list:%s' % en, 'the list of already-emitted modules is not a fresh list for a request that supplies none: %s' % sorted(vals, key=str)[:2],
                          '%s:VerilogGenerator.%s' % (RTL, en), witness=dict(history='call %s() twice: the second result is missing modules' % en))
        else:
            ctx.ok('C19.c', 'fresh-module-list:%s' % en, 'self.created_structures = [] unless the caller supplies a list')


CONTROL = (RTL, "    w = len(obj.ins)\n    if (w == 1):\n        return \"assign {} = {};\\n\".format(getParentWireName(obj, obj.r), getParentWireName(obj, obj.ins[0]))\n\n    str += 'assign {} ='",
           "    w = len(obj.ins)\n    obj.ins.reverse()\n    if (w == 1):\n        return \"assign {} = {};\\n\".format(getParentWireName(obj, obj.r), getParentWireName(obj, obj.ins[0]))\n\n    str += 'assign {} ='")


def split_modules(text):
    """module name -> sorted body lines (declaration order is immaterial per the property)"""
    import re
    out = {}
    for mt in re.findall(r'(?ms)^\s*module\s+.*?^\s*endmodule', text):
        name = re.match(r'\s*module\s+([A-Za-z_][\w$]*)', mt).group(1)
        out.setdefault(name, []).append(sorted(l.strip() for l in mt.splitlines() if l.strip() and not l.strip().startswith('//')))
    return out


def fingerprint(D, roots):
    """canonical description of the object graph reachable from the circuit (attribute names, scalar values, shape of
    containers, identity structure) - what a later simulation or generation can observe"""
    from ..elab import ObjV
    index = {}
    out = []

    def enc(v, depth=0):
        if isinstance(v, ObjV):
            if id(v) not in index:
                index[id(v)] = len(index)
                rec = [v.cinfo.name if v.cinfo is not None else '?', {}]
                out.append(rec)
                for k in sorted(v.attrs):
                    rec[1][k] = enc(v.attrs[k], depth + 1)
            return ('obj', index[id(v)])
        if isinstance(v, dict):
            return ('dict', [(enc(k, depth + 1), enc(x, depth + 1)) for k, x in v.items()])
        if isinstance(v, (list, tuple)):
            return (type(v).__name__, [enc(x, depth + 1) for x in v])
        if isinstance(v, (int, str, float, bool, type(None))):
            return v
        return ('other', type(v).__name__)
    for r in roots:
        enc(r)
    return out


def fp_diff(a, b, sim_read):
    """first difference that matters: an attribute that existed before generation changed, or a new attribute the
    simulation code reads"""
    for i, (ra, rb) in enumerate(zip(a, b)):
        if ra[0] != rb[0]:
            return 'object %d changed class' % i
        for k, v in ra[1].items():
            if k not in rb[1]:
                return 'attribute `%s` of a %s was deleted' % (k, ra[0])
            if rb[1][k] != v:
                return 'attribute `%s` of a %s changed (%s -> %s)' % (k, ra[0], str(v)[:60], str(rb[1][k])[:60])
        for k in rb[1]:
            if k not in ra[1] and k in sim_read:
                return 'attribute `%s` (read by the simulation code) was added to a %s' % (k, ra[0])
    return None


def module_name_noinst(D, obj):
    try:
        f = D.el.eval_name('getVerilogModuleName', RTL)
        return D.el.call(f, [obj], dict(noInstanceNumber=True), {})
    except Exception:
        return None


def check_f(ctx, facts, sm, tier, seed):
    """C19.f: the generator is structure-only code and is evaluated by the abstract interpreter; so is the property:
    requests are repeated, interleaved with other circuits and with changes of the simulation state, made from
    different ancestors - the texts must describe the same design and the circuit must be left as it was."""
    import random
    import re
    from ..elab import ElabError, ElabRaise, PyExc, ObjV
    from ..gen import hierarchy_text, module_text, module_name, non_inlined_objects, generator, GenError
    from ..netlist import Design, NetError
    from ..specs import SPECS
    from ..summ import Summariser, NotSummarisable
    from .c02 import overlay_source, CASES_REL
    from .c03 import composites
    rnd = random.Random(seed + 19)
    f2 = Facts(sm.with_overlay({CASES_REL: overlay_source()}))
    sim_read = set()
    for rel in ('py4hw/simulation.py', 'py4hw/base.py'):
        for n in ast.walk(sm.tree(rel)):
            if isinstance(n, ast.Attribute) and isinstance(n.ctx, ast.Load):
                sim_read.add(n.attr)
    UART = 'py4hw/logic/protocol/uart/'
    builders = [(n, b) for n, b in composites()]
    builders += [
        ('transpiled: HvAccum + HvMatch', lambda D: (D.make('HvAccum', 'acc', D.wire('a', 4), D.wire('en'), D.wire('clr'), D.wire('q', 8), rel=CASES_REL),
                                                     D.make('HvMatch', 'm', D.wire('go'), D.wire('x', 3), D.wire('y', 5), rel=CASES_REL)) and None),
        ('transpiled: HvPeriodic x2', lambda D: (D.make('HvPeriodic', 'p3', D.wire('q3', 8), D.wire('t3'), 3, 10, rel=CASES_REL),
                                                 D.make('HvPeriodic', 'p5', D.wire('q5', 8), D.wire('t5'), 5, 100, rel=CASES_REL)) and None),
        ('transpiled: UARTSerializer', lambda D: D.make('UARTSerializer', 'ser', D.wire('ready'), D.wire('valid'), D.wire('v', 8), D.wire('pulse'), D.wire('tx'), rel=UART + 'serdes.py') and None),
        ('body: memories + sequencer', lambda D: (D.make('SynchronousMemory', 'mem', D.wire('ra', 2), D.wire('wa', 2), D.wire('we'), D.wire('rd', 4), D.wire('wd', 4)),
                                                  D.make('MsgSequencer', 'seq', D.wire('rdy'), D.wire('vld'), D.wire('ch', 8), 'Hello', rel=UART + 'sequencer.py')) and None),
    ]
    for sp in SPECS:
        cfgs = list(sp['configs'](tier))
        if sp['seq'] is not None or tier == 'thorough' or len(builders) < 22:
            p = cfgs[len(cfgs) // 2]
            builders.append(('%s %s' % (sp['name'], p), (lambda D, sp=sp, p=p: sp['build'](D, p) and None)))
    where = RTL
    n_ok = 0
    skipped = []
    csum = {}

    def state_attrs(cinfo):
        key = (cinfo.rel, cinfo.name)
        if key not in csum:
            m = f2.lookup(cinfo, 'clock')
            names = set()
            if m is not None:
                for n in ast.walk(m):
                    if isinstance(n, (ast.Assign, ast.AugAssign)):
                        for t in (n.targets if isinstance(n, ast.Assign) else [n.target]):
                            if isinstance(t, ast.Attribute) and norm(t.value) == 'self':
                                names.add(t.attr)
                            if isinstance(t, ast.Subscript) and isinstance(t.value, ast.Attribute) and norm(t.value.value) == 'self':
                                names.add(t.value.attr)
            csum[key] = names
        return csum[key]

    def perturb(D):
        """what simulation steps may have done: wire values and the attributes clock() methods assign"""
        seen = set()

        def walk(o):
            if id(o) in seen:
                return
            seen.add(id(o))
            for ch in o.attrs.get('children', {}).values():
                walk(ch)
            for w in list(o.attrs.get('_wires', {}).values()) if isinstance(o.attrs.get('_wires'), dict) else []:
                pass
            if not o.attrs.get('children'):
                for a in state_attrs(o.cinfo):
                    v = o.attrs.get(a)
                    if isinstance(v, bool):
                        continue
                    if isinstance(v, int):
                        o.attrs[a] = v + 1 + rnd.randrange(3)
                    elif isinstance(v, list) and v and all(isinstance(x, int) for x in v):
                        o.attrs[a] = [x ^ 1 for x in v]
            for plist in ('inPorts', 'outPorts'):
                for po in o.attrs.get(plist, []):
                    w = po.attrs.get('wire')
                    if isinstance(w, ObjV) and isinstance(w.attrs.get('value'), int) and isinstance(w.attrs.get('width'), int):
                        w.attrs['value'] = rnd.randrange(1 << w.attrs['width'])
        walk(D.sys)

    for name, build in builders:
        try:
            D = Design(f2)
            build(D)
            fp0 = fingerprint(D, [D.sys])
            t1 = hierarchy_text(D)
            fp1 = fingerprint(D, [D.sys])
            d = fp_diff(fp0, fp1, sim_read)
            if d:
                ctx.violation('C19.f', 'alters-circuit:%s' % name.split(' ')[0], 'generating Verilog changes the circuit: %s' % d, where,
                              witness=dict(design=name, history='build, generate the whole hierarchy, inspect the circuit'))
                continue
            m1 = split_modules(t1)
            # a second system in the same process, generated in between
            other = D.el.instantiate(D.el.find_class('HWSystem', 'py4hw/base.py'), [], {})
            keep = D.sys
            D.sys = other
            w = D.wire('zz', 5)
            D.make('Reg', 'r', w, D.wire('zq', 5))
            D.make('Not', 'n', w, D.wire('zn', 5))
            t_other = hierarchy_text(D)
            D.sys = keep
            # one generator object asked for a circuit other than the one it was created for: the text is that of a fresh generator
            g_first = generator(D)
            try:
                t_cross = D.el.call(D.el.getattr_(g_first, 'getVerilogForHierarchy'), [other], {}, {})
            except (ElabRaise, PyExc) as e:
                t_cross = None
            if t_cross is not None and split_modules(t_cross) != split_modules(t_other):
                mo, mc = split_modules(t_other), split_modules(t_cross)
                dm = [k for k in set(mo) | set(mc) if mo.get(k) != mc.get(k)][:3]
                lines = [x for k in dm[:1] for x in (mo.get(k) or [[]])[0] if x not in (mc.get(k) or [[]])[0]][:3]
                ctx.violation('C19.f', 'generator-reused-for-another-circuit:%s' % name.split(' ')[0], 'a generator created for one circuit, asked for another circuit, does not give the text a fresh generator gives '
                              '(something collected when the generator was created answers for blocks it never saw)', where,
                              witness=dict(design=name, history='g = VerilogGenerator(top1); g.getVerilogForHierarchy(top2)', differing_modules=dm, lines_missing=lines))
                continue
            t2 = hierarchy_text(D)
            if split_modules(t2) != m1:
                ctx.violation('C19.f', 'repeat:%s' % name.split(' ')[0], 'a repeated request (with a request for another circuit in between) yields a different design', where,
                              witness=dict(design=name, differing_modules=[k for k in set(m1) | set(split_modules(t2)) if m1.get(k) != split_modules(t2).get(k)][:4]))
                continue
            # the same generator object asked twice (the list of already emitted modules must not survive the first request)
            g0 = generator(D)
            ta = D.el.call(D.el.getattr_(g0, 'getVerilogForHierarchy'), [], {}, {})
            tb = D.el.call(D.el.getattr_(g0, 'getVerilogForHierarchy'), [], {}, {})
            if split_modules(ta) != m1 or split_modules(tb) != m1:
                mb = split_modules(tb)
                ctx.violation('C19.f', 'same-generator:%s' % name.split(' ')[0], 'the second request to one generator object yields a different design (modules missing: %s)'
                              % sorted(set(m1) - set(mb))[:4], where, witness=dict(design=name, history='g = VerilogGenerator(top); g.getVerilogForHierarchy(); g.getVerilogForHierarchy()'))
                continue
            # a request for a sub-block must not redirect later default requests of the same generator
            subs = non_inlined_objects(D, g0, None)
            if subs:
                D.el.call(D.el.getattr_(g0, 'getVerilogForHierarchy'), [subs[-1]], {}, {})
                tc = D.el.call(D.el.getattr_(g0, 'getVerilogForHierarchy'), [], {}, {})
                if split_modules(tc) != m1:
                    ctx.violation('C19.f', 'default-after-subblock:%s' % name.split(' ')[0], 'after a request for a sub-block, the default request of the same generator no longer describes the generator\'s own circuit',
                                  where, witness=dict(design=name, history='g.getVerilogForHierarchy(sub); g.getVerilogForHierarchy()', modules_now=sorted(split_modules(tc))[:5], modules_expected=sorted(m1)[:5]))
                    continue
            # a list of already emitted modules supplied by the caller is filled (so that a second file does not define them again) and honoured
            shared_list = []
            g1 = generator(D)
            td = D.el.call(D.el.getattr_(g1, 'getVerilogForHierarchy'), [], dict(createdStructures=shared_list), {})
            md = split_modules(td)
            nontop = [k for k in md if not any(k == module_name_noinst(D, D.sys) for _ in (0,))]
            if len(md) > 1 and len(shared_list) == 0:
                ctx.violation('C19.f', 'shared-module-list:%s' % name.split(' ')[0], 'the caller\'s list of already emitted modules is not filled (an empty list is dropped): a second run sharing it defines the same modules again',
                              where, witness=dict(design=name, modules_emitted=sorted(md)[:6], list_after_the_run=list(shared_list)))
                continue
            # ... and it belongs to the caller: a later request to the same generator that does not pass it must leave it alone
            shared_list.append('ModuleOfAnEarlierFile')           # the caller's list also carries what other runs emitted
            before = [str(x) for x in shared_list]
            D.el.call(D.el.getattr_(g1, 'getVerilogForHierarchy'), [], {}, {})
            if [str(x) for x in shared_list] != before:
                ctx.violation('C19.f', 'caller-list-touched:%s' % name.split(' ')[0], 'a request without a module list empties / refills the list an earlier caller supplied: a later run sharing that list '
                              'defines the shared modules again', where, witness=dict(design=name, history='g.getVerilogForHierarchy(createdStructures=L); g.getVerilogForHierarchy()',
                                                                                    list_before=before[:5], list_after=[str(x) for x in shared_list][:5]))
                continue
            g2 = generator(D)
            te = D.el.call(D.el.getattr_(g2, 'getVerilogForHierarchy'), [], dict(createdStructures=shared_list), {})
            again = [k for k in split_modules(te) if k in md and k in [str(x) for x in shared_list]]
            if again:
                ctx.violation('C19.f', 'shared-module-list:%s' % name.split(' ')[0], 'modules recorded in the caller\'s list are emitted again by the next run: %s' % again[:4], where,
                              witness=dict(design=name))
                continue
            perturb(D)
            t3 = hierarchy_text(D)
            if split_modules(t3) != m1:
                m3 = split_modules(t3)
                dm = [k for k in set(m1) | set(m3) if m1.get(k) != m3.get(k)][:3]
                lines = []
                for k in dm[:1]:
                    a, b = (m1.get(k) or [[]])[0], (m3.get(k) or [[]])[0]
                    lines = [x for x in b if x not in a][:3]
                ctx.violation('C19.f', 'state-dependent:%s' % name.split(' ')[0], 'the text depends on the momentary simulation state: after state / wire values change the same circuit yields a different design',
                              where, witness=dict(design=name, differing_modules=dm, new_lines=lines, history='generate, simulate some cycles, generate again'))
                continue
            # a sub-block requested directly
            bad = []
            g = generator(D)
            first = {}
            for obj in non_inlined_objects(D, g, None):
                first.setdefault(module_name(D, obj), obj)      # the object whose body the whole-design text carries under that name
            for mn, obj in list(first.items())[:40]:
                mt = split_modules(module_text(D, obj)).get(mn)
                if mt is None or mn not in m1:
                    continue
                if mt[0] not in m1[mn]:
                    a, b = m1[mn][0], mt[0]
                    bad.append(dict(design=name, module=mn, only_when_requested_directly=[x for x in b if x not in a][:3], only_in_whole_design=[x for x in a if x not in b][:3]))
            for bd in bad[:4]:
                ctx.violation('C19.f', 'ancestor-dependent:%s:%s' % (name.split(' ')[0], re.sub(r'_[0-9a-f]{3,}$', '_#', bd['module'])),
                              'the module text of a sub-block depends on where the request is made from', where, witness=bd)
            if bad:
                continue
            n_ok += 1
        except ElabRaise:
            skipped.append('%s: construction / generation refuses' % name)
        except (ElabError, NetError, PyExc, GenError) as e:
            skipped.append('%s: %s' % (name, str(e)[:70]))
    # a request that fails part-way must leave nothing behind in the generator: the next request describes its own circuit only
    try:
        D = Design(f2)
        a = D.wire('a', 4)
        D.make('DelayLine', 'dl', a, None, None, D.wire('qd', 4), 2)
        D.make('RotateLeftConstant', 'rot', a, 1, D.wire('qr', 4))          # not expressible: the hierarchy request is refused here
        D.make('Counter', 'cnt', D.wire('rst'), D.wire('inc'), D.wire('qc', 4))
        sub = D.sys.attrs['children']['dl']
        fresh = split_modules(D.el.call(D.el.getattr_(generator(D), 'getVerilogForHierarchy'), [sub], {}, {}))
        g = generator(D)
        failed = False
        try:
            D.el.call(D.el.getattr_(g, 'getVerilogForHierarchy'), [], {}, {})
        except (ElabRaise, PyExc):
            failed = True
        if failed:
            after = split_modules(D.el.call(D.el.getattr_(g, 'getVerilogForHierarchy'), [sub], {}, {}))
            if after != fresh:
                ctx.violation('C19.f', 'after-failed-request', 'after a request that was refused part-way, the next request to the same generator carries left-over modules of the failed one', where,
                              witness=dict(history='g.getVerilogForHierarchy() raises at a block that cannot be expressed; g.getVerilogForHierarchy(sub)',
                                           extra_modules=sorted(set(after) - set(fresh))[:5], missing_modules=sorted(set(fresh) - set(after))[:5]))
            else:
                ctx.ok('C19.f', 'after-failed-request', 'a refused request leaves nothing behind: the next request to the same generator equals the request to a fresh one', grade='bounded')
        else:
            ctx.note('C19.f after-failed-request: the probe design was not refused; history not exercised')
    except (ElabError, NetError, GenError, ElabRaise, PyExc) as e:
        ctx.note('C19.f after-failed-request not evaluable: %s' % str(e)[:100])
    ctx.analysed['c19f_skipped'] = skipped[:12]
    ctx.floor('C19.f', 'designs whose generation requests were replayed', n_ok + sum(1 for v in ctx.violations if v['rule'] == 'C19.f'), 15)
    if not any(v['rule'] == 'C19.f' for v in ctx.violations):
        ctx.ok('C19.f', 'request-histories', '%d designs (library compositions, second clock domain, hand-written bodies, transpiled blocks): generation leaves the object graph as it was; '
               'repeated / interleaved requests, requests after state changes and requests for sub-blocks give the same modules' % n_ok, grade='bounded')


def run(ctx, sm, facts):
    ctx.rule('C19.f', 'request histories replayed on elaborated designs: circuit unchanged, same modules on every request')
    ctx.rule('C19.a', 'no store / delete / mutating call / construction on circuit-rooted values in the generation code')
    ctx.rule('C19.b', 'wire-name cache completely reset at every entry point; hit test on scope identity')
    ctx.rule('C19.c', 'no mutable default, memoising decorator or module/class-level container written in the generation code; fresh emitted-module list')
    eff, nf = effects(facts)
    ctx.analysed['generation_functions'] = nf
    ctx.floor('C19.a', 'generation functions analysed', nf, 150)
    for rel, q, kind, txt in eff:
        ctx.violation('C19.a', '%s:%s:%s' % (q, kind, txt), 'generation code writes the circuit: %s `%s`' % (kind, txt), '%s:%s' % (rel, q),
                      witness=dict(history='simulate, generate Verilog, simulate again: results differ / the netlist changed'))
    if not eff:
        ctx.ok('C19.a', 'no-circuit-write', '%d generation functions analysed, none writes a circuit-rooted value' % nf)
    rel, old, new = CONTROL
    text = sm.text(rel).replace('\r\n', '\n')
    if old in text:
        sm2 = sm.with_overlay({rel: text.replace(old, new, 1)})
        e2, _ = effects(Facts(sm2, rels=GEN_FILES))
        ctx.control('C19.a', any('reverse' in t for _, _, _, t in e2), 'planted obj.ins.reverse() in an Inline emitter')
    else:
        import textwrap
        frag = textwrap.dedent('''
            def InlineControl(obj):
                obj.ins.reverse()
                return ''
        ''')
        sm2 = sm.with_overlay({RTL: sm.text(RTL) + frag})
        e2, _ = effects(Facts(sm2, rels=GEN_FILES))
        ctx.control('C19.a', any('reverse' in t for _, _, _, t in e2), 'planted obj.ins.reverse() in a synthetic emitter')
    check_cache(ctx, sm, facts)
    ps = persistent_state(sm, facts)
    for rel, q, kind, txt in ps:
        ctx.violation('C19.c', '%s:%s' % (q, kind), 'state survives a generation request: %s `%s`' % (kind, txt), '%s:%s' % (rel, q),
                      witness=dict(history='two generation requests in one process (same or different circuits): the second result depends on the first'))
    if not ps:
        ctx.ok('C19.c', 'no-persistent-state', 'no mutable default, memoising decorator or module/class-level container write in %d generation functions' % nf)
    check_f(ctx, facts, sm, ctx.tier, ctx.seed)
    # "fresh list of emitted modules" is exercised by the same-generator histories of C19.f
    ctx.defer_shape(('C19.c',), 'C19.f', 0, 0, keep=lambda v: not v['key'].startswith('fresh-module-list'))
    ctx.not_decided.append('textual equality across runs for designs outside the replayed catalogue (follows from purity + deterministic iteration, not proved)')
    ctx.assumptions.append('circuit values are recognised by parameter name / annotation and by being derived from them (listed vocabulary in the rule)')
