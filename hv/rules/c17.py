"""C17 - the UART link delivers every byte once, unchanged and in order; the line is 8N1.

The link (UARTSerializer -> line -> ClockGenerationAndRecovery -> UARTDeserializer) is elaborated
from the constructors (ClockDivider, EdgeDetector, ModuloCounter, TReg ... down to leaves) and
stepped through the symbolic summaries of its leaves, inside environment models:
a ready/valid producer (idle gap swept cycle by cycle over one bit period), a ready/valid consumer
(several pacings), and an independent software 8N1 receiver that waits for a falling edge of the
line and samples mid-bit at the nominal bit period.

C17.a  every byte accepted by the serializer is handed over exactly once, unchanged and in order,
       by the deserializer - for every byte pattern, gap, consumer pacing and divider ratio of the grid;
C17.b  the independent line receiver recovers the same bytes (start 0, eight data bits LSB first, stop 1).
"""
import random

from ..elab import ElabError, ElabRaise, PyExc
from ..ireval import EvalError, Nondet
from ..netlist import Design, NetError

LEVEL_TEXT = ('Static extraction + bounded co-simulation of the elaborated UART link with producer / consumer / line-receiver environment models '
              'over byte patterns, inter-byte gaps (swept over a bit period), consumer pacings and divider ratios >= 4.')
UART = 'py4hw/logic/protocol/uart/'


def build_link(facts, summaries, ratio):
    D = Design(facts, summaries)
    w = {}
    for n, wd in (('ser_ready', 1), ('ser_valid', 1), ('ser_v', 8), ('tx', 1), ('tx_clk_pulse', 1), ('rx_sample', 1), ('desync', 1),
                  ('des_ready', 1), ('des_valid', 1), ('des_v', 8)):
        w[n] = D.wire(n, wd)
    sysf = 1000 * ratio
    D.make('ClockGenerationAndRecovery', 'ck', w['tx'], w['desync'], w['tx_clk_pulse'], w['rx_sample'], sysf, 1000, rel=UART + 'clock.py')
    D.make('UARTSerializer', 'ser', w['ser_ready'], w['ser_valid'], w['ser_v'], w['tx_clk_pulse'], w['tx'], rel=UART + 'serdes.py')
    D.make('UARTDeserializer', 'des', w['tx'], w['rx_sample'], w['des_ready'], w['des_valid'], w['des_v'], w['desync'], rel=UART + 'serdes.py')
    D.prepare()
    return D, w


class LineReceiver:
    """independent 8N1 receiver: falling edge, then sample at 1.5, 2.5 ... bit periods"""

    def __init__(self, ratio):
        self.ratio = ratio
        self.prev = 1
        self.t0 = None
        self.bits = []
        self.bytes = []
        self.errors = []
        self.t = 0
        self.seen_high = False

    def sample(self, level):
        self.t += 1
        if level == 1:
            self.seen_high = True
        if self.t0 is None:
            if self.seen_high and self.prev == 1 and level == 0:
                self.t0 = self.t
                self.bits = []
        else:
            k = len(self.bits)
            # middle of bit k (k=0 is the start bit): t0 + k*ratio + ratio//2
            if self.t == self.t0 + k * self.ratio + self.ratio // 2:
                self.bits.append(level)
                if len(self.bits) == 10:
                    if self.bits[0] != 0:
                        self.errors.append('start bit not low')
                    if self.bits[9] != 1:
                        self.errors.append('stop bit not high')
                    self.bytes.append(sum(b << i for i, b in enumerate(self.bits[1:9])))
                    self.t0 = None
        self.prev = level


def run_link(facts, summaries, ratio, data, gap, cons, maxcycles=None, delay=0):
    D, w = build_link(facts, summaries, ratio)
    queue = list(data)
    accepted, delivered = [], []
    wait = delay
    rx = LineReceiver(ratio)
    maxcycles = maxcycles or (len(data) * 14 * ratio + gap * len(data) + delay + 80)
    quiet = 0
    for t in range(1, maxcycles):
        if queue and wait == 0:
            D.put(w['ser_valid'], 1)
            D.put(w['ser_v'], queue[0])
        else:
            D.put(w['ser_valid'], 0)
        D.put(w['des_ready'], cons(t))
        D.settle()
        tr_in = D.get(w['ser_valid']) == 1 and D.get(w['ser_ready']) == 1
        tr_out = D.get(w['des_valid']) == 1 and D.get(w['des_ready']) == 1
        vout = D.get(w['des_v'])
        rx.sample(D.get(w['tx']))
        D.clock()
        if tr_in:
            accepted.append(queue.pop(0))
            wait = gap
        elif wait > 0:
            wait -= 1
        if tr_out:
            delivered.append(vout)
        if not queue and len(delivered) >= len(accepted):
            quiet += 1
            if quiet > 3 * ratio + 12:
                break
    return accepted, delivered, rx


def run(ctx, sm, facts):
    ctx.rule('C17.a', 'elaborated link co-simulated: bytes accepted == bytes handed over (once, unchanged, in order)')
    ctx.rule('C17.b', 'independent 8N1 line receiver recovers the same bytes')
    for cn, rel in (('UARTSerializer', 'serdes.py'), ('UARTDeserializer', 'serdes.py'), ('ClockGenerationAndRecovery', 'clock.py')):
        if facts.cls(cn, UART + rel, required=False) is None:
            ctx.error('C17', 'anchor %s not found' % cn)
            return
    ctx.rule('C17.c', 'instance isolation: two links in one process do not share state (no class-level container / mutable default / memoised method in the UART files)')
    from ..leafrules import shared_instance_state
    shared_instance_state(ctx, facts, 'C17.c', [UART + 'serdes.py', UART + 'clock.py'])
    tier = ctx.tier
    summaries = {}
    rnd = random.Random(ctx.seed + 17)
    rb = [rnd.randrange(2) for _ in range(997)]
    consumers = [('always ready', lambda t: 1), ('every other cycle', lambda t: t % 2), ('low during hand-over windows', lambda t: int(t % 7 < 3)),
                 ('pseudo-random', lambda t: rb[t % 997])]
    msgs = [[0x46, 0xA3, 0x5C], [0x00, 0xFF, 0x01], [0x55, 0xAA, 0x80]]
    ratios = [4, 6] if tier == 'quick' else [4, 6, 8, 10]
    runs = []
    k = 0
    for ratio in ratios:
        for gap in range(0, ratio + 2):
            k += 1
            cset = consumers if (tier == 'thorough' and gap in (0, 1, 2)) else [consumers[k % len(consumers)]]
            for cname, cons in cset:
                runs.append((ratio, msgs[k % len(msgs)], gap, cname, cons, 0))
        for delay in range(1, ratio):
            k += 1
            runs.append((ratio, msgs[k % len(msgs)], 0, consumers[k % len(consumers)][0], consumers[k % len(consumers)][1], delay))
        # consumers that leave a completed byte pending for several bit periods while the next frame is already on the line.  The receiver has
        # one holding register and the hand-over needs two clocks with ready high, so a consumer is inside the domain of the property only if
        # two of its ready clocks fall within one frame time (10 bit periods): 2, 3 and 4 bit periods between ready clocks do.
        for periods in (2, 3, 4):
            for gap in (0, 1, ratio):
                k += 1
                runs.append((ratio, msgs[k % len(msgs)], gap, 'ready for one clock every %d bit periods' % periods,
                             (lambda t, P=periods * ratio: int(t % P == P - 1)), 0))
    if tier == 'thorough':
        runs.append((4, [rnd.randrange(256) for _ in range(8)], 0, 'always ready', consumers[0][1], 0))
        runs.append((6, [rnd.randrange(256) for _ in range(8)], 3, 'pseudo-random', consumers[3][1], 2))
    where = UART + 'serdes.py / clock.py'
    n = 0
    for ratio, msg, gap, cname, cons, delay in runs:
        try:
            acc, dlv, rx = run_link(facts, summaries, ratio, msg, gap, cons, delay=delay)
        except (ElabError, NetError, ElabRaise, PyExc) as e:
            ctx.error('C17.a', 'the link could not be elaborated / stepped: %s' % e)
            return
        except (EvalError, Nondet) as e:
            ctx.violation('C17.a', 'link-runs', 'a leaf summary of the link fails: %s' % e, where, witness=dict(ratio=ratio, message=msg, gap=gap))
            return
        n += 1
        wit = dict(first_byte_delay=delay, clocks_per_bit=ratio, bytes_offered=[hex(b) for b in msg], idle_cycles_between_bytes=gap, consumer=cname,
                   accepted=[hex(b) for b in acc], handed_over=[hex(b) for b in dlv], line_receiver=[hex(b) for b in rx.bytes])
        if acc != msg:
            ctx.violation('C17.a', 'all-bytes-accepted', 'the serializer did not accept every offered byte within the run', where, witness=wit)
            return
        if dlv != acc:
            ctx.violation('C17.a', 'delivered-once-in-order', 'the bytes handed over by the deserializer differ from the bytes accepted by the serializer', where, witness=wit)
            return
        if rx.bytes != acc or rx.errors:
            wit['framing_errors'] = rx.errors
            ctx.violation('C17.b', 'line-is-8N1', 'an independent 8N1 receiver on the line does not recover the transmitted bytes', where, witness=wit)
            return
        ctx.ok('C17.a', 'ratio=%d,gap=%d,delay=%d,%s' % (ratio, gap, delay, cname), '%d bytes accepted, handed over once in order; line decodes as 8N1' % len(acc), grade='bounded')
    ctx.ok('C17.b', 'line-is-8N1', 'independent receiver recovered the bytes in all %d runs' % n, grade='bounded')
    ctx.sample(dict(rule='C17.a', clocks_per_bit=4, bytes=['0x46', '0xa3'], gaps='0..4', note='idle gap swept cycle by cycle over one bit period'))
    ctx.not_decided += ['ratios, byte sequences and pacings outside the grid; unbounded streams']
    ctx.assumptions += ['a transfer happens at an edge where ready and valid were both 1 before the edge', 'summariser/elaborator faithful']
