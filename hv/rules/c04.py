"""C04 - combinational settling is complete and independent of construction order.

C04.a  propagate() discipline: a combinational block reads only its own input
       ports and writes (put) only its own output ports, never prepares, keeps
       no state (listed exceptions) - so the port graph the sorter uses is the
       true dependency graph;
C04.b  edge registration: ports of propagatable leaves are registered as sinks
       of their wire; addIn/addOut/... always build the port and append it;
C04.c  scheduling entry points: sort then propagateAll at construction, re-sort
       on every getSimulator()/Simulator(sys), propagateAll at the start of
       clk(), evaluation in list order, every propagatable leaf listed once;
       propagate() has no call site outside the simulator;
C04.d  sorter shape: swap-until-stable pass loop, swap guard decision table,
       first-dependent search over ALL out ports and ALL sinks, minimum index;
C04.e  cycle refusal: the pass bound raises inside the loop and no try/except
       on the way swallows it.
"""
import ast

from ..cfg import fn_paths, paths as cfg_paths, calls_on_path
from ..dectab import feasible, single_defs, Unknown, Obj
from ..facts import iter_functions, is_self_attr
from ..callgraph import qual
from ..srcmap import norm
from ..wiretype import WireTyper
from .c05 import is_call_to, complete_iteration

LEVEL_TEXT = ('Static port-discipline, registration, scheduling-entry and sorter-shape rules over the ast, the '
              'structured CFG paths and decision tables of the simulator; correctness of the sorter for all DAGs is not decided.')
SIM = 'py4hw/simulation.py'
BASE = 'py4hw/base.py'

# blocks that are stateful / I/O by design: outside "stateless combinational" (one line of reason each)
STATEFUL = {
    'Latch': 'level-sensitive storage: holds q when the enable is 0',
    'AsynchronousMemory': 'memory cells written from propagate()',
    'DUTProxy': 'hardware-in-the-loop I/O proxy (talks to a serial port)',
    'DUTProxyXRT': 'hardware-in-the-loop I/O proxy (talks to an FPGA runtime)',
    'BidirBuf': 'tri-state buffer on a bidirectional wire (multi-driver, outside the 2-valued single-driver model)',
    'PullUpBus': 'wired bus helper keeping a local counter',
}


def calls_in_path(evs):
    out = []
    for e in evs:
        if e.kind in ('stmt', 'branch', 'return', 'raise'):
            out += [c for c in ast.walk(e.node) if isinstance(c, ast.Call)]
        elif e.kind == 'loop' and isinstance(e.node, ast.For):
            out += [c for c in ast.walk(e.node.iter) if isinstance(c, ast.Call)]
    return out


# ---------------------------------------------------------------- C04.a
def root_port(e, alias, ports, depth=0):
    """-> (attr, direction) when e denotes a wire of port attribute `attr` of self"""
    if depth > 8:
        return None
    if isinstance(e, ast.Subscript):
        return root_port(e.value, alias, ports, depth + 1)
    if isinstance(e, ast.Attribute):
        if isinstance(e.value, ast.Name) and e.value.id == 'self':
            if e.attr in ports:
                return (e.attr, ports[e.attr][0])
            return (e.attr, None)
        # interface field self.i2c.SCL
        r = root_port(e.value, alias, ports, depth + 1)
        if r and r[1] and r[1].startswith('iface'):
            return (r[0] + '.' + e.attr, 'iface')
        return None
    if isinstance(e, ast.Name) and e.id in alias:
        return root_port(alias[e.id], alias, ports, depth + 1)
    return None


def loop_aliases(fn):
    """loop variables bound to elements of an expression: name -> iterable element expr"""
    out = {}
    for n in ast.walk(fn):
        if isinstance(n, (ast.For, ast.comprehension)):
            it, tg = n.iter, n.target
            if isinstance(it, ast.Call) and isinstance(it.func, ast.Name) and it.func.id == 'enumerate' and it.args \
                    and isinstance(tg, ast.Tuple) and len(tg.elts) == 2:
                it, tg = it.args[0], tg.elts[1]
            if isinstance(tg, ast.Name) and not isinstance(it, ast.Call):
                out[tg.id] = it
    return out


def check_a(ctx, facts):
    n = 0
    for c in facts.logic_classes():
        m = c.methods.get('propagate')
        if m is None:
            continue
        n += 1
        ports, _ = facts.ports(c)
        alias = dict(single_defs(m))
        alias.update(loop_aliases(m))
        where = '%s:%s.propagate' % (c.rel, c.name)
        key = '%s.propagate' % c.name
        bad = []
        known_attrs = facts.self_attrs_assigned(c)
        for x in ast.walk(m):
            if isinstance(x, ast.Call) and isinstance(x.func, ast.Attribute) and x.func.attr in ('get', 'put', 'prepare') \
                    and not (x.func.attr == 'get' and x.args):
                rp = root_port(x.func.value, alias, ports)
                if rp is None:
                    continue        # not a wire of self (e.g. dict.get on a local)
                attr, d = rp
                op = x.func.attr
                if d is None:
                    if attr not in known_attrs:
                        continue    # undefined attribute: C07.c/C09.c report definite failures
                    if op == 'get' and x.args:
                        continue
                    if c.name in STATEFUL:
                        continue
                    # attribute exists but is not a declared port: reading/writing a wire without a port
                    if any(attr == p for p in ports):
                        continue
                    bad.append('%s() on `%s`, which is not a port of the block' % (op, norm(x.func.value)))
                    continue
                if op == 'prepare':
                    bad.append('prepare() inside propagate(): `%s`' % norm(x))
                elif op == 'get' and d == 'out' and c.name not in STATEFUL:
                    bad.append('reads its own output `%s` (hidden state / dependency the sorter does not see)' % norm(x.func.value))
                elif op == 'put' and d == 'in':
                    bad.append('writes its input port `%s`' % norm(x.func.value))
            if isinstance(x, (ast.Assign, ast.AugAssign)) and c.name not in STATEFUL:
                tg = x.targets if isinstance(x, ast.Assign) else [x.target]
                for t in tg:
                    for y in ast.walk(t):
                        if is_self_attr(y) and isinstance(y.ctx, ast.Store):
                            bad.append('stores block state `%s` in propagate()' % norm(t))
                        if isinstance(y, ast.Subscript) and isinstance(y.ctx, ast.Store) and is_self_attr(y.value):
                            bad.append('stores block state `%s` in propagate()' % norm(t))
        if bad:
            for b in sorted(set(bad)):
                ctx.violation('C04.a', '%s:%s' % (key, b.split('`')[1] if '`' in b else b[:30]), b, where,
                              witness=dict(schedule='instantiate the consumer before the producer of that wire'))
        else:
            ctx.ok('C04.a', key, 'reads own inputs, puts own outputs, no prepare, no state' +
                   (' (listed stateful/I-O block: %s)' % STATEFUL[c.name] if c.name in STATEFUL else ''))
    ctx.floor('C04.a', 'propagate() methods', n, 30)
    ctx.analysed['propagate_methods'] = n
    ctx.excluded += ['%s: %s' % kv for kv in STATEFUL.items()]


# ---------------------------------------------------------------- C04.b
def check_b(ctx, facts):
    for pc, want in (('InPort', ['addSink']), ('InOutPort', ['addSink']), ('OutPort', [])):
        c = facts.cls(pc, BASE)
        ini = facts.lookup(c, '__init__')
        where = '%s:%s.__init__' % (BASE, pc)
        if ini is None:
            ctx.error('C04.b', 'anchor %s.__init__ not found' % pc)
            continue
        a = [x.arg for x in ini.args.args]
        if len(a) < 4:
            ctx.error('C04.b', '%s.__init__ signature not recognised' % pc)
            continue
        par, wire = a[1], a[3]
        atoms = {'%s.isPrimitive()' % par: True, '%s.isPropagatable()' % par: True, '%s.isClockable()' % par: False,
                 'self.parent.isPrimitive()': True, 'self.parent.isPropagatable()': True, 'self.parent.isClockable()': False}
        try:
            fs = feasible(fn_paths(ini), atoms, single_defs(ini))
        except Unknown as e:
            ctx.error('C04.b', '%s registration guard not evaluable: %s' % (pc, e))
            continue
        ok = len(fs) == 1
        for evs, ex in fs:
            stores = {norm(t): norm(e.node.value) for e in evs if e.kind == 'stmt' and isinstance(e.node, ast.Assign) for t in e.node.targets}
            if stores.get('self.parent') != par or stores.get('self.wire') != wire:
                ok = False
                ctx.violation('C04.b', '%s-fields' % pc, 'port does not record its parent block and wire (%s)' % stores, where)
            for w in want:
                cs = [x for x in calls_in_path(evs) if is_call_to(x, w) and norm(x.func.value) in (wire, 'self.wire')
                      and [norm(z) for z in x.args] == ['self']]
                if len(cs) != 1:
                    ok = False
                    ctx.violation('C04.b', '%s-registers-sink' % pc,
                                  'an input port of a propagatable leaf is registered as sink of its wire %d times' % len(cs), where,
                                  witness=dict(configuration='any two chained combinational blocks instantiated consumer-first'))
        if ok:
            ctx.ok('C04.b', '%s-registration' % pc, 'records parent/wire' + (', registers itself as sink for propagatable leaves' if want else ''))
    # Wire.addSink / getSinks (Wire and BidirWire)
    for wc in ('Wire', 'BidirWire'):
        c = facts.cls(wc, BASE)
        asink = c.methods.get('addSink') or facts.lookup(c, 'addSink')
        gs = c.methods.get('getSinks') or facts.lookup(c, 'getSinks')
        ok = asink is not None and gs is not None
        if ok:
            p = [x.arg for x in asink.args.args][1:2]
            apps = [x for x in ast.walk(asink) if isinstance(x, ast.Call) and is_call_to(x, 'append') and norm(x.func.value) == 'self.sinks'
                    and [norm(z) for z in x.args] == p]
            ok = len(apps) == 1 and all(any(apps[0] in list(ast.walk(e.node)) for e in evs if e.kind == 'stmt') for evs, ex in fn_paths(asink) if ex != 'raise')
            rets = [r for r in ast.walk(gs) if isinstance(r, ast.Return)]
            ok = ok and rets and all(r.value is not None and norm(r.value) == 'self.sinks' for r in rets)
        if ok:
            ctx.ok('C04.b', '%s-sinks' % wc, 'addSink appends, getSinks returns the list')
        else:
            ctx.violation('C04.b', '%s-sinks' % wc, 'addSink/getSinks do not keep and return every registered sink', '%s:%s' % (BASE, wc),
                          witness=dict(configuration='fan-out of two'))
    # Logic.addIn/addOut/addInOut build the port and append it to the right list
    lg = facts.cls('Logic', BASE)
    for mname, pcls, lst in (('addIn', 'InPort', 'self.inPorts'), ('addOut', 'OutPort', 'self.outPorts'), ('addInOut', 'InOutPort', 'self.inOutPorts')):
        m = lg.methods.get(mname)
        if m is None:
            ctx.error('C04.b', 'anchor Logic.%s not found' % mname)
            continue
        a = [x.arg for x in m.args.args]
        alias = single_defs(m)
        ok = True
        for evs, ex in fn_paths(m):
            if ex == 'raise':
                continue
            apps = [x for x in calls_in_path(evs) if is_call_to(x, 'append') and norm(x.func.value) == lst]
            good = 0
            for x in apps:
                v = x.args[0] if x.args else None
                if isinstance(v, ast.Name) and v.id in alias:
                    v = alias[v.id]
                if isinstance(v, ast.Call) and norm(v.func) == pcls and [norm(z) for z in v.args] == ['self', a[1], a[2]]:
                    good += 1
            if good != 1 or len(apps) != 1:
                ok = False
            r = evs[-1].node.value if ex == 'return' else None
            if r is None or norm(r) != a[2]:
                ok = False
        if ok:
            ctx.ok('C04.b', 'Logic.%s' % mname, 'creates %s(self, name, wire), appends it to %s, returns the wire' % (pcls, lst))
        else:
            ctx.violation('C04.b', 'Logic.%s' % mname, '%s does not create exactly one %s(self, name, wire) appended to %s and return the wire' % (mname, pcls, lst),
                          '%s:Logic.%s' % (BASE, mname))
    for mname in ('addInterfaceSource', 'addInterfaceSink'):
        m = lg.methods.get(mname)
        if m is None:
            continue
        # every port constructed in a loop is appended to the list of its own direction
        ok = True
        loops = [x for x in ast.walk(m) if isinstance(x, ast.For)]
        for lp in loops:
            al = single_defs(list(lp.body))
            for evs, ex in cfg_paths(lp.body):
                made = [(k, v) for k, v in al.items() if isinstance(v, ast.Call) and norm(v.func) in ('InPort', 'OutPort')]
                for k, v in made:
                    want = 'self.inPorts' if norm(v.func) == 'InPort' else 'self.outPorts'
                    apps = [x for x in calls_in_path(evs) if is_call_to(x, 'append') and norm(x.func.value) == want and [norm(z) for z in x.args] == [k]]
                    if len(apps) != 1 or ex in ('break', 'return'):
                        ok = False
                if not made:
                    ok = False
        if ok and len(loops) == 2:
            ctx.ok('C04.b', 'Logic.%s' % mname, 'every interface signal gets a port appended to the list of its direction')
        else:
            ctx.violation('C04.b', 'Logic.%s' % mname, 'interface ports are not all created and appended to the list of their direction',
                          '%s:Logic.%s' % (BASE, mname))


# ---------------------------------------------------------------- C04.c
def check_c(ctx, facts):
    sim = facts.cls('Simulator', SIM)
    hs = facts.cls('HWSystem', BASE)
    ini = sim.methods.get('__init__')
    new = sim.methods.get('__new__')
    gs = hs.methods.get('getSimulator')
    clk = sim.methods.get('clk')
    ts = sim.methods.get('topologicalSort')
    pa = sim.methods.get('propagateAll')
    for nm, f in (('Simulator.__init__', ini), ('HWSystem.getSimulator', gs), ('Simulator.clk', clk),
                  ('Simulator.topologicalSort', ts), ('Simulator.propagateAll', pa)):
        if f is None:
            ctx.error('C04.c', 'anchor %s not found' % nm)
            return
    # Simulator.__init__: fresh path sorts, then propagates
    sysn = ini.args.args[1].arg
    EXIST, FRESH = Obj('sim'), None
    for scen, val in (('fresh system', FRESH), ('system already has a simulator', EXIST)):
        atoms = {'%s.simulator' % sysn: val, 'self.sys.simulator': val}
        fs = feasible(fn_paths(ini), atoms, single_defs(ini), unknown='both')
        okc = True
        for evs, ex in fs:
            if ex == 'raise':
                continue
            cs = calls_in_path(evs)
            srt = [i for i, x in enumerate(cs) if is_call_to(x, 'topologicalSort')]
            prp = [i for i, x in enumerate(cs) if is_call_to(x, 'propagateAll')]
            if val is FRESH:
                if not (len(srt) >= 1 and len(prp) >= 1 and min(srt) < min(prp)):
                    conds = [(norm(e.node), e.val) for e in evs if e.kind == 'branch']
                    # skipping the settle pass is harmless only when there is nothing to settle
                    harmless = not prp and srt and all('propagatables' in c for c, v in conds if 'simulator' not in c) and any('propagatables' in c for c, v in conds)
                    if not harmless:
                        okc = False
                        ctx.violation('C04.c', 'construct:%s' % scen, 'a new simulator can leave the netlist unsettled (under %s): sort calls=%d, propagateAll calls=%d'
                                      % ([c for c in conds if 'simulator' not in c[0]][-2:], len(srt), len(prp)), '%s:Simulator.__init__' % SIM,
                                      witness=dict(schedule='read combinational outputs after getSimulator() and before any clk()'))
                        break
        if val is FRESH and okc:
            ctx.ok('C04.c', 'construct:%s' % scen, 'topologicalSort() then propagateAll() on every feasible path')
        for evs, ex in []:
            if val is FRESH:
                pass
            else:
                # existing simulator: __new__ must have re-sorted
                pass
    # Simulator.__new__ on existing simulator re-sorts it
    if new is not None:
        sysn2 = new.args.args[1].arg
        atoms = {'%s.simulator' % sysn2: EXIST}
        try:
            fs = feasible(fn_paths(new), atoms, single_defs(new))
            ok = bool(fs) and all(any(is_call_to(x, 'topologicalSort') and norm(x.func.value) == '%s.simulator' % sysn2 for x in calls_in_path(evs))
                                  and ex == 'return' and norm(evs[-1].node.value) == '%s.simulator' % sysn2 for evs, ex in fs)
            if ok:
                ctx.ok('C04.c', 'Simulator.__new__:existing', 're-sorts and returns the existing simulator')
            else:
                ctx.violation('C04.c', 'Simulator.__new__:existing', 'Simulator(sys) on a system that already has a simulator does not re-sort it',
                              '%s:Simulator.__new__' % SIM, witness=dict(history='Simulator(sys); add blocks; Simulator(sys); clk'))
        except Unknown as e:
            ctx.error('C04.c', 'Simulator.__new__ guard not evaluable: %s' % e)
    # HWSystem.getSimulator
    for scen, val in (('first call', None), ('later call', EXIST)):
        atoms = {'self.simulator': val}
        try:
            fs = feasible(fn_paths(gs), atoms, single_defs(gs))
        except Unknown as e:
            ctx.error('C04.c', 'getSimulator guard not evaluable: %s' % e)
            break
        for evs, ex in fs:
            cs = calls_in_path(evs)
            if val is None:
                mk = [x for x in cs if norm(x.func) == 'Simulator' and [norm(z) for z in x.args] == ['self']]
                st = [e for e in evs if e.kind == 'stmt' and isinstance(e.node, ast.Assign) and any(norm(t) == 'self.simulator' for t in e.node.targets)]
                if mk and st:
                    ctx.ok('C04.c', 'getSimulator:first call', 'creates and stores Simulator(self)')
                else:
                    ctx.violation('C04.c', 'getSimulator:first call', 'first call does not create and keep a Simulator(self)', '%s:HWSystem.getSimulator' % BASE)
            else:
                rs = [x for x in cs if is_call_to(x, 'topologicalSort') and norm(x.func.value) == 'self.simulator'] + \
                     [x for x in cs if norm(x.func) == 'Simulator' and [norm(z) for z in x.args] == ['self']]
                if rs:
                    ctx.ok('C04.c', 'getSimulator:later call', 're-sorts the existing simulator (late additions are scheduled)')
                else:
                    ctx.violation('C04.c', 'getSimulator:later call', 'a later getSimulator() does not re-sort: blocks added after the first call are never scheduled',
                                  '%s:HWSystem.getSimulator' % BASE, witness=dict(history='getSimulator(); add a block; getSimulator(); clk(1)'))
    # clk() starts with propagateAll
    first = None
    for evs, ex in fn_paths(clk):
        cs = [x for x in calls_in_path(evs) if is_call_to(x, 'propagateAll') or is_call_to(x, '_clk_cycle')]
        if cs and not is_call_to(cs[0], 'propagateAll'):
            first = False
        if not cs and ex != 'raise':
            first = False
    if first is None:
        ctx.ok('C04.c', 'clk-starts-settled', 'clk() calls propagateAll() before the first edge on every path')
    else:
        ctx.violation('C04.c', 'clk-starts-settled', 'clk() can issue an edge before propagateAll() has settled poked inputs', '%s:Simulator.clk' % SIM,
                      witness=dict(history='poke an input wire with put(), then clk(1): registers capture the stale combinational value'))
    # evaluation in list order
    for nm, f in (('propagateAll', pa), ('_clk_cycle', sim.methods.get('_clk_cycle'))):
        for lp in [x for x in ast.walk(f) if isinstance(x, ast.For) and any(isinstance(y, ast.Call) and is_call_to(y, 'propagate') for y in ast.walk(x))]:
            if norm(lp.iter) == 'self.propagatables':
                ctx.ok('C04.c', '%s-order' % nm, 'iterates self.propagatables in list order')
            else:
                ctx.violation('C04.c', '%s-order' % nm, 'evaluation loop iterates `%s`, not the sorted list in order' % norm(lp.iter), '%s:Simulator.%s' % (SIM, nm),
                              witness=dict(schedule='a chain of three combinational blocks'))
    # every propagatable leaf is listed exactly once
    loops = [x for x in ast.walk(ts) if isinstance(x, ast.For) and any(
        isinstance(y, ast.Call) and is_call_to(y, 'append') and norm(y.func.value) == 'self.propagatables' for y in ast.walk(x))]
    if len(loops) != 1 or not isinstance(loops[0].target, ast.Name):
        ctx.error('C04.c', 'registration loop appending to self.propagatables not found')
    else:
        lp = loops[0]
        leaf = lp.target.id
        al = single_defs(ts)
        itx = alias_of(lp.iter, al)
        if norm(itx) != 'self.sys.allLeaves()':
            ctx.violation('C04.c', 'schedule-domain', 'scheduling loop iterates `%s`, not every leaf of the system' % norm(itx), '%s:Simulator.topologicalSort' % SIM)
        resets = all(any(e.kind == 'stmt' and isinstance(e.node, ast.Assign) and any(norm(t) == 'self.propagatables' for t in e.node.targets)
                         and isinstance(e.node.value, ast.List) and not e.node.value.elts for e in evs[:[i for i, e in enumerate(evs) if e.node is lp][0]])
                     for evs, ex in fn_paths(ts) if any(e.node is lp for e in evs))
        if not resets:
            ctx.violation('C04.c', 'schedule-reset', 'a re-sort does not start from an empty evaluation list', '%s:Simulator.topologicalSort' % SIM,
                          witness=dict(history='getSimulator() twice'))
        ok = True
        for pv in (True, False):
            for cv in (True, False):
                atoms = {'%s.isPropagatable()' % leaf: pv, '%s.isClockable()' % leaf: cv}
                try:
                    fs = feasible(cfg_paths(lp.body), atoms, single_defs(list(lp.body)))
                except Unknown as e:
                    ctx.error('C04.c', 'scheduling guard not evaluable: %s' % e)
                    fs = []
                    ok = False
                for evs, ex in fs:
                    apps = [x for x in calls_in_path(evs) if is_call_to(x, 'append') and norm(x.func.value) == 'self.propagatables'
                            and [norm(z) for z in x.args] == [leaf]]
                    if len(apps) != (1 if pv else 0) or ex in ('break', 'return'):
                        ok = False
                        ctx.violation('C04.c', 'schedule-once', 'a leaf with propagate()=%s clock()=%s is appended %d times to the evaluation list (exit %s)'
                                      % (pv, cv, len(apps), ex), '%s:Simulator.topologicalSort' % SIM,
                                      witness=dict(configuration='leaf that is %spropagatable and %sclockable' % ('' if pv else 'not ', '' if cv else 'not ')))
        if ok and resets:
            ctx.ok('C04.c', 'schedule-once', 'fresh list; every propagatable leaf of sys.allLeaves() appended exactly once')
    # allLeaves is exhaustive
    lg = facts.cls('Logic', BASE)
    al = lg.methods.get('allLeaves')
    if al is None:
        ctx.error('C04.c', 'anchor Logic.allLeaves not found')
    else:
        loops = [x for x in ast.walk(al) if isinstance(x, ast.For)]
        ok = len(loops) == 1 and norm(loops[0].iter) in ('self.children.values()',) and complete_iteration(loops[0], 'allLeaves') is None
        rets = [r for r in ast.walk(al) if isinstance(r, ast.Return)]
        leaf_self = any(isinstance(x, ast.List) and [norm(z) for z in x.elts] == ['self'] for x in ast.walk(al))
        if ok and rets and leaf_self:
            ctx.ok('C04.c', 'allLeaves-exhaustive', 'recurses into every child, a childless block is its own leaf')
        else:
            ctx.violation('C04.c', 'allLeaves-exhaustive', 'allLeaves() does not visit every child / return the block itself when it has none', '%s:Logic.allLeaves' % BASE,
                          witness=dict(configuration='parent with two children'))
    # propagate() call sites
    sites = []
    for rel, c, fn in iter_functions(facts):
        for x in ast.walk(fn):
            if isinstance(x, ast.Call) and isinstance(x.func, ast.Attribute) and x.func.attr == 'propagate' and not x.args:
                if norm(x.func.value).startswith('super('):
                    continue
                sites.append((rel, qual(c, fn)))
    foreign = [s for s in sites if s[0] != SIM and not s[0].startswith('py4hw/gui') and not s[1].endswith('.propagate')]
    if foreign:
        for s in sorted(set(foreign)):
            ctx.violation('C04.c', 'propagate-call-site:%s' % s[1], 'propagate() is called outside the simulator schedule', '%s:%s' % s)
    else:
        ctx.ok('C04.c', 'propagate-call-sites', 'propagate() is only called by the simulator: %s' % sorted(set(sites)))


def alias_of(e, al):
    seen = 0
    while isinstance(e, ast.Name) and e.id in al and seen < 6:
        e = al[e.id]
        seen += 1
    return e


# ---------------------------------------------------------------- C04.d / C04.e
def check_d(ctx, facts):
    sim = facts.cls('Simulator', SIM)
    ts = sim.methods.get('topologicalSort')
    ffd = sim.methods.get('findFirstDependentPosition')
    where = '%s:Simulator.topologicalSort' % SIM
    if ts is None or ffd is None:
        ctx.error('C04.d', 'anchors topologicalSort / findFirstDependentPosition not found')
        return
    whiles = [x for x in ast.walk(ts) if isinstance(x, ast.While)]
    if len(whiles) != 1 or not isinstance(whiles[0].test, ast.Name):
        ctx.error('C04.d', 'the sorter is no longer a `while <flag>` swap-until-stable loop; rule not evaluable')
        return
    wl = whiles[0]
    flag = wl.test.id
    # flag true before loop
    pre_ok = any(isinstance(s, ast.Assign) and any(isinstance(t, ast.Name) and t.id == flag for t in s.targets) and norm(s.value) == 'True'
                 for s in ts.body if s.lineno < wl.lineno)
    fors = [x for x in wl.body if isinstance(x, ast.For)]
    if len(fors) != 1:
        ctx.error('C04.d', 'pass loop `for i in range(len(self.propagatables))` not found')
        return
    fl = fors[0]
    enum_leaf = None
    if isinstance(fl.target, ast.Tuple) and len(fl.target.elts) == 2 and all(isinstance(x, ast.Name) for x in fl.target.elts) \
            and norm(fl.iter).replace(' ', '') == 'enumerate(self.propagatables)':
        i, enum_leaf = fl.target.elts[0].id, fl.target.elts[1].id
    elif isinstance(fl.target, ast.Name):
        i = fl.target.id
    else:
        ctx.error('C04.d', 'pass loop target not recognised')
        return
    if enum_leaf is None and norm(fl.iter).replace(' ', '') not in ('range(len(self.propagatables))', 'range(0,len(self.propagatables))'):
        ctx.violation('C04.d', 'pass-covers-list', 'a pass iterates `%s`, not every position of the evaluation list' % norm(fl.iter), where,
                      witness=dict(schedule='dependent block in the last position'))
    else:
        ctx.ok('C04.d', 'pass-covers-list', 'each pass visits every position')
    # flag cleared at pass start (before the for) on every path
    clear_ok = False
    for s in wl.body:
        if s is fl:
            break
        if isinstance(s, ast.Assign) and any(isinstance(t, ast.Name) and t.id == flag for t in s.targets) and norm(s.value) == 'False':
            clear_ok = True
    if pre_ok and clear_ok:
        ctx.ok('C04.d', 'flag-protocol', 'flag set before the loop and cleared at the start of every pass')
    else:
        ctx.violation('C04.d', 'flag-protocol', 'the change flag is not (set before the loop, cleared at pass start): the sorter stops early or never', where)
    # body: leaf, pos
    al = single_defs(list(fl.body))
    posn = [k for k, v in al.items() if isinstance(v, ast.Call) and is_call_to(v, 'findFirstDependentPosition')]
    leafn = [k for k, v in al.items() if norm(v) == 'self.propagatables[%s]' % i]
    if enum_leaf is not None:
        leafn = [enum_leaf]
    if len(posn) != 1 or len(leafn) != 1 or [norm(z) for z in al[posn[0]].args] != [leafn[0]]:
        ctx.error('C04.d', 'pass body no longer has the shape leaf = list[i]; pos = findFirstDependentPosition(leaf)')
        return
    pos, leaf = posn[0], leafn[0]
    al2 = {k: v for k, v in al.items() if k not in (pos, leaf)}
    scen = [(-1, 0, False), (-1, 3, False), (0, 1, True), (0, 0, 'self'), (1, 2, True), (2, 1, False), (0, 5, True), (3, 3, 'self'), (4, 5, True)]
    okg = True
    for pv, iv, want in scen:
        try:
            fs = feasible(cfg_paths(fl.body), {pos: pv, i: iv}, al2)
        except Unknown as e:
            ctx.error('C04.d', 'swap guard not evaluable: %s' % e)
            return
        for evs, ex in fs:
            stores = [(norm(t.slice), norm(e.node.value)) for e in evs if e.kind == 'stmt' and isinstance(e.node, ast.Assign)
                      for t in e.node.targets if isinstance(t, ast.Subscript) and norm(t.value) == 'self.propagatables']
            tup = [e.node for e in evs if e.kind == 'stmt' and isinstance(e.node, ast.Assign) and isinstance(e.node.targets[0], ast.Tuple)]
            for t in tup:
                for a, b in zip(t.targets[0].elts, t.value.elts if isinstance(t.value, ast.Tuple) else []):
                    if isinstance(a, ast.Subscript) and norm(a.value) == 'self.propagatables':
                        stores.append((norm(a.slice), norm(b)))
            setf = any(e.kind == 'stmt' and isinstance(e.node, ast.Assign) and any(isinstance(t, ast.Name) and t.id == flag for t in e.node.targets)
                       and norm(e.node.value) == 'True' for e in evs)
            swapped = bool(stores)
            if want == 'self':
                # pos == i: the block is its own first dependent (its output feeds its own input): a combinational
                # cycle, which must be refused - by raising here or by a swap+flag that keeps the passes going until the bound raises
                if ex == 'raise' or (swapped and setf):
                    ctx.ok('C04.e', 'self-loop-refused:pos=i=%d' % pv, 'a block that is its own dependent keeps the sorter unstable (bound raises) or raises at once')
                else:
                    okg = False
                    ctx.violation('C04.e', 'self-loop-refused', 'a block whose output feeds its own input (pos == i) is accepted as sorted: the cyclic netlist is simulated instead of refused',
                                  where, witness=dict(netlist="a = sys.wire('a'); Not(sys, 'n', a, a); sys.getSimulator()", pos=pv, i=iv))
                continue
            if swapped != want or (want and not setf) or ex in ('break', 'return'):
                okg = False
                ctx.violation('C04.d', 'swap-guard:pos=%d,i=%d' % (pv, iv),
                              'with the first dependent at position %d and the block at position %d the sorter %s (flag set: %s, exit %s); expected %s'
                              % (pv, iv, 'swaps' if swapped else 'does not swap', setf, ex, 'swap + flag' if want else 'no swap'), where,
                              witness=dict(pos=pv, i=iv, schedule='instantiate the consumer first so that it sits at list position %d' % pv))
            if want and swapped:
                # after the swap: list[pos] = leaf, list[i] = old list[pos]
                first = [k for k, v in al.items() if norm(v) == 'self.propagatables[%s]' % pos]
                good = {(pos, leaf), (i, first[0] if first else 'self.propagatables[%s]' % pos)}
                good2 = {(pos, 'self.propagatables[%s]' % i), (i, 'self.propagatables[%s]' % pos)}
                if set(stores) != good and set(stores) != good2 and set(stores) != {(pos, leaf), (i, 'self.propagatables[%s]' % pos)}:
                    okg = False
                    ctx.violation('C04.d', 'swap-exchanges', 'the swap does not exchange the block with its first dependent: stores %s' % sorted(stores), where,
                                  witness=dict(pos=pv, i=iv))
    if okg:
        ctx.ok('C04.d', 'swap-guard', 'decision table over %d (pos,i) scenarios: swap and set the flag exactly when 0 <= pos < i' % len(scen))
        ctx.sample(dict(rule='C04.d', scenarios=scen, verdict='swap iff 0<=pos<i'))
    # ---- C04.e bound raises inside the loop
    raises = [x for x in ast.walk(wl) if isinstance(x, ast.Raise)]
    bound_ok = False
    for evs, ex in cfg_paths(wl.body):
        pass
    cnt = [s for s in wl.body if isinstance(s, ast.AugAssign) and isinstance(s.target, ast.Name) and isinstance(s.op, ast.Add)]
    for s in wl.body:
        if isinstance(s, ast.If) and any(isinstance(x, ast.Raise) for x in s.body) and isinstance(s.test, ast.Compare) \
                and isinstance(s.test.left, ast.Name) and cnt and s.test.left.id == cnt[0].target.id \
                and isinstance(s.test.ops[0], (ast.Gt, ast.GtE)) and isinstance(s.test.comparators[0], ast.Constant):
            bound_ok = True
    if bound_ok and raises:
        ctx.ok('C04.e', 'pass-bound-raises', 'pass counter incremented every pass; exceeding the bound raises inside the loop')
    else:
        ctx.violation('C04.e', 'pass-bound-raises', 'exceeding the pass bound does not raise: a combinational cycle is simulated (or the sorter hangs) instead of being refused',
                      where, witness=dict(configuration='two Not gates in a ring'))
    # no try/except around the refusal
    swallowed = []
    for nm, f in (('Simulator.topologicalSort', ts), ('Simulator.__init__', sim.methods.get('__init__')), ('Simulator.__new__', sim.methods.get('__new__')),
                  ('HWSystem.getSimulator', facts.cls('HWSystem', BASE).methods.get('getSimulator'))):
        if f is None:
            continue
        for t in [x for x in ast.walk(f) if isinstance(x, ast.Try)]:
            for x in t.body:
                for y in ast.walk(x):
                    if isinstance(y, ast.Raise) or (isinstance(y, ast.Call) and (is_call_to(y, 'topologicalSort') or norm(y.func) == 'Simulator')):
                        swallowed.append('%s: `%s` inside try' % (nm, norm(y)[:50]))
    if swallowed:
        ctx.violation('C04.e', 'refusal-not-swallowed', 'the cycle refusal can be caught on the way to the caller: %s' % swallowed, where,
                      witness=dict(configuration='two Not gates in a ring'))
    else:
        ctx.ok('C04.e', 'refusal-not-swallowed', 'no try/except between getSimulator() and the raise')
    # ---- findFirstDependentPosition
    w2 = '%s:Simulator.findFirstDependentPosition' % SIM
    objn = ffd.args.args[1].arg
    outer = [x for x in ffd.body if isinstance(x, ast.For) and norm(x.iter) == '%s.outPorts' % objn]
    if len(outer) != 1 or not isinstance(outer[0].target, ast.Name):
        ctx.error('C04.d', 'findFirstDependentPosition: loop over %s.outPorts not found' % objn)
        return
    ol = outer[0]
    port = ol.target.id
    # accumulator: the list whose elements are looked up with .index at the end
    idx_calls = [x for x in ast.walk(ffd) if isinstance(x, ast.Call) and is_call_to(x, 'index') and norm(x.func.value) == 'self.propagatables']
    acc = None
    for x in ast.walk(ol):
        if isinstance(x, ast.Call) and is_call_to(x, 'append') and isinstance(x.func.value, ast.Name):
            acc = x.func.value.id
        if isinstance(x, ast.AugAssign) and isinstance(x.target, ast.Name) and isinstance(x.op, ast.Add):
            acc = x.target.id
        if isinstance(x, ast.Call) and is_call_to(x, 'extend') and isinstance(x.func.value, ast.Name):
            acc = x.func.value.id
    if acc is None:
        # plain assignment inside the loop = accumulator reset per port
        asg = [x for x in ast.walk(ol) if isinstance(x, ast.Assign) and isinstance(x.targets[0], ast.Name) and isinstance(x.value, (ast.ListComp, ast.List))]
        if asg:
            ctx.violation('C04.d', 'dependents-all-ports', 'the dependent list is re-assigned for every output port (`%s`): only the last port\'s fan-out counts'
                          % norm(asg[0])[:80], w2, witness=dict(configuration='multi-output block (BitsLSBF) whose first output feeds an earlier-instantiated block'))
        else:
            ctx.error('C04.d', 'findFirstDependentPosition: accumulator of dependents not recognised')
        return
    resets_in_loop = [x for x in ast.walk(ol) if isinstance(x, ast.Assign) and any(isinstance(t, ast.Name) and t.id == acc for t in x.targets)]
    init = [s for s in ffd.body if isinstance(s, ast.Assign) and any(isinstance(t, ast.Name) and t.id == acc for t in s.targets)
            and isinstance(s.value, ast.List) and not s.value.elts and s.lineno < ol.lineno]
    okp = True
    if resets_in_loop or len(init) != 1:
        okp = False
        ctx.violation('C04.d', 'dependents-all-ports', 'the dependent list is reset inside the port loop (or not initialised empty once): only part of the fan-out counts',
                      w2, witness=dict(configuration='multi-output block whose first output feeds an earlier-instantiated block'))
    # outer loop exits: only `continue` under wire is None
    for evs, ex in cfg_paths(ol.body):
        if ex in ('break', 'return'):
            okp = False
            ctx.violation('C04.d', 'dependents-all-ports', 'the port loop can be left early (%s): later output ports are ignored' % ex, w2,
                          witness=dict(configuration='block with two outputs'))
        if ex == 'continue':
            conds = [(norm(e.node), e.val) for e in evs if e.kind == 'branch']
            if not (len(conds) == 1 and conds[0][0].replace('(', '').replace(')', '') in ('%s.wire is None' % port, '%s.wire == None' % port) and conds[0][1]):
                okp = False
                ctx.violation('C04.d', 'dependents-all-ports', 'an output port is skipped for a reason other than being unconnected: %s' % conds, w2)
    # inner: all sinks of the port's wire, parent, filtered by isPropagatable
    bal = single_defs(list(ol.body))
    inner = [x for x in ast.walk(ol) if isinstance(x, (ast.For, ast.comprehension)) and x is not ol]
    oks = False
    for il in inner:
        itx = alias_of(il.iter, bal)
        if norm(itx) not in ('%s.wire.getSinks()' % port, '%s.wire.sinks' % port):
            continue
        sv = il.target.id if isinstance(il.target, ast.Name) else None
        if isinstance(il, ast.For):
            ial = single_defs(list(il.body))
            good = True
            for evs, ex in cfg_paths(il.body):
                if ex in ('break', 'return'):
                    good = False
            for pv in (True, False):
                # element: sinkPort.parent
                elems = [k for k, v in ial.items() if norm(v) == '%s.parent' % sv] + ['%s.parent' % sv]
                atoms = {}
                for el in elems:
                    atoms['%s.isPropagatable()' % el] = pv
                try:
                    fs = feasible(cfg_paths(il.body), atoms, {})
                except Unknown:
                    good = False
                    fs = []
                for evs, ex in fs:
                    apps = [x for x in calls_in_path(evs) if is_call_to(x, 'append') and norm(x.func.value) == acc and norm(x.args[0]) in elems]
                    if len(apps) != (1 if pv else 0):
                        good = False
            oks = good
        else:
            # comprehension feeding += / extend
            comp = [x for x in ast.walk(ol) if isinstance(x, ast.ListComp) and il in x.generators]
            if comp and norm(comp[0].elt) == '%s.parent' % sv and len(il.ifs) == 1 and norm(il.ifs[0]) == '%s.parent.isPropagatable()' % sv:
                oks = True
    if not oks:
        okp = False
        ctx.violation('C04.d', 'dependents-all-sinks', 'not every propagatable sink of every output wire is collected as a dependent', w2,
                      witness=dict(configuration='output with fan-out two, second consumer instantiated first'))
    if okp:
        ctx.ok('C04.d', 'dependents-complete', 'all output ports x all sinks, filtered by isPropagatable(), accumulated in one list')
    # minimum index
    rets = [r for r in ast.walk(ffd) if isinstance(r, ast.Return)]
    okm = False
    tail = [s for s in ffd.body if s.lineno > ol.lineno]
    txt = ' '.join(norm(s) for s in tail)
    if 'min(' in txt and 'self.propagatables.index' in txt:
        okm = True
    else:
        # explicit loop: if pos < minPos: minPos = pos
        loops = [s for s in tail if isinstance(s, ast.For)]
        mins = [r for r in rets if isinstance(r.value, ast.Name)]
        if loops and mins:
            mn = mins[-1].value.id
            lp = loops[-1]
            lal = single_defs(list(lp.body))
            pn = [k for k, v in lal.items() if isinstance(v, ast.Call) and is_call_to(v, 'index')]
            covers = norm(lp.iter).replace(' ', '') in ('range(len(%s))' % acc, acc, 'range(0,len(%s))' % acc, 'range(1,len(%s))' % acc)
            if pn and covers:
                good = True
                for a, b, want in ((0, 1, True), (1, 0, False), (1, 1, False)):
                    try:
                        fs = feasible(cfg_paths(lp.body), {pn[0]: a, mn: b}, {})
                    except Unknown:
                        good = False
                        fs = []
                    for evs, ex in fs:
                        st = [e for e in evs if e.kind == 'stmt' and isinstance(e.node, ast.Assign) and any(isinstance(t, ast.Name) and t.id == mn for t in e.node.targets)
                              and norm(e.node.value) == pn[0]]
                        if bool(st) != want or ex in ('break', 'return'):
                            good = False
                init_ok = any(isinstance(s, ast.Assign) and any(isinstance(t, ast.Name) and t.id == mn for t in s.targets) and 'index(%s[0])' % acc in norm(s.value)
                              for s in tail)
                okm = good and init_ok
    none_ok = any(isinstance(r.value, ast.UnaryOp) and norm(r.value) == '-1' for r in rets if r.value is not None)
    if okm and none_ok:
        ctx.ok('C04.d', 'first-dependent-minimum', 'returns the minimum list index over all dependents, -1 when there is none')
    else:
        ctx.violation('C04.d', 'first-dependent-minimum', 'the search does not return the minimum position over all dependents (or -1 for none)', w2,
                      witness=dict(configuration='fan-out two with the second consumer earlier in the list'))


# ---------------------------------------------------------------- C04.f sorter on elaborated netlists
def check_f(ctx, facts, tier, seed):
    """The scheduling code is structure-only (it never touches a wire value), so it is evaluated abstractly
    (hv/elab.py) on elaborated netlists: random acyclic netlists built in shuffled instantiation orders, the
    library catalogue, and small cyclic netlists.  The resulting evaluation list must be a topological order of
    the wire-dependency graph; cyclic netlists must be refused."""
    import random
    from ..elab import ElabError, ElabRaise, PyExc, ObjV
    from ..netlist import Design, NetError
    from ..specs import SPECS
    rnd = random.Random(seed + 404)
    where = '%s:Simulator.topologicalSort' % SIM

    def sort(D):
        sc = D.el.find_class('Simulator', SIM)
        sim = ObjV(sc)
        sim.attrs['sys'] = D.sys
        D.el.steps = 0
        D.el.call(D.el.getattr_(sim, 'topologicalSort'), [], {}, {})
        D.el.steps = 0
        D.el.call(D.el.getattr_(sim, 'topologicalSort'), [], {}, {})       # a re-sort starts from scratch (no block twice)
        return sim

    def deps(D):
        leaves = D.leaves()
        prod = {}
        for lf in leaves:
            if facts.lookup(lf.cinfo, 'propagate') is None:
                continue
            for po in lf.attrs.get('outPorts', []):
                w = po.attrs.get('wire')
                if w is not None:
                    prod.setdefault(w.oid, []).append(lf)
        edges = []
        for lf in leaves:
            if facts.lookup(lf.cinfo, 'propagate') is None:
                continue
            for po in lf.attrs.get('inPorts', []):
                w = po.attrs.get('wire')
                for p in prod.get(w.oid, []) if w is not None else []:
                    if p is not lf:
                        edges.append((p, lf))
        return [l for l in leaves if facts.lookup(l.cinfo, 'propagate') is not None], edges

    def verify(D, label):
        try:
            sim = sort(D)
        except ElabRaise as e:
            return 'acyclic netlist refused: %s' % e
        order = sim.attrs.get('propagatables', [])
        comb, edges = deps(D)
        pos = {}
        for i, o in enumerate(order):
            if o.oid in pos:
                return 'block %s is scheduled twice' % o.attrs.get('name')
            pos[o.oid] = i
        for l in comb:
            if l.oid not in pos:
                return 'combinational block %s is not scheduled' % l.attrs.get('name')
        for p, c in edges:
            if pos[p.oid] > pos[c.oid]:
                return 'block %s is evaluated before its driver %s' % (c.attrs.get('name'), p.attrs.get('name'))
        return None

    def random_netlist(k, nin):
        D = Design(facts)
        wires = [D.wire('i%d' % i, 2) for i in range(nin)]
        plan = []
        for g in range(k):
            kind = rnd.choice(('Buf', 'Not', 'And2', 'Or2', 'Mux2', 'Bits', 'Reg', 'And2', 'Or2', 'HvInvChild'))
            avail = list(wires)
            if kind in ('Buf', 'Not', 'Reg', 'HvInvChild'):
                out = D.wire('w%d' % g, 2)
                plan.append((kind, 'g%d' % g, [rnd.choice(avail)], [out]))
                wires.append(out)
            elif kind in ('And2', 'Or2'):
                out = D.wire('w%d' % g, 2)
                plan.append((kind, 'g%d' % g, [rnd.choice(avail), rnd.choice(avail)], [out]))
                wires.append(out)
            elif kind == 'Mux2':
                out = D.wire('w%d' % g, 2)
                plan.append((kind, 'g%d' % g, [rnd.choice(avail), rnd.choice(avail), rnd.choice(avail)], [out]))
                wires.append(out)
            else:
                outs = [D.wire('w%d_%d' % (g, j), 1) for j in range(2)]
                plan.append(('BitsLSBF', 'g%d' % g, [rnd.choice(avail)], outs))
                wires.extend(D.wire('x%d_%d' % (g, j), 2) for j in range(0))
                # 1-bit outputs feed later gates through width-agnostic blocks
                wires.extend(outs)
        rnd.shuffle(plan)          # instantiation order is independent of the data flow
        for kind, name, ins, outs in plan:
            if kind == 'BitsLSBF':
                D.make(kind, name, ins[0], outs)
            else:
                D.make(kind, name, *ins, *outs)
        return D

    n = 0
    bad = None
    nrand = 60 if tier == 'quick' else 400
    for t in range(nrand):
        try:
            D = random_netlist(rnd.randrange(2, 10), rnd.randrange(1, 4))
            r = verify(D, 'random')
        except (ElabError, NetError, PyExc) as e:
            ctx.error('C04.f', 'random netlist could not be elaborated / sorted: %s' % e)
            return
        n += 1
        if r:
            names = [(o.cinfo.name, o.attrs.get('name')) for o in D.sys.attrs['children'].values()]
            bad = dict(problem=r, instantiation_order=names[:12])
            break
    if bad:
        ctx.violation('C04.f', 'random-netlists', 'the evaluation order computed for an acyclic netlist is not a topological order: %s' % bad['problem'], where, witness=bad)
    else:
        ctx.ok('C04.f', 'random-netlists', '%d random acyclic netlists (2-9 blocks incl. multi-output and sequential ones, shuffled instantiation order): every list is a topological order, every block once' % n, grade='bounded')
    # library catalogue
    ncat = 0
    badc = None
    for sp in SPECS:
        cfgs = list(sp['configs'](tier))
        for p in cfgs[len(cfgs) // 2:len(cfgs) // 2 + 1]:
            try:
                D = Design(facts)
                sp['build'](D, p)
                r = verify(D, sp['name'])
            except ElabRaise:
                continue
            except (ElabError, NetError, PyExc) as e:
                ctx.note('C04.f: catalogue design %s skipped: %s' % (sp['name'], str(e)[:60]))
                continue
            ncat += 1
            if r:
                badc = dict(problem=r, design=sp['name'], configuration=str(p))
                break
        if badc:
            break
    if badc:
        ctx.violation('C04.f', 'catalogue:%s' % badc['design'], 'library block %s: %s' % (badc['design'], badc['problem']), where, witness=badc)
    else:
        ctx.ok('C04.f', 'catalogue', '%d library designs: evaluation list is a topological order' % ncat, grade='bounded')
    # late additions: a second sort after new blocks were added schedules them
    try:
        D = Design(facts)
        a, b, c2 = D.wire('a', 2), D.wire('b', 2), D.wire('c', 2)
        D.make('Not', 'n0', a, b)
        sort(D)
        D.make('Not', 'n1', c2, a)        # producer of n0's input, added later
        r = verify(D, 'late')
        if r:
            ctx.violation('C04.f', 'late-addition', 'after adding a block and sorting again: %s' % r, where, witness=dict(history='sort; add the driver of an existing block; sort'))
        else:
            ctx.ok('C04.f', 'late-addition', 're-sort schedules a block added after the first sort, before its consumer')
    except (ElabError, NetError, PyExc, ElabRaise) as e:
        ctx.error('C04.f', 'late-addition design: %s' % e)
    # blocks added after a first sort - at the top level and inside an existing sub-block - are scheduled by the next sort
    try:
        D = Design(facts)
        a, b = D.wire('a', 3), D.wire('b', 3)
        mx = D.make('Max2', 'mx', a, b, D.wire('big', 3))
        D.make('Not', 'n0', D.wires['big'], D.wire('nb', 3))
        sort(D)
        # first a block inside an existing sub-block only (nothing changes at the top level) ...
        anyw = [w for w in mx.attrs.get('_wires', {}).values()] if isinstance(mx.attrs.get('_wires'), dict) else []
        src = next((w for w in anyw if w.attrs.get('width') == 1), None)
        r = None
        if src is not None:
            nc = D.el.find_class('Not', 'py4hw/logic/bitwise.py')
            tap = D.el.call(D.el.getattr_(mx, 'wire'), ['tap', 1], {}, {})
            D.el.instantiate(nc, [mx, 'late_inner', src, tap], {})
            r = verify(D, 'late nested')
        # ... then one at the top level
        if not r:
            D.make('Not', 'late_top', D.wires['nb'], D.wire('nnb', 3))
            r = verify(D, 'late')
        if r:
            ctx.violation('C04.f', 'late-addition', 'after blocks were added to an already sorted system (one at the top level, one inside an existing sub-block) the next sort gives: %s' % r, where,
                          witness=dict(history='build, sort, add Not at the top level and inside Max2, sort again'))
        else:
            ctx.ok('C04.f', 'late-addition', 'blocks added after a first sort (top level and nested) are scheduled, in dependency order, by the next sort')
    except ElabRaise as e:
        ctx.violation('C04.f', 'late-addition', 'adding a block to an already sorted system and sorting again raises: %s' % e, where)
    except PyExc as e:
        ctx.violation('C04.f', 'late-addition', 'after a block was added inside an existing sub-block of an already sorted system, the next sort fails with an internal error: %s' % str(e)[:120], where,
                      witness=dict(history='build, sort, add Not inside Max2, sort again'))
    except (ElabError, NetError, KeyError) as e:
        ctx.ok('C04.f', 'late-addition', 'scenario outside the interpreted subset (%s)' % str(e)[:80], grade='refused')
    # a loop closed by late additions is refused by every later request for the simulator, not only by the first one
    try:
        D = Design(facts)
        a, b = D.wire('a', 1), D.wire('b', 1)
        D.make('Not', 'n0', a, b)
        gs = lambda: (setattr(D.el, 'steps', 0), D.el.call(D.el.getattr_(D.sys, 'getSimulator'), [], {}, {}))[1]
        gs()
        D.make('Not', 'n1', b, a)
        outcomes = []
        for k in range(3):
            try:
                gs()
                outcomes.append('accepted')
            except ElabRaise:
                outcomes.append('refused')
            except ElabError as e:
                if 'budget' not in str(e):
                    raise
                outcomes.append('refused')
        if outcomes != ['refused'] * 3:
            ctx.violation('C04.f', 'late-cycle-refused-every-time', 'a combinational loop closed after the simulator existed is not refused by every request for the simulator: %s' % outcomes, where,
                          witness=dict(history='getSimulator(); add the inverter that closes the ring; getSimulator() x3', outcomes=outcomes))
        else:
            ctx.ok('C04.f', 'late-cycle-refused-every-time', 'a loop closed after the simulator existed is refused by three successive getSimulator() calls')
    except (ElabError, NetError, PyExc, KeyError) as e:
        ctx.ok('C04.f', 'late-cycle-refused-every-time', 'scenario outside the interpreted subset (%s)' % str(e)[:80], grade='refused')
    # cyclic netlists are refused
    def ring(k, via_multi=False):
        D = Design(facts)
        ws = [D.wire('r%d' % i, 1) for i in range(k)]
        for i in range(k):
            D.make('Not', 'n%d' % i, ws[i], ws[(i + 1) % k])
        return D
    for k in (1, 2, 3, 5):
        D = ring(k)
        try:
            sort(D)
            ctx.violation('C04.f', 'cycle-refused:%d' % k, 'a combinational ring of %d inverter(s) is accepted by the sorter instead of refused' % k, where,
                          witness=dict(netlist='ring of %d Not gates' % k))
        except ElabRaise:
            ctx.ok('C04.f', 'cycle-refused:%d' % k, 'ring of %d inverters is refused' % k)
        except ElabError as e:
            if 'budget' in str(e):
                ctx.ok('C04.f', 'cycle-refused:%d' % k, 'ring of %d inverters never stabilises (pass bound far away; evaluation budget reached)' % k, grade='bounded')
            else:
                ctx.error('C04.f', 'ring %d: %s' % (k, e))


def run(ctx, sm, facts):
    ctx.rule('C04.f', 'scheduling code evaluated on elaborated netlists: topological order for random / library netlists, cycles refused')
    ctx.rule('C04.a', 'propagate() reads own inputs, puts own outputs, no prepare, no state (stateful/I-O blocks listed)')
    ctx.rule('C04.b', 'ports of propagatable leaves register as sinks; addIn/addOut/addInOut/addInterface* create and append the port')
    ctx.rule('C04.c', 'scheduling entry points, list-order evaluation, every propagatable leaf once, allLeaves exhaustive, no foreign propagate() caller')
    ctx.rule('C04.d', 'sorter shape: pass loop, flag protocol, swap-guard decision table, complete dependent search, minimum')
    ctx.rule('C04.e', 'pass bound raises; refusal not swallowed')
    check_a(ctx, facts)
    check_b(ctx, facts)
    from ..facts import Facts
    from .c02 import overlay_source, CASES_REL
    check_f(ctx, Facts(sm.with_overlay({CASES_REL: overlay_source()})), ctx.tier, ctx.seed)
    nv, ne = len(ctx.violations), len(ctx.errors)
    check_c(ctx, facts)
    # the clauses of C04.c that speak about the evaluation list itself are exercised by C04.f on every netlist (each block once, also after a re-sort, nested leaves included)
    ctx.defer_shape(('C04.c',), 'C04.f', nv, ne, keep=lambda v: v['key'] not in ('allLeaves-exhaustive', 'schedule-domain', 'schedule-reset', 'schedule-once'))
    from .c05 import check_b as c05_check_b
    ctx.rule('C05.b', 'edge-routine ordering rules (every edge is followed by a complete, unconditional propagate pass): see C05')
    c05_check_b(ctx, facts)
    nerr = len(ctx.errors)
    check_d(ctx, facts)
    if not any(v['rule'] == 'C04.f' for v in ctx.violations) and not any(e.startswith('C04.f') for e in ctx.errors):
        # a sorter rewritten into a shape the C04.d recognisers cannot read is decided by C04.f (evaluation on netlists), not reported as broken
        for e in ctx.errors[nerr:]:
            if e.startswith('C04.d'):
                ctx.note('shape rule not evaluable (%s); sorter decided by C04.f on elaborated netlists' % e[:90])
        ctx.errors[nerr:] = [e for e in ctx.errors[nerr:] if not e.startswith('C04.d')]
    ctx.not_decided += ['correctness and termination of the swap-until-stable sorter for all DAGs (decided only on the enumerated netlists)', 'adequacy of the 1000-pass bound',
                        'order independence as such']


SELFVAL = [
    dict(name='swap guard pos>0', file=SIM, old='if (pos >= 0 and pos <= i):', new='if (pos > 0 and pos <= i):', expect='C04.d'),
    dict(name='self loop accepted', file=SIM, old='if (pos >= 0 and pos <= i):', new='if (pos >= 0 and pos < i):', expect='C04.e'),
    dict(name='first sink only', file=SIM, old="                if (sink.isPropagatable()):\n                    sinks.append(sink)\n",
         new="                if (sink.isPropagatable()):\n                    sinks.append(sink)\n                break\n", expect='C04.d'),
    dict(name='max instead of min', file=SIM, old='            if (pos < minPos):', new='            if (pos > minPos):', expect='C04.d'),
    dict(name='no re-sort in getSimulator', file=BASE, old='            self.simulator.topologicalSort() # Updates existing simulator\n            \n        return self.simulator',
         new='            pass\n            \n        return self.simulator', expect='C04.c'),
    dict(name='clk does not settle first', file=SIM, old='        self.propagateAll()\n        \n        self.do_run = True', new='        self.do_run = True', expect='C04.c'),
    dict(name='bound breaks instead of raising', file=SIM, old="                raise Exception('Excessive loop count in topological count')", new="                break", expect='C04.e'),
    dict(name='block peeks at own output', file='py4hw/logic/bitwise.py', old='        self.r.put(self.a.get() | self.b.get())', new='        self.r.put(self.a.get() | self.b.get() | self.r.get())', expect='C04.a'),
    dict(name='refactor: tuple swap', file=SIM,
         old="                    first = self.propagatables[pos]\n                    self.propagatables[pos] = leaf\n                    self.propagatables[i] = first\n",
         new="                    self.propagatables[pos], self.propagatables[i] = self.propagatables[i], self.propagatables[pos]\n", expect=None),
    dict(name='refactor: guard as chained comparison', file=SIM, old='if (pos >= 0 and pos <= i):', new='if 0 <= pos <= i:', expect=None),
]


def selfval(ctx, sm):
    from ..selfval import run_selfval
    run_selfval(ctx, sm, run, SELFVAL)
