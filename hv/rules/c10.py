"""C10 - a clock domain advances exactly when its enable is active.

C10.a  decision table of the driver loop in Simulator._clk_cycle: for the
       scenarios enable is None / reads 0 / reads 1 / reads 2 (multi-bit) the
       loop body calls clockAll() of *that* driver exactly once iff the enable is
       None or non-zero; the gated path continues with the next driver;
C10.b  the enable is read before settleAll() (pre-edge value);
C10.c  topologicalSort resets the driver table and registers every clockable
       leaf exactly once under getObjectClockDriver(leaf); the per-driver
       simulator is looked up / created under the driver key;
C10.d  getObjectClockDriver: own driver if set, else the parent's (recursively),
       else refusal - decision table over the three scenarios.
"""
import ast

from ..cfg import fn_paths, paths as cfg_paths, calls_on_path
from ..dectab import feasible, single_defs, Obj, Unknown
from ..srcmap import norm, AnalysisError
from .c05 import is_call_to

LEVEL_TEXT = ('Static decision-table extraction over the structured CFG paths of the edge routine, the '
              'scheduler registration and the clock-driver lookup.')
SIM = 'py4hw/simulation.py'
BASE = 'py4hw/base.py'


def driver_loop(cyc):
    for n in ast.walk(cyc):
        if isinstance(n, ast.For) and any(isinstance(x, ast.Call) and is_call_to(x, 'clockAll') for x in ast.walk(n)):
            return n
    return None


def gating_each_edge(ctx, facts):
    """on every path of the edge routine on which a domain is clocked, the enable of the drivers is read at that edge
    (directly or through a helper called on that path) - a gating decision taken once per clk() call is stale"""
    from ..callgraph import closure, resolve_call
    sim = facts.cls('Simulator', SIM)
    cyc = facts.lookup_inl(sim, '_clk_cycle')
    where = '%s:Simulator._clk_cycle' % SIM
    if cyc is None:
        return

    def reads_enable(node):
        if any(isinstance(x, ast.Attribute) and x.attr == 'enable' for x in ast.walk(node)):
            return True
        for c in ast.walk(node):
            if isinstance(c, ast.Call):
                for cc, ff in resolve_call(facts, sim, cyc, c):
                    for c2, f2 in closure(facts, cc, ff, stop=lambda k, f: f.name in ('clock', 'clockAll')):
                        if f2.name in ('clock', 'clockAll'):
                            continue
                        if any(isinstance(x, ast.Attribute) and x.attr == 'enable' for x in ast.walk(f2)):
                            return True
        return False
    bad = False
    for evs, ex in fn_paths(cyc):
        K = calls_on_path(evs, lambda c: is_call_to(c, 'clockAll'))
        if not K:
            continue
        R = [i for i, e in enumerate(evs) if e.kind in ('branch', 'stmt') and reads_enable(e.node)]
        if not R or min(R) > min(K):
            bad = True
            conds = [(norm(e.node), e.val) for e in evs if e.kind == 'branch'][:3]
            ctx.violation('C10.a', 'gating-evaluated-every-edge', 'a path of the edge routine clocks a domain without reading the drivers\' enables at that edge (conditions %s): the gating decision is taken elsewhere, once per clk() call'
                          % conds, where, witness=dict(history='clk(3) while the enable of a gated domain changes after the first edge'))
            break
    if not bad:
        ctx.ok('C10.a', 'gating-evaluated-every-edge', 'every path that clocks a domain reads the enables at that edge')
    return not bad


def check_a(ctx, facts):
    sim = facts.cls('Simulator', SIM)
    cyc = facts.lookup_inl(sim, '_clk_cycle')
    where = '%s:Simulator._clk_cycle' % SIM
    gating_each_edge(ctx, facts)
    lp = driver_loop(cyc) if cyc else None
    if lp is None:
        ctx.error('C10.a', 'driver loop calling clockAll() not found in Simulator._clk_cycle')
        return
    if not isinstance(lp.target, ast.Name):
        ctx.error('C10.a', 'driver loop target is not a simple name')
        return
    drv = lp.target.id
    it = norm(lp.iter)
    # what does the loop variable denote: the driver (keys) or (driver, simulator) items?
    if it not in ('self.clockDrivers', 'self.clockDrivers.keys()', 'list(self.clockDrivers)', 'list(self.clockDrivers.keys())'):
        ctx.error('C10.a', 'driver loop iterates over `%s`, not over the keys of self.clockDrivers' % it)
        return
    alias = single_defs(list(lp.body))
    P = cfg_paths(lp.body)
    en = '%s.enable' % drv
    get = '%s.enable.get()' % drv
    scen = {
        'enable is None': {en: None, get: None},
        'enable reads 0': {en: Obj('wire'), get: 0},
        'enable reads 1': {en: Obj('wire'), get: 1},
        'enable reads 2 (multi-bit)': {en: Obj('wire'), get: 2},
    }
    # .get() on None must crash, model by removing the atom
    from ..dectab import Crash
    scen['enable is None'][get] = Crash('get() of None')
    allok = True
    for name, atoms in scen.items():
        try:
            fs = feasible(P, atoms, alias)
        except Unknown as e:
            ctx.error('C10.a', 'gating test mentions something other than the driver enable (%s)' % e)
            return
        if len(fs) != 1:
            ctx.error('C10.a', 'scenario `%s` selects %d paths through the driver loop body' % (name, len(fs)))
            return
        evs, ex = fs[0]
        calls = calls_on_path(evs, lambda c: is_call_to(c, 'clockAll'))
        recv_ok = all(
            norm(c.func.value) in ('self.clockDrivers[%s]' % drv,) or
            (isinstance(c.func.value, ast.Name) and c.func.value.id in alias and norm(alias[c.func.value.id]) == 'self.clockDrivers[%s]' % drv)
            for e in evs for n in ([e.node] if e.kind in ('stmt',) else []) for c in ast.walk(n)
            if isinstance(c, ast.Call) and is_call_to(c, 'clockAll'))
        want = 0 if name == 'enable reads 0' else 1
        key = 'gate:%s' % name
        if ex == 'crash':
            ctx.violation('C10.a', key, 'the gating test dereferences a missing enable', where, witness=dict(scenario=name))
            allok = False
        elif len(calls) != want:
            ctx.violation('C10.a', key, 'under `%s` the domain is clocked %d time(s), expected %d' % (name, len(calls), want), where,
                          witness=dict(scenario=name, path=[repr(e) for e in evs]))
            allok = False
        elif ex in ('break', 'return'):
            ctx.violation('C10.a', key, 'under `%s` the loop is left with `%s`: later clock domains are not clocked' % (name, ex), where,
                          witness=dict(scenario=name, configuration='two clock domains, gated one first'))
            allok = False
        elif not recv_ok:
            ctx.violation('C10.a', key, 'clockAll() is not called on the simulator of the driver whose enable was tested', where)
            allok = False
        else:
            ctx.ok('C10.a', key, 'clockAll x%d, exit=%s' % (want, ex))
            ctx.sample(dict(rule='C10.a', scenario=name, clockAll_calls=want, exit=ex))
    # C10.b pre-settle read
    okb = True
    for evs, ex in fn_paths(cyc):
        S = calls_on_path(evs, lambda c: is_call_to(c, 'settleAll'))
        R = [i for i, e in enumerate(evs) if e.kind in ('branch', 'stmt') and any(
            isinstance(x, ast.Attribute) and x.attr == 'enable' for x in ast.walk(e.node))]
        if S and R and max(R) > min(S):
            okb = False
    # interprocedural: nothing called from inside the driver loop (other than clock() bodies, C05.a) settles wires
    from ..callgraph import closure, resolve_call, qual
    inner = []
    for n in ast.walk(lp):
        if isinstance(n, ast.Call):
            for cc, ff in resolve_call(facts, sim, cyc, n, late_bound=True):
                if ff.name == 'clockAll':
                    inner.append((cc, ff))
    for cc, ff in inner:
        for c2, f2 in closure(facts, cc, ff, stop=lambda k, f: f.name == 'clock'):
            if f2.name == 'clock' or (c2 is not None and c2.name in ('Wire', 'BidirWire')):
                continue
            for x in ast.walk(f2):
                if isinstance(x, ast.Call) and (is_call_to(x, 'settleAll') or is_call_to(x, 'settle')):
                    okb = False
                    ctx.violation('C10.b', 'settle-inside-driver-loop:%s' % qual(c2, f2),
                                  '`%s` runs while drivers are still being visited: the enable of a later driver is read after an earlier domain settled' % norm(x),
                                  '%s:%s' % (SIM, qual(c2, f2)), witness=dict(configuration='two domains; enable of the second driven by a register of the first'))
    if okb:
        ctx.ok('C10.b', 'enable-read-pre-settle', 'every read of the enable precedes settleAll()')
    elif not any(v['rule'] == 'C10.b' for v in ctx.violations):
        ctx.violation('C10.b', 'enable-read-pre-settle', 'the enable is read after prepared values were settled (post-edge value)', where,
                      witness=dict(history='enable driven by a register inside the gated domain'))


def check_c(ctx, facts):
    sim = facts.cls('Simulator', SIM)
    ts = facts.lookup(sim, 'topologicalSort')
    where = '%s:Simulator.topologicalSort' % SIM
    if ts is None:
        ctx.error('C10.c', 'anchor Simulator.topologicalSort not found')
        return
    loops = [n for n in ast.walk(ts) if isinstance(n, ast.For) and any(
        isinstance(x, ast.Call) and is_call_to(x, 'addClockable') for x in ast.walk(n))]
    if len(loops) != 1 or not isinstance(loops[0].target, ast.Name):
        ctx.error('C10.c', 'registration loop calling addClockable() not found (loops=%d)' % len(loops))
        return
    lp = loops[0]
    leaf = lp.target.id
    # reset of the table before the loop on every path
    resets = 0
    for evs, ex in fn_paths(ts):
        li = [i for i, e in enumerate(evs) if e.kind == 'loop' and e.node is lp]
        if not li:
            continue
        r = [i for i, e in enumerate(evs[:li[0]]) if e.kind == 'stmt' and isinstance(e.node, ast.Assign)
             and any(norm(t) == 'self.clockDrivers' for t in e.node.targets) and isinstance(e.node.value, ast.Dict)
             and not e.node.value.keys]
        if not r:
            ctx.violation('C10.c', 'driver-table-reset', 'a re-sort does not reset self.clockDrivers: clockables are registered again and clocked twice per edge',
                          where, witness=dict(history='getSimulator() called twice'))
            return
        resets += 1
    ctx.ok('C10.c', 'driver-table-reset', 'self.clockDrivers = {} precedes the registration loop on all %d paths' % resets)
    # iterable is all leaves of the system
    alias = single_defs(ts)
    itx = lp.iter
    if isinstance(itx, ast.Name) and itx.id in alias:
        itx = alias[itx.id]
    if norm(itx) != 'self.sys.allLeaves()':
        ctx.violation('C10.c', 'registration-domain', 'registration loop iterates over `%s`, not over every leaf of the system' % norm(itx), where)
    else:
        ctx.ok('C10.c', 'registration-domain', 'loop over self.sys.allLeaves()')
    balias = single_defs(list(lp.body))
    atoms_c = {'%s.isClockable()' % leaf: True, '%s.isPropagatable()' % leaf: False}
    atoms_n = {'%s.isClockable()' % leaf: False, '%s.isPropagatable()' % leaf: False}
    P = cfg_paths(lp.body)
    try:
        fc = feasible(P, atoms_c, balias)
        fn = feasible(P, atoms_n, balias)
    except Unknown as e:
        ctx.error('C10.c', 'registration guard not evaluable: %s' % e)
        return
    ok = True
    for evs, ex in fc:
        calls = [c for e in evs if e.kind == 'stmt' for c in ast.walk(e.node) if isinstance(c, ast.Call) and is_call_to(c, 'addClockable')]
        if len(calls) != 1 or ex not in ('fall', 'continue'):
            ctx.violation('C10.c', 'register-once', 'a clockable leaf is registered %d times (exit %s)' % (len(calls), ex), where,
                          witness=dict(configuration='any sequential leaf'))
            ok = False
            continue
        c = calls[0]
        arg_ok = len(c.args) == 1 and norm(c.args[0]) == leaf
        recv = c.func.value
        if isinstance(recv, ast.Name) and recv.id in balias:
            recv = balias[recv.id]
        # self.getOrCreateClockDriverSimulator(<getObjectClockDriver(leaf)>)
        drv_ok = False
        if isinstance(recv, ast.Call) and is_call_to(recv, 'getOrCreateClockDriverSimulator') and len(recv.args) == 1:
            d = recv.args[0]
            if isinstance(d, ast.Name) and d.id in balias:
                d = balias[d.id]
            drv_ok = norm(d) == 'getObjectClockDriver(%s)' % leaf
        if not (arg_ok and drv_ok):
            ctx.violation('C10.c', 'register-under-own-driver', 'the leaf is not registered under getObjectClockDriver(leaf): `%s`' % norm(c), where,
                          witness=dict(configuration='leaf below a block with its own (gated) clock driver'))
            ok = False
    for evs, ex in fn:
        calls = [c for e in evs if e.kind == 'stmt' for c in ast.walk(e.node) if isinstance(c, ast.Call) and is_call_to(c, 'addClockable')]
        if calls:
            ctx.violation('C10.c', 'register-only-clockables', 'a non-clockable leaf is registered as clockable', where)
            ok = False
    if ok:
        ctx.ok('C10.c', 'register-once', 'every clockable leaf: exactly one addClockable(leaf) on the simulator of getObjectClockDriver(leaf)')
    cd = facts.cls('ClockDriver', BASE)
    ident = [m for k in facts.mro(cd) for m in ('__eq__', '__hash__') if m in k.methods]
    if ident:
        ctx.violation('C10.c', 'driver-key-identity', 'ClockDriver defines %s: the per-driver table is keyed by driver objects, value equality merges distinct domains'
                      % ident, '%s:ClockDriver' % BASE, witness=dict(configuration='two drivers with equal name/frequency and different enables'))
    else:
        ctx.ok('C10.c', 'driver-key-identity', 'ClockDriver keeps identity equality/hash (table keyed per driver object)')
    cds = facts.cls('ClockDriverSimulator', SIM)
    ac = facts.lookup(cds, 'addClockable')
    ini = facts.lookup(cds, '__init__')
    ok3 = ac is not None and ini is not None
    if ok3:
        p = [a.arg for a in ac.args.args if a.arg != 'self']
        apps = [n for n in ast.walk(ac) if isinstance(n, ast.Call) and is_call_to(n, 'append') and norm(n.func.value) == 'self.clockables'
                and [norm(a) for a in n.args] == p[:1]]
        ok3 = len(apps) == 1 and all(any(e.kind == 'stmt' and apps[0] in list(ast.walk(e.node)) for e in evs) for evs, ex in fn_paths(ac) if ex != 'raise')
        ok3 = ok3 and any(isinstance(n, ast.Assign) and any(norm(t) == 'self.clockables' for t in n.targets) and isinstance(n.value, ast.List) and not n.value.elts
                          for n in ast.walk(ini))
    if ok3:
        ctx.ok('C10.c', 'addClockable-appends', 'fresh list per driver, one append per registration')
    else:
        ctx.violation('C10.c', 'addClockable-appends', 'ClockDriverSimulator does not keep one fresh list with one entry per registration',
                      '%s:ClockDriverSimulator' % SIM)


def check_d(ctx, facts):
    fn = facts.func(BASE, 'getObjectClockDriver', required=False)
    where = '%s:getObjectClockDriver' % BASE
    if fn is None:
        ctx.error('C10.d', 'anchor getObjectClockDriver not found')
        return
    p = fn.args.args[0].arg
    impure = [n for n in ast.walk(fn) if (isinstance(n, (ast.Assign, ast.AugAssign, ast.AnnAssign)) and any(
        isinstance(x, (ast.Attribute, ast.Subscript)) and isinstance(x.ctx, ast.Store) for t in (n.targets if isinstance(n, ast.Assign) else [n.target]) for x in ast.walk(t)))
        or isinstance(n, (ast.Global, ast.Nonlocal))
        or (isinstance(n, ast.Call) and isinstance(n.func, ast.Name) and n.func.id in ('setattr',))]
    cached = [d for d in fn.decorator_list if 'cache' in norm(d)]
    if impure or cached:
        ctx.violation('C10.d', 'lookup-pure', 'the clock-driver lookup keeps state (%s): a memoised result goes stale when an ancestor is given a driver later'
                      % '; '.join(norm(x) for x in (impure + cached)[:2]), where,
                      witness=dict(history='look the driver up (simulate), then assign block.clockDriver, then getSimulator() again'))
    else:
        ctx.ok('C10.d', 'lookup-pure', 'no store, global or cache decorator: the lookup is a function of the current hierarchy')
    own = '%s.clockDriver' % p
    par = '%s.parent' % p
    D = Obj('driver')
    PARENT = Obj('parent')
    scen = {
        'own driver set': ({own: D, par: PARENT}, 'own'),
        'own driver set, no parent': ({own: D, par: None}, 'own'),
        'no own driver, has parent': ({own: None, par: PARENT}, 'parent'),
        'no own driver, no parent': ({own: None, par: None}, 'refuse'),
    }
    P = fn_paths(fn)
    alias = single_defs(fn)
    for name, (atoms, want) in scen.items():
        try:
            fs = feasible(P, atoms, alias)
        except Unknown as e:
            ctx.error('C10.d', 'lookup test not evaluable: %s' % e)
            return
        if len(fs) != 1:
            ctx.error('C10.d', 'scenario `%s` selects %d paths' % (name, len(fs)))
            return
        evs, ex = fs[0]
        key = 'lookup:%s' % name
        got = None
        if ex == 'return':
            r = evs[-1].node.value
            if isinstance(r, ast.Name) and r.id in alias:
                r = alias[r.id]
            if r is not None and norm(r) == own:
                got = 'own'
            elif r is not None and isinstance(r, ast.Call) and norm(r.func) == fn.name and [norm(a) for a in r.args] == [par]:
                got = 'parent'
            else:
                got = 'other:' + (norm(r) if r is not None else 'None')
        elif ex in ('raise', 'crash'):
            got = 'refuse'
        else:
            got = 'other:falls off'
        if got == want:
            ctx.ok('C10.d', key, got)
            ctx.sample(dict(rule='C10.d', scenario=name, result=got))
        else:
            ctx.violation('C10.d', key, 'under `%s` the lookup yields %s, expected %s' % (name, got, want), where,
                          witness=dict(scenario=name, configuration='gated sub-block with its own ClockDriver below a parent with another'))


def last_store(fn, target):
    """value texts finally stored into `target` on each non-raising path (None = never stored)"""
    out = set()
    for evs, ex in fn_paths(fn):
        if ex == 'raise':
            continue
        v = None
        for e in evs:
            if e.kind == 'stmt' and isinstance(e.node, ast.Assign) and any(norm(t) == target for t in e.node.targets):
                v = norm(e.node.value)
        out.add(v)
    return out


def check_e(ctx, facts):
    cd = facts.cls('ClockDriver', BASE)
    ini = facts.lookup(cd, '__init__')
    for attr in ('enable', 'base', 'wire'):
        vals = last_store(ini, 'self.' + attr) if ini else set()
        key = 'ClockDriver.__init__:%s' % attr
        if vals == {attr}:
            ctx.ok('C10.e', key, 'constructor stores the `%s` argument on every path' % attr)
        else:
            ctx.violation('C10.e', key, 'ClockDriver does not keep its `%s` argument on every path (stored: %s)' % (attr, sorted(map(str, vals))),
                          '%s:ClockDriver.__init__' % BASE, witness=dict(configuration='driver created with %s=<wire>' % attr))
    lg = facts.cls('Logic', BASE)
    vals = last_store(facts.lookup(lg, '__init__'), 'self.clockDriver')
    if vals == {'None'}:
        ctx.ok('C10.e', 'Logic.__init__:clockDriver', 'blocks start without an own driver (inherit)')
    else:
        ctx.violation('C10.e', 'Logic.__init__:clockDriver', 'a new block does not start with clockDriver None (stored: %s)' % sorted(map(str, vals)),
                      '%s:Logic.__init__' % BASE)
    hs = facts.cls('HWSystem', BASE)
    vals = last_store(facts.lookup(hs, '__init__'), 'self.clockDriver')
    if vals == {'clock_driver'}:
        ctx.ok('C10.e', 'HWSystem.__init__:clockDriver', 'top level keeps the given (or default) driver')
    else:
        ctx.violation('C10.e', 'HWSystem.__init__:clockDriver', 'HWSystem does not install its clock driver on every path (stored: %s)' % sorted(map(str, vals)),
                      '%s:HWSystem.__init__' % BASE)


def check_f(ctx, facts):
    """C10.f: registration and lookup evaluated on elaborated hierarchies (structure-only code, hv/elab.py)"""
    from ..elab import ElabError, ElabRaise, PyExc, ObjV
    from ..netlist import Design, NetError
    where = '%s / %s' % (SIM, BASE)
    try:
        D = Design(facts)
        el = D.el
        cdc = el.find_class('ClockDriver', BASE)
        sc = el.find_class('Simulator', SIM)
        # --- per-driver table: same driver -> same simulator, different drivers (even with equal names) -> different ones
        sim = ObjV(sc)
        sim.attrs['clockDrivers'] = {}
        d1 = el.instantiate(cdc, ['clk'], {})
        d2 = el.instantiate(cdc, ['clk'], {})
        g = lambda d: el.call(el.getattr_(sim, 'getOrCreateClockDriverSimulator'), [d], {}, {})
        s1, s1b, s2 = g(d1), g(d1), g(d2)
        tab = sim.attrs['clockDrivers']
        if s1 is not s1b or s1 is s2 or not isinstance(s1, ObjV) or s1.attrs.get('driver') is not d1 or s2.attrs.get('driver') is not d2 \
                or len(tab) != 2 or tab.get(d1) is not s1 or tab.get(d2) is not s2:
            ctx.violation('C10.f', 'driver-table', 'the per-driver table does not give each clock driver its own simulator, created once and kept under that driver', where,
                          witness=dict(scenario='lookup(d1), lookup(d1), lookup(d2) with two drivers of equal name'))
        else:
            ctx.ok('C10.f', 'driver-table', 'lookup(d1) twice returns one simulator for d1; d2 gets its own; both stored under their driver')
        # --- hierarchy: sys(D0) -> A(own DA) -> inner leaf ; sys -> B (no own driver) -> leaf ; gated driver on A
        en = D.wire('en')
        a, b = D.wire('a', 2), D.wire('b', 2)
        A = D.make('DelayLine', 'A', a, None, None, D.wire('ra', 2), 2)
        B = D.make('DelayLine', 'B', b, None, None, D.wire('rb', 2), 1)
        C = D.make('Reg', 'C', a, D.wire('rc', 2))
        d0 = D.sys.attrs['clockDriver']
        dA = el.instantiate(cdc, ['gated'], dict(base=d0, enable=en))
        A.attrs['clockDriver'] = dA
        look = el.eval_name('getObjectClockDriver', BASE)
        regsA = [x for x in A.attrs['children'].values() if x.cinfo.name == 'Reg']
        regsB = [x for x in B.attrs['children'].values() if x.cinfo.name == 'Reg']
        exp = [(regsA[0], dA, 'leaf below a block with its own driver'), (A, dA, 'block with its own driver'), (regsB[0], d0, 'leaf below a block without driver'), (C, d0, 'leaf directly below the system')]
        okl = True
        for obj, want, what in exp:
            got = el.call(look, [obj], {}, {})
            if got is not want:
                okl = False
                ctx.violation('C10.f', 'lookup:%s' % what, 'the clock-driver lookup of a %s returns %s' % (what, 'another driver' if isinstance(got, ObjV) else repr(got)), where,
                              witness=dict(configuration='sys(D0) > A(own gated driver) > Reg ; sys > B > Reg ; sys > Reg'))
        orphan = ObjV(el.find_class('Logic', BASE))
        orphan.attrs.update(dict(parent=None, clockDriver=None, name='orphan'))
        try:
            r = el.call(look, [orphan], {}, {})
            if isinstance(r, ObjV):
                okl = False
                ctx.violation('C10.f', 'lookup:orphan', 'a block without parent and without driver gets a driver from somewhere', where)
        except (ElabRaise, PyExc):
            pass
        if okl:
            ctx.ok('C10.f', 'lookup-scenarios', 'own driver / nearest ancestor / system driver / refusal for an orphan')
        # --- registration through the interpreted sorter: each clockable leaf once, under its nearest ancestor's driver; re-sort does not duplicate
        sim = ObjV(sc)
        sim.attrs['sys'] = D.sys
        for rnd_ in (1, 2):
            el.steps = 0
            el.call(el.getattr_(sim, 'topologicalSort'), [], {}, {})
        tab = sim.attrs['clockDrivers']
        reg = {}
        for drv, cds in tab.items():
            for o in cds.attrs.get('clockables', []):
                reg.setdefault(o.oid, []).append(drv)
        bad = None
        for lf in D.leaves():
            if facts.lookup(lf.cinfo, 'clock') is None:
                continue
            want = dA if any(lf is x for x in regsA) else d0
            got = reg.get(lf.oid, [])
            if len(got) != 1 or got[0] is not want:
                bad = 'clockable leaf %s is registered %d time(s)%s' % (lf.attrs.get('name'), len(got), '' if len(got) != 1 else ' under the wrong driver')
        if bad:
            ctx.violation('C10.f', 'registration', bad + ' (after sorting twice)', where, witness=dict(configuration='gated sub-block next to ungated blocks; getSimulator() twice'))
        else:
            ctx.ok('C10.f', 'registration', 'after two sorts every clockable leaf is registered exactly once under the driver of its nearest ancestor (2 domains)')
        # --- a driver handed to the system constructor is the system's driver: its enable gates every block that inherits it
        try:
            hsc = el.find_class('HWSystem', BASE)
            eng = D.wire('en_top')
            for kw, what in ((dict(enable=eng), 'a gated driver without a wire'), (dict(enable=eng, wire=D.wire('clk_top')), 'a gated driver with a wire')):
                dG = el.instantiate(cdc, ['gclk'], kw)
                hs = el.instantiate(hsc, [], dict(clock_driver=dG))
                got = hs.attrs.get('clockDriver')
                if got is not dG and not (isinstance(got, ObjV) and got.attrs.get('enable') is eng):
                    ctx.violation('C10.f', 'system-driver-argument', 'HWSystem(clock_driver=%s) installs a driver that does not carry the enable of the driver it was given: blocks that inherit '
                                  'the system clock are never gated' % what, where, witness=dict(configuration='HWSystem(clock_driver=ClockDriver("gclk", enable=en))'))
                    break
            else:
                ctx.ok('C10.f', 'system-driver-argument', 'the driver given to HWSystem(...) (with or without a wire) is installed as the system driver, enable included')
        except (ElabError, PyExc, ElabRaise) as e:
            ctx.note('C10.f system-driver-argument not evaluable: %s' % str(e)[:100])
        # --- a driver placed on a leaf: only that leaf changes domain, whatever was built before or after it under the same parent
        D2 = Design(facts)
        el2 = D2.el
        x = D2.wire('x', 2)
        grp = D2.make('Logic', 'grp')
        mk = lambda parent, nm: el2.instantiate(el2.find_class('Reg'), [parent, nm, x, D2.wire('q_' + nm, 2)], {})
        r0, r1, r2 = mk(grp, 'r0'), mk(grp, 'r1'), mk(grp, 'r2')
        inner = el2.instantiate(el2.find_class('DelayLine'), [grp, 'dl', x, None, None, D2.wire('q_dl', 2), 2], {})
        top = mk(D2.sys, 'top')
        d0b = D2.sys.attrs['clockDriver']
        dL = el2.instantiate(el2.find_class('ClockDriver', BASE), ['leafclk'], dict(base=d0b, enable=D2.wire('en2')))
        r1.attrs['clockDriver'] = dL
        sim2 = ObjV(sc)
        sim2.attrs['sys'] = D2.sys
        for rnd_ in (1, 2):
            el2.steps = 0
            el2.call(el2.getattr_(sim2, 'topologicalSort'), [], {}, {})
        reg2 = {}
        for drv, cds in sim2.attrs['clockDrivers'].items():
            for o in cds.attrs.get('clockables', []):
                reg2.setdefault(o.oid, []).append(drv)
        bad2 = None
        for lf in D2.leaves():
            if facts.lookup(lf.cinfo, 'clock') is None:
                continue
            want = dL if lf is r1 else d0b
            got = reg2.get(lf.oid, [])
            if len(got) != 1 or got[0] is not want:
                bad2 = 'clockable leaf %s is registered %d time(s)%s' % (lf.attrs.get('name'), len(got), '' if len(got) != 1 else
                                                                       (' under the driver of its sibling leaf' if got[0] is dL else ' under the wrong driver'))
                break
        if bad2:
            ctx.violation('C10.f', 'registration:driver-on-leaf', bad2, where,
                          witness=dict(configuration='sys > grp > [Reg r0, Reg r1 (own gated driver), Reg r2, DelayLine dl] ; sys > Reg top ; sorted twice'))
        else:
            ctx.ok('C10.f', 'registration:driver-on-leaf', 'a driver placed on one leaf register moves only that leaf: siblings built before and after it, a nested block and a top-level '
                   'register stay under the system driver')
        return True
    except (ElabError, NetError, PyExc, ElabRaise) as e:
        ctx.note('C10.f scenarios not evaluable: %s' % str(e)[:120])
        return False


def run(ctx, sm, facts):
    ctx.rule('C10.f', 'driver table, lookup and registration evaluated on an elaborated two-domain hierarchy')
    scen = check_f(ctx, facts)
    ctx.rule('C10.e', 'ClockDriver keeps enable/base/wire; blocks start with no own driver; HWSystem installs its driver')
    check_e(ctx, facts)
    ctx.rule('C10.a', 'driver loop decision table: clockAll of that driver exactly once iff enable is None or non-zero; gated path continues')
    ctx.rule('C10.b', 'enable read precedes settleAll')
    ctx.rule('C10.c', 'topologicalSort resets the table and registers each clockable leaf once under getObjectClockDriver(leaf)')
    ctx.rule('C10.d', 'getObjectClockDriver decision table: own, else parent (recursive), else refuse')
    check_a(ctx, facts)
    nerr = len(ctx.errors)
    nv = len(ctx.violations)
    check_c(ctx, facts)
    check_d(ctx, facts)
    if scen and not any(v['rule'] == 'C10.f' for v in ctx.violations):
        # registration / lookup clauses are decided by the scenarios; shape rules that cannot read a rewritten function do not raise an error
        for e in ctx.errors[nerr:]:
            ctx.note('shape rule not evaluable (%s); clause decided by C10.f scenarios' % e[:90])
        ctx.errors[nerr:] = [e for e in ctx.errors[nerr:] if not (e.startswith('C10.c') or e.startswith('C10.d'))]
    # the enable is a wire value read before the edge: that presupposes that no prepare() takes effect before the commit (C05.c rules)
    from .c05 import check_c as c05_check_c
    ctx.rule('C05.c', 'a prepared value becomes visible only at the commit (single pending list): see C05')
    c05_check_c(ctx, facts)
    ctx.not_decided.append('"state unchanged when gated" as such: it follows from C05.a (clock() has no immediate effect on wires) '
                           'plus clockAll being the only caller of clock() (C05.b), both checked there')


SELFVAL = [
    dict(name='gate polarity inverted', file=SIM, old='if (drv.enable.get() == 0):', new='if (drv.enable.get() != 0):', expect='C10.a'),
    dict(name='gate only on ==1', file=SIM, old='if (drv.enable.get() == 0):', new='if (drv.enable.get() != 1):', expect='C10.a'),
    dict(name='gated driver breaks the loop', file=SIM, old='                    continue;', new='                    break;', expect='C10.a'),
    dict(name='leaf registered under parent driver', file=SIM, old='leafDriver = getObjectClockDriver(leaf)', new='leafDriver = getObjectClockDriver(leaf.parent)', expect='C10.c'),
    dict(name='driver table not reset on re-sort', file=SIM, old='        self.clockDrivers = {}\n', new='        if not hasattr(self, "clockDrivers"): self.clockDrivers = {}\n', expect='C10.c'),
    dict(name='lookup prefers parent driver', file=BASE,
         old="    if (obj.clockDriver != None):\n        return obj.clockDriver\n    if (obj.parent == None):",
         new="    if (obj.clockDriver != None and obj.parent == None):\n        return obj.clockDriver\n    if (obj.parent == None):", expect='C10.d'),
    dict(name='refactor: truthiness gate', file=SIM,
         old="            if (not(drv.enable is None)):\n                if (drv.enable.get() == 0):\n                    continue;",
         new="            if drv.enable is not None and not drv.enable.get():\n                continue", expect=None),
    dict(name='refactor: lookup with is None', file=BASE,
         old="    if (obj.clockDriver != None):\n        return obj.clockDriver\n    if (obj.parent == None):",
         new="    drv = obj.clockDriver\n    if drv is not None:\n        return drv\n    if (obj.parent is None):", expect=None),
]


def selfval(ctx, sm):
    from ..selfval import run_selfval
    run_selfval(ctx, sm, run, SELFVAL)
