"""C18 - a schematic shows the circuit that exists (structural clauses only).

C18.a  one symbol per child / port: placeInputPorts / placeInstances / placeOutputPorts iterate the
       complete port / children collections of the block, create exactly one symbol per element on
       every path, append it to objs and store it in its own grid row; each of the three runs exactly
       once, outside loops, from placeAndRoute; every pin of an instance is registered (all inPorts
       as sinks, all outPorts as sources);
C18.b  createNets: exactly one net per registered sink pin, built from that pin's wire, its driver
       tuple and the pin itself - no pin is skipped;
C18.c  insertPassthrough / insertFeedback: inside the per-wire loop, after the original net is
       removed, every path re-attaches the wire to the original driver pin (source symbol and
       sourcePort of the removed net) and to the original reader pin (sink symbol and sinkPort), every
       net of the chain carries the same wire, and the chain state is re-initialised for every wire;
C18.d  a pass-through marker is only stored into a grid cell known to be free: either a fresh row is
       always inserted, or the emptiness test covers exactly the columns the markers are written to.
"""
import ast

from ..cfg import paths as cfg_paths
from ..srcmap import norm
from .c04 import calls_in_path
from .c05 import is_call_to

LEVEL_TEXT = ('Static per-path rules over the placement and net-splitting code of the schematic; termination, overlap-freedom of the final '
              'drawing and full connectivity are heuristic, data-dependent behaviour and are not decided.')
REL = 'py4hw/schematic.py'


def check_placement(ctx, sc):
    table = [('placeInputPorts', [('self.sys.inPorts', 'InPortSymbol', ['sources'])]),
             ('placeOutputPorts', [('self.sys.outPorts', 'OutPortSymbol', ['sinks']), ('self.sys.inOutPorts', 'InOutPortSymbol', ['sinks', 'sources'])]),
             ('placeInstances', [('self.sys.children.values()', None, [])])]
    for mn, loops in table:
        m = sc.methods.get(mn)
        where = '%s:Schematic.%s' % (REL, mn)
        if m is None:
            ctx.error('C18.a', 'anchor Schematic.%s not found' % mn)
            continue
        for itx, ctor, regs in loops:
            lp = [n for n in ast.walk(m) if isinstance(n, ast.For) and norm(n.iter) == itx]
            key = '%s:%s' % (mn, itx)
            if len(lp) != 1 or not isinstance(lp[0].target, ast.Name):
                ctx.violation('C18.a', key, '%s does not iterate the complete collection %s' % (mn, itx), where, witness=dict(configuration='block with two such elements'))
                continue
            el = lp[0].target.id
            ok = True
            for evs, ex in cfg_paths(lp[0].body):
                if ex == 'raise':
                    continue
                if ex in ('break', 'return', 'continue'):
                    ok = False
                    ctx.violation('C18.a', key + ':skip', 'an element of %s can be skipped (%s): it gets no symbol' % (itx, ex), where)
                    continue
                cs = calls_in_path(evs)
                if ctor:
                    made = [c for c in cs if norm(c.func) == ctor and c.args and norm(c.args[0]) == el]
                else:
                    made = [c for c in cs if is_call_to(c, 'placeInstance') and [norm(a) for a in c.args] == [el]]
                apps = [c for c in cs if is_call_to(c, 'append') and norm(c.func.value) == 'self.objs']
                grid = [e for e in evs if e.kind == 'stmt' and isinstance(e.node, ast.Assign) and any(
                    isinstance(t, ast.Subscript) and norm(t.value) == 'self.symbol_matrix' for t in e.node.targets)]
                rowinc = [e for e in evs if e.kind == 'stmt' and isinstance(e.node, ast.AugAssign) and isinstance(e.node.op, ast.Add)]
                need_app = 1 if ctor else 0
                if len(made) != 1 or len(apps) != need_app or len(grid) != 1 or not rowinc:
                    ok = False
                    ctx.violation('C18.a', key + ':once', 'an element of %s does not get exactly one symbol placed in its own grid row (symbols %d, objs appends %d, grid stores %d, row advanced %s)'
                                  % (itx, len(made), len(apps), len(grid), bool(rowinc)), where, witness=dict(configuration='block with two such elements'))
                for rg in regs:
                    r = [c for c in cs if is_call_to(c, 'append') and norm(c.func.value) == 'self.' + rg and c.args and isinstance(c.args[0], ast.Dict)
                         and any(isinstance(k, ast.Constant) and k.value == 'port' and norm(v) == el for k, v in zip(c.args[0].keys, c.args[0].values))]
                    if len(r) != 1:
                        ok = False
                        ctx.violation('C18.a', key + ':pin-' + rg, 'the port symbol is not registered once in self.%s with its own port' % rg, where)
            if ok:
                ctx.ok('C18.a', key, 'every element gets exactly one symbol, appended to objs and stored in its own grid row')
    # placeInstance: symbol appended once; all pins registered
    pi = sc.methods.get('placeInstance')
    if pi is None:
        ctx.error('C18.a', 'anchor Schematic.placeInstance not found')
    else:
        ch = pi.args.args[1].arg
        apps = [c for c in ast.walk(pi) if isinstance(c, ast.Call) and is_call_to(c, 'append') and norm(c.func.value) == 'self.objs']
        loops = {norm(n.iter): n for n in ast.walk(pi) if isinstance(n, ast.For)}
        ok = len(apps) == 1
        for itx, reg in (('%s.inPorts' % ch, 'sinks'), ('%s.outPorts' % ch, 'sources')):
            lp = loops.get(itx)
            if lp is None or not isinstance(lp.target, ast.Name):
                ok = False
                continue
            for evs, ex in cfg_paths(lp.body):
                r = [c for c in calls_in_path(evs) if is_call_to(c, 'append') and norm(c.func.value) == 'self.' + reg and c.args and isinstance(c.args[0], ast.Dict)
                     and any(isinstance(k, ast.Constant) and k.value == 'port' and norm(v) == lp.target.id for k, v in zip(c.args[0].keys, c.args[0].values))]
                if len(r) != 1 or ex in ('break', 'return', 'continue'):
                    ok = False
        if ok:
            ctx.ok('C18.a', 'placeInstance', 'one symbol per instance; every input pin registered as sink, every output pin as source')
        else:
            ctx.violation('C18.a', 'placeInstance', 'an instance does not get exactly one symbol with all its pins registered', '%s:Schematic.placeInstance' % REL,
                          witness=dict(configuration='instance with two inputs'))
    # each placement pass runs exactly once, outside loops
    par = sc.methods.get('placeAndRoute')
    if par is None:
        ctx.error('C18.a', 'anchor Schematic.placeAndRoute not found')
        return
    for mn in ('placeInputPorts', 'placeInstances', 'placeOutputPorts'):
        calls = [c for c in ast.walk(par) if isinstance(c, ast.Call) and is_call_to(c, mn)]
        inloop = [c for c in calls if any(isinstance(p, (ast.For, ast.While)) for p in parents(c))]
        top = [s for s in par.body if isinstance(s, ast.Expr) and isinstance(s.value, ast.Call) and is_call_to(s.value, mn)]
        if len(calls) == 1 and not inloop and len(top) == 1:
            ctx.ok('C18.a', 'placeAndRoute:%s' % mn, 'called exactly once, unconditionally')
        else:
            ctx.violation('C18.a', 'placeAndRoute:%s' % mn, '%s is called %d times (%d inside loops / conditionally): symbols are missing or duplicated' % (mn, len(calls), len(calls) - len(top)),
                          '%s:Schematic.placeAndRoute' % REL)
    # nothing removes symbols of instances / ports
    rem = []
    for mn, m in sc.methods.items():
        for c in ast.walk(m):
            if isinstance(c, ast.Call) and isinstance(c.func, ast.Attribute) and c.func.attr in ('remove', 'pop', 'clear') and norm(c.func.value) == 'self.objs':
                rem.append((mn, norm(c)))
    ctx.analysed['objs_removals'] = rem[:6]


def parents(n):
    out = []
    p = getattr(n, '_parent', None)
    while p is not None:
        out.append(p)
        p = getattr(p, '_parent', None)
    return out


def check_create_nets(ctx, sc):
    m = sc.methods.get('createNets')
    where = '%s:Schematic.createNets' % REL
    if m is None:
        ctx.error('C18.b', 'anchor Schematic.createNets not found')
        return
    lp = [n for n in m.body if isinstance(n, ast.For) and norm(n.iter) == 'self.sinks']
    if len(lp) != 1 or not isinstance(lp[0].target, ast.Name):
        ctx.violation('C18.b', 'sink-loop', 'createNets does not iterate over every registered sink pin', where, witness=dict(configuration='one wire read by two pins'))
        return
    sk = lp[0].target.id
    ok = True
    for evs, ex in cfg_paths(lp[0].body):
        if ex == 'raise':
            continue
        if ex in ('break', 'return', 'continue'):
            conds = [(norm(e.node), e.val) for e in evs if e.kind == 'branch' and 'debug' not in norm(e.node)]
            ok = False
            ctx.violation('C18.b', 'one-net-per-pin', 'a sink pin can be skipped (%s under %s): it gets no net' % (ex, conds[-1:] or 'no condition'), where,
                          witness=dict(configuration='one wire read by two pins of the same instance, e.g. Mul(a, a, r)'))
            continue
        al = {}
        for e in evs:
            if e.kind == 'stmt' and isinstance(e.node, ast.Assign) and isinstance(e.node.targets[0], ast.Name):
                al[e.node.targets[0].id] = norm(e.node.value)
        cs = calls_in_path(evs)
        nets = [c for c in cs if norm(c.func) == 'NetSymbol']
        apps = [c for c in cs if is_call_to(c, 'append') and norm(c.func.value) == 'self.nets']
        if len(nets) != 1 or len(apps) != 1:
            conds = [(norm(e.node), e.val) for e in evs if e.kind == 'branch' and 'debug' not in norm(e.node)]
            ok = False
            ctx.violation('C18.b', 'one-net-per-pin', 'a path creates %d nets for one sink pin (conditions %s)' % (len(apps), conds[-2:]), where,
                          witness=dict(configuration='one wire read by two pins of the same instance, e.g. Mul(a, a, r)'))
            continue
        a = [al.get(norm(x), norm(x)) for x in nets[0].args]
        want_wire = "%s['port'].wire" % sk
        srcvar = [k for k, v in al.items() if v.startswith('self.findSourceTuple(')]
        good = len(a) == 5 and a[0] == want_wire and a[2] == "%s['port']" % sk and a[4] == "%s['symbol']" % sk \
            and srcvar and a[1] == "%s['port']" % srcvar[0] and a[3] == "%s['symbol']" % srcvar[0] \
            and al.get(srcvar[0], '').replace(' ', '') in ('self.findSourceTuple(%s)' % want_wire, 'self.findSourceTuple(wire)')
        if not good:
            ok = False
            ctx.violation('C18.b', 'net-ends', 'the net of a sink pin is not built from (its wire, the driver tuple of that wire, the pin itself): NetSymbol(%s)' % ', '.join(a), where)
    if ok:
        ctx.ok('C18.b', 'one-net-per-pin', 'every registered sink pin gets exactly one net from the driver of its wire to itself')


def check_split(ctx, sc, mn):
    m = sc.methods.get(mn)
    where = '%s:Schematic.%s' % (REL, mn)
    if m is None:
        ctx.error('C18.c', 'anchor Schematic.%s not found' % mn)
        return
    a = [x.arg for x in m.args.args]
    source, sink = a[1], a[3]
    lp = [n for n in m.body if isinstance(n, ast.For) and any(isinstance(c, ast.Call) and is_call_to(c, 'remove') and norm(c.func.value) == 'self.nets' for c in ast.walk(n))]
    if len(lp) != 1 or not isinstance(lp[0].target, ast.Name):
        ctx.error('C18.c', '%s: per-wire loop removing the original net not found' % mn)
        return
    wire = lp[0].target.id
    ok = True
    npaths = 0
    # a marker loop over range(sourcecol+1, sinkcol) runs at least once when every call site is guarded by sinkcol > sourcecol + 1
    at_least_one = set()
    calls = [(mm, c) for mm in sc.methods.values() for c in ast.walk(mm) if isinstance(c, ast.Call) and is_call_to(c, mn) and len(c.args) >= 4]
    guarded = bool(calls)
    for mm, c in calls:
        g = [p for p in parents(c) if isinstance(p, ast.If)]
        want = '%s > %s + 1' % (norm(c.args[3]), norm(c.args[1]))
        if not any(norm(i.test).replace('(', '').replace(')', '') == want and any(c in list(ast.walk(b)) for b in i.body) for i in g):
            guarded = False
    if guarded:
        for n in ast.walk(lp[0]):
            if isinstance(n, ast.For) and n is not lp[0] and norm(n.iter).replace(' ', '') == 'range(%s+1,%s)' % (a[2], a[4]):
                at_least_one.add(n)
    for evs, ex in cfg_paths(lp[0].body, limit=4000):
        if ex in ('raise', 'continue'):
            continue
        if any(e.kind == 'loop' and e.val == 0 and e.node in at_least_one for e in evs):
            continue        # infeasible: the call-site guard makes the range non-empty
        idx = [i for i, e in enumerate(evs) if e.kind == 'stmt' and any(isinstance(c, ast.Call) and is_call_to(c, 'remove') and norm(c.func.value) == 'self.nets' for c in ast.walk(e.node))]
        if not idx:
            continue
        npaths += 1
        rem_call = [c for c in ast.walk(evs[idx[0]].node) if isinstance(c, ast.Call) and is_call_to(c, 'remove')][0]
        removed = norm(rem_call.args[0])
        # alias tracking along the path (within this iteration only)
        al = {}
        nets = []
        undefined_use = None
        infeasible = False
        for e in evs:
            if e.kind == 'branch' and isinstance(e.node, ast.Compare) and len(e.node.ops) == 1 and isinstance(e.node.left, ast.Name) \
                    and isinstance(e.node.comparators[0], ast.Constant) and e.node.comparators[0].value is None:
                v = al.get(e.node.left.id, e.node.left.id if e.node.left.id in (source, sink) else None)
                if v is not None and (v in (source, sink) or v.startswith('<new ')):
                    nonnone = isinstance(e.node.ops[0], (ast.NotEq, ast.IsNot))
                    if e.val != nonnone:
                        infeasible = True       # the variable holds a symbol on this path: the other branch cannot be taken
            if e.kind == 'stmt' and isinstance(e.node, ast.Assign) and len(e.node.targets) == 1 and isinstance(e.node.targets[0], ast.Name):
                tgt = e.node.targets[0].id
                v = e.node.value
                if isinstance(v, ast.Call) and norm(v.func) == 'NetSymbol':
                    args = []
                    for x in v.args:
                        tx = norm(x)
                        if isinstance(x, ast.Name) and x.id not in (source, sink, wire):
                            if x.id in al:
                                tx = al[x.id]
                            else:
                                undefined_use = undefined_use or x.id
                                tx = '<carried over from a previous iteration: %s>' % x.id
                        args.append(tx)
                    nets.append(args)
                    al[tgt] = 'net'
                elif isinstance(v, ast.Name):
                    al[tgt] = al.get(v.id, v.id)
                elif isinstance(v, ast.Call):
                    al[tgt] = '<new %s@%d>' % (norm(v.func), len(al))
                else:
                    al[tgt] = norm(v)
        if infeasible:
            npaths -= 1
            continue
        if undefined_use and undefined_use not in ('pts',):
            ok = False
            ctx.violation('C18.c', '%s:chain-state-per-wire' % mn, 'the chain variable `%s` is not re-initialised for every wire: the second wire between the same two symbols starts from the markers of the first' % undefined_use,
                          where, witness=dict(configuration='two different wires running between the same two instances'))
            continue
        src_ok = any(len(n) == 5 and n[0] == wire and n[1] == '%s.sourcePort' % removed and n[3] == source for n in nets)
        snk_ok = any(len(n) == 5 and n[0] == wire and n[2] == '%s.sinkPort' % removed and n[4] == sink for n in nets)
        wire_ok = all(n and n[0] == wire for n in nets)
        if not (src_ok and snk_ok and wire_ok):
            ok = False
            ctx.violation('C18.c', '%s:re-attached' % mn, 'after the original net is removed the wire is not re-attached to %s (nets created: %s)'
                          % (', '.join(x for x, g in (('the driver pin', src_ok), ('the reader pin', snk_ok), ('the same wire', wire_ok)) if not g), nets[:4]), where,
                          witness=dict(configuration='a forward edge spanning two columns / a backward edge'))
    if npaths == 0:
        ctx.error('C18.c', '%s: no path through the per-wire loop removes a net' % mn)
    elif ok:
        ctx.ok('C18.c', mn, '%d paths: chain state re-initialised per wire; first net leaves the original driver pin, last net enters the original reader pin, all with the same wire' % npaths)


def check_overwrite(ctx, sc):
    m = sc.methods.get('insertPassthrough')
    where = '%s:Schematic.insertPassthrough' % REL
    if m is None:
        return
    stores = [n for n in ast.walk(m) if isinstance(n, ast.Assign) and any(isinstance(t, ast.Subscript) and norm(t.value) == 'self.symbol_matrix' for t in n.targets)]
    loops = [p for s in stores for p in parents(s) if isinstance(p, ast.For) and isinstance(p.iter, ast.Call) and norm(p.iter.func) == 'range']
    if not stores or not loops:
        ctx.error('C18.d', 'marker placement loop not recognised in insertPassthrough')
        return
    rng = [norm(x) for x in loops[0].iter.args]
    tests = [n for n in ast.walk(m) if isinstance(n, ast.If) and any(isinstance(c, ast.Call) and norm(c.func) in ('np.insert', 'numpy.insert') for c in ast.walk(n))]
    if not tests:
        ctx.violation('C18.d', 'free-cell', 'markers are written into the grid row of the driver without inserting a fresh row or testing that the cells are free', where,
                      witness=dict(configuration='forward edge skipping a column whose cell in the driver row is occupied'))
        return
    t = tests[0].test
    txt = norm(t)
    # `<array slice> is None` is constant False in numpy: the fresh row is then always inserted
    const_form = any(isinstance(x, ast.Compare) and isinstance(x.ops[0], ast.Is) and isinstance(x.left, ast.Subscript) for x in ast.walk(t))
    if const_form:
        ctx.ok('C18.d', 'free-cell', 'the emptiness test is the identity form (`<slice> is None`), which never holds for an array: a fresh row is always inserted before markers are written')
        return
    sl = [x for x in ast.walk(t) if isinstance(x, ast.Subscript) and norm(x.value) == 'self.symbol_matrix']
    covered = False
    for s in sl:
        idx = s.slice
        if isinstance(idx, ast.Tuple) and len(idx.elts) == 2 and isinstance(idx.elts[1], ast.Slice):
            lo = norm(idx.elts[1].lower) if idx.elts[1].lower is not None else '0'
            hi = norm(idx.elts[1].upper) if idx.elts[1].upper is not None else ''
            if [lo.replace(' ', ''), hi.replace(' ', '')] == [r.replace(' ', '') for r in rng[:2]]:
                covered = True
    if covered:
        ctx.ok('C18.d', 'free-cell', 'the emptiness test covers exactly the columns %s the markers are written to' % rng)
    else:
        ctx.violation('C18.d', 'free-cell', 'the emptiness test `%s` does not cover the columns range(%s) the markers are written to: an occupied cell can be overwritten' % (txt[:80], ', '.join(rng)),
                      where, witness=dict(configuration='forward edge skipping a column; the cell just before the reader in the driver row is occupied'))


def check_f(ctx, sm, tier, seed):
    """C18.f: place-and-route is structure-only code (grids, lists, geometry): it is evaluated by the abstract interpreter on
    elaborated structural blocks (library compositions and synthetic netlists with feedback, long forward edges, fan-out,
    one wire on two pins, shadowed wire names).  Oracle = the property: one symbol per child and per port; no two of them
    overlap; for every wire the nets carrying it form one connected figure that contains the real driver pin and every
    real reader pin, and every pin a net of that wire ends on belongs to that wire."""
    import random
    from ..elab import ElabError, ElabRaise, PyExc, ObjV
    from ..facts import Facts
    from ..netlist import Design, NetError
    from ..specs import SPECS
    from .c02 import overlay_source, CASES_REL
    f2 = Facts(sm.with_overlay({CASES_REL: overlay_source()}))
    rnd = random.Random(seed + 18)
    where = '%s:Schematic.placeAndRoute' % REL
    MARKERS = ('PassthroughSymbol', 'FeedbackStartSymbol', 'FeedbackStopSymbol')

    def synth(name, *args, **kw):
        return lambda D: D.make(name, 'dut', *[a(D) if callable(a) else a for a in args], rel=CASES_REL, **{k: (v(D) if callable(v) else v) for k, v in kw.items()})

    def W(n, w=4):
        return lambda D: D.wire(n, w)
    designs = [('HvAccumulator', synth('HvAccumulator', W('a'), W('q'))),
               ('HvAccumulator(en)', synth('HvAccumulator', W('a'), W('q'), en=W('en', 1))),
               ('HvLongEdge(1)', synth('HvLongEdge', W('a'), W('r'), 1)),
               ('HvLongEdge(2)', synth('HvLongEdge', W('a'), W('r'), 2)),
               ('HvTwoFeedback', synth('HvTwoFeedback', W('a', 1), W('q', 1))),
               ('HvLongEdge(3)', synth('HvLongEdge', W('a'), W('r'), 3)),
               ('HvLongEdge(5)', synth('HvLongEdge', W('a'), W('r'), 5)),
               ('HvTwoPins', synth('HvTwoPins', W('a'), W('b', 1), W('r'), W('s'))),
               ('HvPipeFeedback', synth('HvPipeFeedback', W('a'), W('q'))),
               ('HvInnerName', synth('HvInnerName', W('t'), W('r'))),
               ('HvLane', synth('HvLane', W('a'), W('r'), True)),
               ('HvMultiOutFar', synth('HvMultiOutFar', W('a', 3), W('r', 1), W('s', 1))),
               ('HvTwoPinsFar', synth('HvTwoPinsFar', W('a'), W('b', 1), W('r'))),
               ('HvNoInputs(add first)', synth('HvNoInputs', W('q'), True)),
               ('HvNoInputs(reg first)', synth('HvNoInputs', W('q'), False))]
    for sp in SPECS:
        cfgs = list(sp['configs'](tier))
        for p in (cfgs[len(cfgs) // 2:len(cfgs) // 2 + 1] if tier == 'quick' else cfgs[::max(1, len(cfgs) // 3)][:3]):
            designs.append(('%s %s' % (sp['name'], p), (lambda D, sp=sp, p=p: (sp['build'](D, p), D.sys.attrs['children']['dut'])[1])))
    done = 0
    skipped = []
    outside = []
    problems = {}

    def meth(el, o, name, *args):
        return el.call(el.getattr_(o, name), list(args), {}, {})

    for name, build in designs:
        try:
            D = Design(f2)
            top = build(D)
            if not top.attrs.get('children'):
                continue
            el = D.el
            el.steps = 0
            sc = el.find_class('Schematic', REL)
            sch = el.instantiate(sc, [top], {})
        except ElabRaise as e:
            skipped.append('%s: raises %s' % (name, str(e)[:60]))
            continue
        except (ElabError, NetError, PyExc) as e:
            skipped.append('%s: %s' % (name, str(e)[:80]))
            continue
        objs = [o for o in sch.attrs.get('objs', []) if isinstance(o, ObjV)]
        nets = [n for n in sch.attrs.get('nets', []) if isinstance(n, ObjV)]
        if any(o.cinfo.name == 'MissingConnectionSymbol' for o in objs):
            outside.append(name)       # an internal wire without driver: outside the property's domain
            continue
        done += 1
        cls0 = name.split(' ')[0]
        children = list(top.attrs['children'].values())
        ports = list(top.attrs.get('inPorts', [])) + list(top.attrs.get('outPorts', [])) + list(top.attrs.get('inOutPorts', []))
        # (1) one symbol per child / port
        sym_of = {}
        for thing, kind in [(c, 'instance') for c in children] + [(p, 'port') for p in ports]:
            ss = [o for o in objs if o.attrs.get('obj') is thing]
            if len(ss) != 1:
                problems.setdefault(('symbol-count', cls0), dict(design=name, problem='%s `%s` has %d symbols' % (kind, thing.attrs.get('name'), len(ss))))
            if ss:
                sym_of[id(thing)] = ss[0]
        # (2) placed symbols: each exactly once in the grid, rectangles disjoint
        grid = sch.attrs.get('symbol_matrix')
        real = [o for o in objs if o.cinfo.name not in MARKERS]
        try:
            cells = {}
            if grid is not None:
                for r in range(grid.shape[0]):
                    for c in range(grid.shape[1]):
                        if isinstance(grid[r, c], ObjV):
                            cells.setdefault(id(grid[r, c]), []).append((r, c))
            for o in real:
                if len(cells.get(id(o), [])) != 1:
                    problems.setdefault(('grid-placement', cls0), dict(design=name, problem='symbol of `%s` occupies %d grid cells' % (
                        (o.attrs.get('obj').attrs.get('name') if isinstance(o.attrs.get('obj'), ObjV) else o.cinfo.name), len(cells.get(id(o), [])))))
            # every pin of a symbol has its own position (a net is drawn to the position its pin reports)
            for o in real:
                ob = o.attrs.get('obj')
                if not isinstance(ob, ObjV) or not ob.attrs.get('children') and o.cinfo.name in ('InPortSymbol', 'OutPortSymbol', 'InOutPortSymbol'):
                    continue
                for plist, getter in (('inPorts', 'getPortSinkPos'), ('outPorts', 'getPortSourcePos')):
                    pl = [p_ for p_ in ob.attrs.get(plist, []) if isinstance(p_, ObjV)] if isinstance(ob.attrs.get(plist), list) else []
                    if len(pl) < 2:
                        continue
                    pos = [tuple(meth(el, o, getter, p_)) for p_ in pl]
                    if len(set(pos)) != len(pos):
                        dup = [pl[i].attrs.get('name') for i in range(len(pos)) if pos.count(pos[i]) > 1]
                        problems.setdefault(('pin-position', '%s:%s' % (o.cinfo.name, ','.join(dup))), dict(design=name, problem='pins %s of `%s` (drawn as %s) report the same position: the nets of different wires end on one point' % (dup, ob.attrs.get('name'), o.cinfo.name)))
            rects = []
            for o in real:
                w, h = meth(el, o, 'getWidth'), meth(el, o, 'getHeight')
                rects.append((o.attrs['x'], o.attrs['y'], o.attrs['x'] + w, o.attrs['y'] + h, o))
            for i in range(len(rects)):
                for j in range(i + 1, len(rects)):
                    a, b = rects[i], rects[j]
                    if a[0] < b[2] and b[0] < a[2] and a[1] < b[3] and b[1] < a[3]:
                        problems.setdefault(('overlap', cls0), dict(design=name, problem='symbols of `%s` and `%s` overlap' % tuple(
                            (x[4].attrs.get('obj').attrs.get('name') if isinstance(x[4].attrs.get('obj'), ObjV) else x[4].cinfo.name) for x in (a, b))))
        except (ElabError, PyExc, ElabRaise, TypeError, KeyError) as e:
            skipped.append('%s: geometry not evaluable: %s' % (name, str(e)[:60]))
        # (3) connectivity per wire
        wires = {}
        for c in children:
            for po in c.attrs.get('outPorts', []):
                w = po.attrs.get('wire')
                if w is not None:
                    wires.setdefault(id(w), dict(w=w, drv=[], rd=[]))['drv'].append((c, po))
            for po in c.attrs.get('inPorts', []):
                w = po.attrs.get('wire')
                if w is not None:
                    wires.setdefault(id(w), dict(w=w, drv=[], rd=[]))['rd'].append((c, po))
        for po in top.attrs.get('inPorts', []):
            wires.setdefault(id(po.attrs['wire']), dict(w=po.attrs['wire'], drv=[], rd=[]))['drv'].append((po, po))
        for po in top.attrs.get('outPorts', []):
            wires.setdefault(id(po.attrs['wire']), dict(w=po.attrs['wire'], drv=[], rd=[]))['rd'].append((po, po))

        def node(sym, port):
            if sym is None:
                return None
            if sym.cinfo.name in MARKERS or port is None:
                return ('m', id(sym))
            return ('p', id(sym), id(port))
        for wi in wires.values():
            w = wi['w']
            wn = w.attrs.get('name')
            if len(wi['drv']) != 1 or not wi['rd']:
                continue        # undriven / unread wires: nothing to draw (or outside the domain)
            mine = [n for n in nets if n.attrs.get('wire') is w]
            parent = {}

            def find(x):
                while parent.setdefault(x, x) != x:
                    parent[x] = parent[parent[x]]
                    x = parent[x]
                return x
            foreign = None
            for n in mine:
                a, b = node(n.attrs.get('source'), n.attrs.get('sourcePort')), node(n.attrs.get('sink'), n.attrs.get('sinkPort'))
                if a is None or b is None:
                    continue
                parent[find(a)] = find(b)
                for sym, port in ((n.attrs.get('source'), n.attrs.get('sourcePort')), (n.attrs.get('sink'), n.attrs.get('sinkPort'))):
                    if isinstance(port, ObjV) and sym is not None and sym.cinfo.name not in MARKERS and port.attrs.get('wire') is not w:
                        foreign = (sym, port)
            if foreign:
                problems.setdefault(('foreign-pin', cls0), dict(design=name, problem='a net of wire `%s` ends on pin `%s` of `%s`, which carries another wire' % (
                    wn, foreign[1].attrs.get('name'), (foreign[0].attrs.get('obj').attrs.get('name') if isinstance(foreign[0].attrs.get('obj'), ObjV) else '?'))))
            owner, dport = wi['drv'][0]
            dsym = sym_of.get(id(owner))
            dn = node(dsym, dport) if dsym is not None else None
            if dn is None or dn not in parent:
                problems.setdefault(('driver-pin', cls0), dict(design=name, problem='no net of wire `%s` touches the pin that drives it (`%s`.%s)' % (wn, owner.attrs.get('name'), dport.attrs.get('name'))))
                continue
            root = find(dn)
            for owner2, rport in wi['rd']:
                rsym = sym_of.get(id(owner2))
                rn = node(rsym, rport) if rsym is not None else None
                if rn is None or rn not in parent or find(rn) != root:
                    problems.setdefault(('reader-pin', cls0), dict(design=name, problem='the figure drawn for wire `%s` does not reach the reader pin `%s`.%s' % (wn, owner2.attrs.get('name'), rport.attrs.get('name'))))
                    break
            if any(find(x) != root for x in list(parent)):
                problems.setdefault(('one-figure', cls0), dict(design=name, problem='the nets drawn for wire `%s` form more than one figure' % wn))
    ctx.analysed['schematics_built'] = done
    ctx.analysed['schematics_outside_domain'] = outside[:10]
    ctx.analysed['schematics_skipped'] = skipped[:12]
    for (kind, cls0), wdict in sorted(problems.items()):
        ctx.violation('C18.f', '%s:%s' % (kind, cls0), 'schematic of `%s`: %s' % (wdict['design'], wdict['problem']), where, witness=wdict)
    if done < 20:
        ctx.ok('C18.f', 'schematics', 'place-and-route is outside the interpreted subset for most designs (%d built; first reasons: %s): decided by the shape rules only' % (done, skipped[:2]), grade='refused')
    else:
        ctx.ok('C18.f', 'schematics-built', '%d structural blocks placed and routed by the interpreted code and examined' % done, grade='bounded')
    if done >= 20 and not problems:
        ctx.ok('C18.f', 'schematics', '%d structural blocks placed and routed by the interpreted code: one symbol per child and port, no overlap, every wire one connected figure from its real driver pin '
               'to every real reader pin, no foreign pins' % done, grade='bounded')
    return done, problems


def run(ctx, sm, facts):
    ctx.rule('C18.f', 'place-and-route evaluated on elaborated structural blocks: symbol count, overlap, per-wire connectivity to the real pins')
    ctx.rule('C18.a', 'one symbol per child / port, placed once; all pins registered; placement passes run once')
    ctx.rule('C18.b', 'createNets: exactly one net per registered sink pin, from the driver of its wire')
    ctx.rule('C18.c', 'net splitting re-attaches driver pin and reader pin with the same wire; chain state per wire')
    ctx.rule('C18.d', 'markers only written into cells known to be free')
    ctx.rule('C18.g', 'instance isolation: a second schematic in the process does not see the first (no class-level container / mutable default / memoised method in the schematic files)')
    from ..leafrules import shared_instance_state
    shared_instance_state(ctx, facts, 'C18.g', [REL, 'py4hw/schematic_symbols.py'])
    sc = facts.cls('Schematic', REL, required=False)
    if sc is None:
        ctx.error('C18', 'anchor class Schematic not found')
        return
    check_f(ctx, sm, ctx.tier, ctx.seed)
    nv, ne = len(ctx.violations), len(ctx.errors)
    check_placement(ctx, sc)
    check_create_nets(ctx, sc)
    check_split(ctx, sc, 'insertPassthrough')
    check_split(ctx, sc, 'insertFeedback')
    check_overwrite(ctx, sc)
    ctx.defer_shape(('C18.a', 'C18.b', 'C18.c', 'C18.d'), 'C18.f', nv, ne)
    ctx.not_decided += ['termination of place and route', 'overlap-freedom of the final grid', 'connectivity of the final drawing for all netlists',
                        'column / row assignment and routing heuristics']
