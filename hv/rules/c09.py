"""C09 - storage and sequential blocks follow their reference state machines.

C09.a  every sequential block named by the property (register, toggle register, counters, delay
       line, pipeline stage, bidirectional shift register, stack, edge detector, synchronous
       memory) is elaborated from its constructor; the extracted netlist, stepped through the
       symbolic clock()/propagate() summaries of its leaves, is co-simulated with the documented
       reference state machine from power-up over all short input sequences and long biased ones;
C09.b  read-before-write order inside the memories' clock();
C09.c  definite failures in the anchored files;
C09.d  instance isolation ("from power-up" holds for every instance whatever was built before): no mutable default argument of a
       constructor is stored or mutated, no class-level container is written through an instance.
"""
import ast

from ..cfg import fn_paths
from ..leafrules import definite_failures, shared_instance_state
from ..structrules import run_seq_specs
from ..srcmap import norm

LEVEL_TEXT = ('Static extraction + bounded co-simulation of two extracted models: netlists elaborated from the constructors and stepped through '
              'symbolic summaries of the leaves, versus documented reference state machines, over all input sequences up to a small depth and '
              'sampled long ones, from power-up.')
FILES = ['py4hw/logic/storage.py', 'py4hw/logic/clock.py']


def read_before_write(ctx, facts):
    for cn in ('SynchronousMemory', 'DualPortSynchronousMemory'):
        c = facts.cls(cn, required=False)
        if c is None or 'clock' not in c.methods:
            ctx.error('C09.b', 'anchor %s.clock not found' % cn)
            continue
        m = c.methods['clock']
        ok = True
        n = 0
        for evs, ex in fn_paths(m):
            if ex == 'raise':
                continue
            reads = [i for i, e in enumerate(evs) if e.kind == 'stmt' and any(
                isinstance(x, ast.Call) and isinstance(x.func, ast.Attribute) and x.func.attr == 'prepare' and any(
                    isinstance(y, ast.Subscript) and norm(y.value) == 'self.data' for y in ast.walk(x)) for x in ast.walk(e.node))]
            writes = [i for i, e in enumerate(evs) if e.kind == 'stmt' and isinstance(e.node, ast.Assign) and any(
                isinstance(t, ast.Subscript) and norm(t.value) == 'self.data' for t in e.node.targets)]
            n += len(reads)
            if not reads:
                ok = False
            # single-port: every read precedes every write; dual-port: the read of a port precedes the write of the same port
            if cn == 'SynchronousMemory' and writes and reads and min(writes) < max(reads):
                ok = False
            if cn == 'DualPortSynchronousMemory' and writes and reads and min(writes) < min(reads):
                ok = False
        if ok:
            ctx.ok('C09.b', cn, 'on every path the cell is read (prepare) before it is written')
        else:
            ctx.violation('C09.b', cn, 'a path of clock() writes the cell before the read data is prepared (write-first memory)',
                          '%s:%s.clock' % (c.rel, cn), witness=dict(history='read and write the same address in one cycle'))


def run(ctx, sm, facts):
    ctx.rule('C09.a', 'elaborated netlists co-simulated with the documented reference state machines')
    ctx.rule('C09.b', 'memories read before they write')
    ctx.rule('C09.c', 'no undefined name / never-assigned attribute in storage.py, clock.py and the counters')
    run_seq_specs(ctx, facts, 'C09', 'C09.a', ctx.tier, ctx.seed, floor=9)
    read_before_write(ctx, facts)
    definite_failures(ctx, facts, sm, 'C09.c', FILES)
    definite_failures(ctx, facts, sm, 'C09.c', ['py4hw/logic/arithmetic.py'], class_filter=lambda n: n in ('Counter', 'ModuloCounter', 'StepUpCounter'))
    ctx.rule('C09.d', 'instance isolation: no mutable default argument / class-level container carries state from one block instance to another')
    n = shared_instance_state(ctx, facts, 'C09.d', FILES + ['py4hw/logic/arithmetic.py'])
    ctx.floor('C09.d', 'classes scanned', n, 20)
    ctx.not_decided += ['input sequences longer than the bound / widths and depths above the grid', 'ClockDivider with non-integer ratios and AutoReset (reset length is not documented)']
    ctx.assumptions += ['reference state machines transcribed from the docstrings in hv/specs.py', 'elaborator and summariser faithful; unsupported constructs abort an entry as not evaluable']
