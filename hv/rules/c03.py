"""C03 - emitted Verilog is self-consistent: it parses, resolves and elaborates.

The generator itself (rtl_generation.py) is evaluated abstractly over elaborated designs (structure
only - names, widths, port lists; see hv/gen.py) and the emitted text goes through a Verilog front
end (hv/vfront.py):

C03.a  every design of the catalogue (each structural block of the library at several
       configurations + composite designs) yields text that parses; every identifier used is declared
       exactly once and is not a reserved word; every instance names a module defined exactly once,
       connects only ports that module has, with matching widths, leaves no input open; every net
       has exactly one driver of the right kind; ranges are legal;
C03.b  interchangeability: all objects emitted under one module name produce the same module text
       (interface and body), so binding an instance to the first emitted body changes nothing;
C03.c  reserved-word table of the generator covers the IEEE 1364-2005 keyword list;
C03.d  user-chosen names (wires, instances, ports) reach the text as legal identifiers.
"""
import ast
import re

from ..elab import ElabError, ElabRaise, PyExc, ObjV
from ..gen import hierarchy_text, module_text, module_name, non_inlined_objects, generator, GenError
from ..netlist import Design, NetError
from ..specs import SPECS
from ..srcmap import norm
from .. import vfront
from ..vlog import RESERVED_2005

LEVEL_TEXT = ('Static: abstract evaluation of the generator over elaborated designs + a Verilog front end (parse, declaration, instance/port/width, '
              'driver checks) + same-name interchangeability of module texts, over a catalogue of library blocks and composite designs.')
RTL = 'py4hw/rtl_generation.py'
IDENT = re.compile(r'^[A-Za-z_][A-Za-z0-9_$]*$')


def strip(text):
    out = []
    for l in text.splitlines():
        l = l.strip()
        if not l or l.startswith('//'):
            continue
        out.append(re.sub(r'\s+', ' ', l))
    return '\n'.join(out)


def composites():
    """(name, builder(D) -> top object or None for the whole system)"""
    def regs(D):
        d = D.wire('d', 8)
        e = D.wire('e')
        D.make('Reg', 'r0', d, D.wire('q0', 8), reset_value=0)
        D.make('Reg', 'r1', d, D.wire('q1', 8), reset_value=165)
        D.make('Reg', 'r2', d, D.wire('q2', 8), enable=e, reset_value=3)
        D.make('Reg', 'r3', d, D.wire('q3', 8), enable=e, reset=D.wire('rst'), reset_value=3)
        D.make('Reg', 'r4', d, D.wire('q4', 8), enable=e, reset=D.wire('rst2'))
        return None

    def adds(D):
        a8, b4, b8 = D.wire('a', 8), D.wire('b4', 4), D.wire('b8', 8)
        D.make('Add', 'add0', a8, b4, D.wire('r0', 8))
        D.make('Add', 'add1', a8, b8, D.wire('r1', 8))
        D.make('Add', 'add2', a8, b8, D.wire('r2', 9))
        D.make('Add', 'add3', a8, b8, D.wire('r3', 8), ci=D.wire('ci'))
        D.make('Add', 'add4', a8, b8, D.wire('r4', 8), co=D.wire('co'))
        return None

    def abss(D):
        a = D.wire('a', 8)
        D.make('Abs', 'abs0', a, D.wire('r0', 8))
        D.make('Abs', 'abs1', a, D.wire('r1', 8), inverted=D.wire('inv'))
        D.make('Neg', 'neg0', a, D.wire('n0', 8))
        D.make('Neg', 'neg1', a, D.wire('n1', 9))
        D.make('Sign', 'sg', a, D.wire('s'))
        return None

    def misc(D):
        a, b = D.wire('a', 4), D.wire('b', 4)
        D.make('BufEnable', 'be0', a, D.wire('en'), D.wire('x0', 4))
        D.make('Latch', 'l0', a, D.wire('lq', 4), D.wire('le'))
        D.make('Comparator', 'c0', a, b, D.wire('gt'), D.wire('eq'), D.wire('lt'))
        D.make('Constant', 'kneg', -1, D.wire('kn', 8))         # a negative constant must come out as a legal literal
        D.make('Constant', 'kbig', 300, D.wire('kb', 8))
        D.make('Comparator', 'c1', D.wire('a6', 6), D.wire('b6', 6), D.wire('gt6'), D.wire('eq6'), D.wire('lt6'))
        return None

    def shadow(D):
        mid = D.wire('Mid', 4)
        b = D.wire('b', 4)
        D.make('Buf', 'drv', b, mid)
        D.make('Nand2', 'n0', mid, b, D.wire('r', 4))
        D.make('Nor2', 'n1', b, mid, D.wire('r2', 4))
        # outer wires that carry the same names as wires inside the blocks they are attached to
        add = D.wire('add', 3)
        D.make('Counter', 'cnt', reset=D.wire('rst'), inc=D.wire('inc'), q=add)
        neg = D.wire('neg', 4)
        D.make('Abs', 'abs', neg, D.wire('sign', 4))
        D.make('Buf', 'drvneg', b, neg)
        return None

    def two_domains(D):
        el = D.el
        vga = D.wire('vga_clk')
        D.make('ClockDivider', 'div', 100, 25, vga)
        dl = D.make('DelayLine', 'slow', D.wire('a', 4), None, None, D.wire('r', 4), 2)
        cdc = el.find_class('ClockDriver', 'py4hw/base.py')
        dl.attrs['clockDriver'] = el.instantiate(cdc, ['clk25'], dict(wire=vga))
        D.make('DelayLine', 'fast', D.wire('a2', 4), None, None, D.wire('r2', 4), 1)
        return None

    def nested(D):
        # a block nested two levels down, plus fan-out of one wire to several instances
        a = D.wire('a', 3)
        q = D.wire('q', 3)
        D.make('Counter', 'cnt', reset=D.wire('rst'), inc=D.wire('inc'), q=q)
        D.make('Equal', 'eq', a, q, D.wire('same'))
        D.make('Max2', 'mx', a, q, D.wire('big', 3))
        return None
    def same_inner(D):
        # blocks of one class whose children carry the same instance names but differ in structure
        a4, b4, a8, b8 = D.wire('a4', 4), D.wire('b4', 4), D.wire('a8', 8), D.wire('b8', 8)
        D.make('Max2', 'mx4', a4, b4, D.wire('big4', 4))
        D.make('Max2', 'mx8', a8, b8, D.wire('big8', 8))
        D.make('Min2', 'mn4', a4, b4, D.wire('small4', 4))
        D.make('Min2', 'mn8', a8, b8, D.wire('small8', 8))
        D.make('ClockDivider', 'div5', 100, 10, D.wire('ck5'))
        D.make('ClockDivider', 'div6', 120, 10, D.wire('ck6'))
        D.make('ClockDivider', 'div3', 60, 10, D.wire('ck3'), reset=D.wire('rst'))
        return None
    def user_classes(D):
        # instances of one user class (no structureName): combinational first, registered second; then nested ones of two widths
        from .c02 import CASES_REL
        a4, a8 = D.wire('a4', 4), D.wire('a8', 8)
        D.make('HvStage', 's0', a4, D.wire('r0', 4), False, rel=CASES_REL)
        D.make('HvStage', 's1', a4, D.wire('r1', 4), True, rel=CASES_REL)
        D.make('HvLane', 'narrow', a4, D.wire('r2', 4), False, rel=CASES_REL)
        D.make('HvLane', 'wide', a8, D.wire('r3', 8), True, rel=CASES_REL)
        return None
    def params(first, pname):
        def f(D):
            from .c02 import CASES_REL
            D.make('HvParamPair', 'pair', D.wire('a', 8), D.wire('load'), D.wire('r', 8), pname, 7, first, rel=CASES_REL)
            return None
        return f
    def shadow_local(D):
        # a behavioural block with a local variable named like its output port (the port must not be declared a second time)
        from .c02 import CASES_REL
        D.make('HvShadowOut', 'sh', D.wire('a', 3), D.wire('b', 3), D.wire('c', 3), D.wire('r', 3), rel=CASES_REL)
        return None
    def owned(D):
        # wires between two children of a block that were created by one of the children
        from .c02 import CASES_REL
        D.make('HvUsesOwned', 'dut', D.wire('a', 4), D.wire('b', 4), D.wire('r', 4), D.wire('q', 4), D.wire('c', 4), rel=CASES_REL)
        return None
    def unused_state(D):
        from .c02 import CASES_REL
        D.make('HvUnusedState', 'dut', D.wire('a', 3), D.wire('q', 5), rel=CASES_REL)
        return None
    return [('behavioural block with a state attribute its clock() never touches', unused_state), ('wires between children created by a child', owned), ('behavioural block with a local named like a port', shadow_local), ('parameter pass-through (first instance, own name)', params(True, 'START')), ('parameter pass-through (first instance, same name)', params(True, 'INIT')),
            ('parameter pass-through (second instance)', params(False, 'START')),
            ('user classes without structureName', user_classes), ('same-named children, different structure', same_inner), ('Reg x5 (shared names)', regs), ('Add x5 (shared names)', adds), ('Abs/Neg/Sign', abss), ('BufEnable/Latch/Comparator', misc),
            ('inner wire named like an outer wire', shadow), ('second clock domain', two_domains), ('nested + fan-out', nested)]


def naming_designs():
    def reserved(D):
        a = D.wire('always', 2)
        D.make('Not', 'begin', a, D.wire('output', 2))
        D.make('Buf', 'b2', a, D.wire('design', 2))
        D.make('Buf', 'b3', a, D.wire('uwire', 2))
        return None

    def odd(D):
        a = D.wire('a b', 2)
        D.make('Not', 'r1 (0xF & 0xA)', a, D.wire('x-y', 2))
        D.make('Buf', '2nd', a, D.wire('3rd', 2))
        return None
    return [('reserved words as names', reserved), ('non-identifier characters in names', odd)]


def top_inputs(D):
    return {'w_' + n for n in D.wires} | set(D.wires)


def run_catalogue(ctx, facts, tier):
    ncat = 0
    skipped = []
    percfg = 2 if tier == 'quick' else 4
    share = {}      # module name -> {normalised text: example}
    designs = []
    for sp in SPECS:
        if sp['name'].endswith(':constant-operand'):
            continue        # the dut of this entry is fed by a sibling Constant: not a closed design of its own
        cfgs = list(sp['configs'](tier))
        step = max(1, len(cfgs) // percfg)
        for p in cfgs[::step][:percfg]:
            designs.append((sp['name'] + ' ' + str(p), (lambda D, sp=sp, p=p: (sp['build'](D, p), D.sys.attrs['children']['dut'])[1]), True))
    for name, b in composites():
        designs.append((name, b, False))
    problems = {}
    for name, build, dut_top in designs:
        try:
            D = Design(facts)
            top = build(D)
            text = hierarchy_text(D, top)
        except ElabRaise:
            continue
        except (ElabError, NetError) as e:
            skipped.append('%s: %s' % (name, str(e)[:80]))
            continue
        except (PyExc, GenError) as e:
            if 'inspect' in str(e) or 'astunparse' in str(e):
                skipped.append('%s: contains a transpiled leaf (outside the generator interpreter)' % name)
                continue
            # the property speaks about text that generation RETURNS; a refusal (exception) is not a C03 matter
            skipped.append('%s: generation refuses: %s' % (name, str(e)[:80]))
            continue
        ncat += 1
        inputs = top_inputs(D)
        for kind, msg in vfront.check_design(text):
            if kind == 'net-undriven' and top is None and any(('`%s`' % n) in msg for n in inputs):
                continue        # the catalogue leaves the inputs of the top-level system open
            sig = re.sub(r'_[0-9a-f]{3,}\b', '_#', msg)
            sig = re.sub(r'[^A-Za-z0-9_#`]+', ' ', sig)
            ids = [w.strip('`') for w in sig.split() if w.startswith('`') or w.startswith('i_') or w[:1].isupper()]
            problems.setdefault((kind, name.split(' ')[0] + ':' + '/'.join(ids[:5])), '%s [design: %s]' % (msg, name))
        # interchangeability
        try:
            g = generator(D)
            for obj in non_inlined_objects(D, g, top):
                mn = module_name(D, obj)
                mt = strip(module_text(D, obj))
                mt = re.sub(r'\b([A-Za-z]\w*?)_[0-9a-f]+\b(?= i_)', r'\1_#', mt)
                share.setdefault(mn, {}).setdefault(mt, '%s in design %s' % (obj.attrs.get('name'), name))
        except (ElabError, PyExc, GenError, ElabRaise) as e:
            if 'inspect' not in str(e):
                skipped.append('%s: per-object module text: %s' % (name, str(e)[:80]))
    ctx.analysed['designs_generated'] = ncat
    ctx.analysed['designs_skipped'] = skipped[:12]
    ctx.floor('C03.a', 'designs generated and checked', ncat, 60)
    for (kind, cls), msg in sorted(problems.items()):
        ctx.violation('C03.a', '%s:%s' % (kind, cls), msg, RTL, witness=dict(problem=kind, design=msg.split('[design: ')[-1].rstrip(']')))
    if not problems:
        ctx.ok('C03.a', 'catalogue', '%d designs: text parses; identifiers declared once and not reserved; instances match their modules (ports, widths); one driver per net' % ncat)
    kinds = ['syntax', 'declared-twice', 'undeclared', 'module-undefined', 'module-defined-twice', 'no-such-port', 'width-mismatch', 'input-unconnected',
             'multiple-drivers', 'output-undriven', 'net-undriven', 'illegal-range', 'reserved-word', 'procedural-assign-to-net', 'assign-to-reg']
    for k in kinds:
        if not any(kk == k for kk, _ in problems):
            ctx.ok('C03.a', 'no:%s' % k, 'no `%s` problem in %d generated designs' % (k, ncat))
    nshared = 0
    for mn, variants in sorted(share.items()):
        if len(variants) > 1:
            ex = list(variants.items())
            a, b = ex[0], ex[1]
            la, lb = a[0].splitlines(), b[0].splitlines()
            diff = [(x, y) for x, y in zip(la, lb) if x != y][:3] or [('%d lines' % len(la), '%d lines' % len(lb))]
            ctx.violation('C03.b', 'shared-name:%s:%s' % (mn, ' | '.join(sorted(diff[0]))[:80]), 'two objects are emitted under the module name `%s` but their module texts differ: binding the second instance to the first body changes its %s'
                          % (mn, 'interface' if la[0] != lb[0] or any('input' in x or 'output' in x for x, _ in diff) else 'behaviour'), RTL,
                          witness=dict(module=mn, first=a[1], second=b[1], differing_lines=diff))
        else:
            nshared += 1
    if not any(v['rule'] == 'C03.b' for v in ctx.violations):
        ctx.ok('C03.b', 'same-name-same-text', '%d module names, every object emitted under a name yields the same module text' % nshared)
    ctx.analysed['module_names_compared'] = len(share)


def check_reserved(ctx, facts):
    fn = facts.func(RTL, 'isReservedVerilogKeyword', required=False)
    if fn is None:
        ctx.error('C03.c', 'anchor isReservedVerilogKeyword not found')
        return
    words = set()
    for n in ast.walk(fn):
        if isinstance(n, (ast.List, ast.Set, ast.Tuple)):
            for e in n.elts:
                if isinstance(e, ast.Constant) and isinstance(e.value, str):
                    words.add(e.value)
    missing = sorted(set(RESERVED_2005) - words)
    ctx.floor('C03.c', 'reserved words in the generator table', len(words), 100)
    for w in missing:
        ctx.violation('C03.c', 'missing:%s' % w, 'the IEEE 1364-2005 keyword `%s` is not in the generator\'s reserved-word table: a wire or port of that name is emitted unchanged' % w,
                      '%s:isReservedVerilogKeyword' % RTL, witness=dict(name=w))
    if not missing:
        ctx.ok('C03.c', 'reserved-table', 'all %d IEEE 1364-2005 keywords are in the table (%d entries)' % (len(RESERVED_2005), len(words)))


def check_naming(ctx, facts):
    for name, build in naming_designs():
        try:
            D = Design(facts)
            build(D)
            text = hierarchy_text(D, None)
        except (ElabError, NetError, PyExc, GenError, ElabRaise) as e:
            ctx.note('naming design `%s` not generated: %s' % (name, str(e)[:100]))
            continue
        probs = vfront.check_design(text)
        bad = [(k, m) for k, m in probs if k in ('syntax', 'reserved-word', 'declared-twice')]
        key = 'names:%s' % name
        if bad:
            ctx.violation('C03.d', key, 'user-chosen names reach the emitted text as illegal identifiers: %s' % bad[0][1][:160], RTL,
                          witness=dict(design=name, problems=[m[:120] for _, m in bad][:4]))
        else:
            ctx.ok('C03.d', key, 'emitted text is legal')


def run(ctx, sm, facts):
    ctx.rule('C03.a', 'front-end checks on the text generated for every design of the catalogue')
    ctx.rule('C03.b', 'objects emitted under one module name yield the same module text')
    ctx.rule('C03.c', 'reserved-word table covers IEEE 1364-2005')
    ctx.rule('C03.d', 'user-chosen names are emitted as legal identifiers')
    from .c02 import overlay_source, CASES_REL
    from ..facts import Facts
    run_catalogue(ctx, Facts(sm.with_overlay({CASES_REL: overlay_source()})), ctx.tier)
    check_reserved(ctx, facts)
    check_naming(ctx, facts)
    ctx.not_decided += ['designs outside the catalogue; blocks emitted through the transpiler (C02)', 'vendor black boxes']
    ctx.assumptions += ['the generator interpreter (hv/elab.py) is faithful to Python for the subset it accepts', 'IEEE 1364-2005 front-end rules as encoded in hv/vfront.py']
