"""C02 - Python-to-Verilog transpilation preserves the behaviour of behavioural blocks.

The transpiler (python2verilog_transpilation.py, an ast.NodeTransformer pipeline) is itself
evaluated abstractly (hv/elab.py with a bridge for the ast / inspect modules) on a corpus of
behavioural blocks - the in-tree blocks the generator sends through it and a catalogue of
synthetic blocks (in an in-memory overlay module) that exercises the constructs the property
lists: if/elif/else nests, match/case, ternaries, and/or/not chains of 2..7 operands,
comparisons, every arithmetic/bitwise/shift operator in both nesting directions, local
variables, integer state attributes, constructor arguments used as constants (two differently
configured instances in one process), put/prepare/get.  For every block the emitted
always-block module is parsed, read under IEEE 1364 semantics (blocking `=` for integer
variables, non-blocking `<=` for ports) and co-simulated against the symbolic summary of the
same Python method over input vectors / sequences inside the property's domain.

C02.a  accepted => faithful: outputs and integer state variables agree in every cycle;
C02.b  a block the transpiler cannot express is refused with an exception (counted, never a pass
       by default); emitted text must parse.
"""
import random
import textwrap

from .. import vlog
from ..elab import ElabError, ElabRaise, PyExc
from ..facts import Facts
from ..gen import hierarchy_text, GenError
from ..ireval import EvalError, Nondet
from ..netlist import Design, NetError
from ..vfront import flatten, FrontError
from ..vsim import Body

LEVEL_TEXT = ('Translation validation of the transpiler by static extraction: the transpiler pipeline is evaluated abstractly on a corpus of '
              'behavioural blocks, its output parsed and read under IEEE 1364 semantics, and co-simulated with the symbolic summary of the source method.')
CASES_REL = 'py4hw/logic/_hv_transpiler_cases.py'

HEADER = 'from .. import *\n\n'


def comb_case(name, ins, expr_lines):
    """combinational block: ins = [(name, width)], output r; body lines use a,b,c... locals"""
    params = ', '.join(n for n, _ in ins)
    reg = '\n'.join("        self.%s = self.addIn('%s', %s)" % (n, n, n) for n, _ in ins)
    gets = '\n'.join('        %s = self.%s.get()' % (n, n) for n, _ in ins).replace(' a = ', ' xa = ').replace(' b = ', ' xb = ').replace(' c = ', ' xc = ')
    body = '\n'.join('        ' + l for l in expr_lines)
    return textwrap.dedent('''
class {name}(Logic):
    def __init__(self, parent, name, {params}, r):
        super().__init__(parent, name)
{reg}
        self.r = self.addOut('r', r)

    def propagate(self):
{gets}
{body}
''').format(name=name, params=params, reg=reg, gets=gets, body=body)


W3 = [('a', 3), ('b', 3), ('c', 3)]
COMB = [
    # a local variable that carries the name of a port of the block (the transpiler maps it onto the port: it must not be declared a second time)
    ('HvShadowOut', W3, 3, ['r = xa + xb', 'self.r.put(r & 7)']),
    ('HvSubRight', W3, 6, ['self.r.put(xa + 16 - ((xb | 4) - (xc & 3)))']),
    ('HvSubLeft', W3, 6, ['self.r.put((xa + 16 - (xb | 4)) - (xc & 3))']),
    ('HvShrRight', W3, 4, ['self.r.put((xa | 8) >> (xb >> (xc & 1)))']),
    ('HvShrLeft', W3, 4, ['self.r.put(((xa | 8) >> (xb & 1)) >> (xc & 1))']),
    ('HvShlRight', W3, 12, ['self.r.put(xa << (xb >> (xc & 1)))']),
    ('HvDivRight', W3, 6, ['self.r.put((xa + 40) // ((xb | 4) // ((xc & 1) + 1)))']),
    ('HvModRight', W3, 6, ['self.r.put((xa + 40) % ((xb | 4) % ((xc & 1) + 2) + 1))']),
    ('HvMulAdd', W3, 8, ['self.r.put(xa * (xb + xc))']),
    ('HvAddMul', W3, 8, ['self.r.put(xa + xb * xc)']),
    ('HvMulAdd2', W3, 8, ['self.r.put((xa + xb) * xc)']),
    ('HvAndOr', W3, 3, ['self.r.put(xa & (xb | xc))']),
    ('HvOrAnd', W3, 3, ['self.r.put(xa | xb & xc)']),
    ('HvXorAnd', W3, 3, ['self.r.put((xa ^ xb) & xc)']),
    ('HvInvert', W3, 3, ['self.r.put(~xa & xb)']),
    ('HvCmpAnd', W3, 1, ['if xa == (xb & 3):', '    self.r.put(1)', 'else:', '    self.r.put(0)']),
    ('HvCmpAndLeft', W3, 1, ['if (xa & 3) == xb:', '    self.r.put(1)', 'else:', '    self.r.put(0)']),
    ('HvCmpAdd', W3, 1, ['if xa + 1 > xb + xc:', '    self.r.put(1)', 'else:', '    self.r.put(0)']),
    ('HvCmpShift', W3, 1, ['if xa < (xb >> 1):', '    self.r.put(1)', 'else:', '    self.r.put(0)']),
    ('HvBoolValue', W3, 3, ['t = xa or xb', 'self.r.put(t)']),
    ('HvBoolValueAnd', W3, 3, ['t = xa and xb', 'self.r.put(t)']),
    ('HvTernaryLocal', W3, 3, ['t = xb if xa > 3 else xc', 'self.r.put(t)']),
    ('HvTernaryInCall', W3, 3, ['self.r.put(xb if xa > 3 else xc)']),
    ('HvCmpChain', W3, 3, ['if xa < xb:', '    self.r.put(1)', 'elif xa <= xc:', '    self.r.put(2)', 'elif xa != 7:', '    self.r.put(3)', 'else:', '    self.r.put(4)']),
    ('HvOr2', W3, 1, ['if xa == 7 or xb == 2:', '    self.r.put(1)', 'else:', '    self.r.put(0)']),
    ('HvOr3', W3, 1, ['if xa == 7 or xb == 2 or xa == 1:', '    self.r.put(1)', 'else:', '    self.r.put(0)']),
    ('HvAnd3', W3, 1, ['if xa > 1 and xb > 1 and xc > 1:', '    self.r.put(1)', 'else:', '    self.r.put(0)']),
    ('HvOr4', W3, 1, ['if xa == 0 or xb == 1 or xc == 2 or xa == 5:', '    self.r.put(1)', 'else:', '    self.r.put(0)']),
    ('HvOr5', W3, 1, ['if xa == 0 or xb == 1 or xc == 2 or xa == 5 or xb == 6:', '    self.r.put(1)', 'else:', '    self.r.put(0)']),
    ('HvAnd5', W3, 1, ['if xa != 0 and xb != 1 and xc != 2 and xa != 5 and xb != 6:', '    self.r.put(1)', 'else:', '    self.r.put(0)']),
    ('HvOr6', W3, 1, ['if xa == 0 or xb == 1 or xc == 2 or xa == 5 or xb == 6 or xc == 7:', '    self.r.put(1)', 'else:', '    self.r.put(0)']),
    ('HvOr7', W3, 1, ['if xa == 0 or xb == 1 or xc == 2 or xa == 5 or xb == 6 or xc == 7 or xa == 3:', '    self.r.put(1)', 'else:', '    self.r.put(0)']),
    ('HvAndOrMix', W3, 1, ['if (xa == 1 and xb == 2) or xc == 3:', '    self.r.put(1)', 'else:', '    self.r.put(0)']),
    ('HvNot', W3, 1, ['if not (xa == xb):', '    self.r.put(1)', 'else:', '    self.r.put(0)']),
    ('HvLocals', W3, 6, ['t = xa + xb', 'u = t * 2', 'if u > xc:', '    t = u - xc', 'self.r.put(t)']),
    ('HvTruthAnd', W3, 1, ['if xa and xb:', '    self.r.put(1)', 'else:', '    self.r.put(0)']),
    ('HvTruthOr', W3, 1, ['if xa or xb:', '    self.r.put(1)', 'else:', '    self.r.put(0)']),
    ('HvTruthNot', W3, 1, ['if not xa:', '    self.r.put(1)', 'else:', '    self.r.put(0)']),
    ('HvTruthMix', W3, 1, ['if xa and (xb or not xc):', '    self.r.put(1)', 'else:', '    self.r.put(0)']),
    ('HvDangling', W3, 2, ['t = 0', 'if xa > 3:', '    if xb > 3:', '        t = 1', 'else:', '    t = 2', 'self.r.put(t)']),
    ('HvChained', W3, 1, ['if 2 <= xa < 6:', '    self.r.put(1)', 'else:', '    self.r.put(0)']),
    ('HvChained3', W3, 1, ['if xa < xb <= xc:', '    self.r.put(1)', 'else:', '    self.r.put(0)']),
    ('HvPortMulConst', W3, 6, ['self.r.put((self.a.get() * 3) >> 1)']),
    ('HvPortAddConst', W3, 4, ['self.r.put((self.a.get() + 3) // 4 + (self.b.get() + 5) // 2)']),
    ('HvPortCmpConst', W3, 1, ['if self.a.get() * 2 > 7:', '    self.r.put(1)', 'else:', '    self.r.put(0)']),
    ('HvPortShlConst', W3, 8, ['self.r.put((self.a.get() << 2) + (self.b.get() * 5))']),
    ('HvNested', W3, 4, ['if xa > 3:', '    if xb > 3:', '        self.r.put(1)', '    else:', '        if xc > 3:', '            self.r.put(2)', '        else:', '            self.r.put(3)',
                         'else:', '    self.r.put(4 + (xb & 1))']),]

SEQ_SRC = '''
class HvPeriodic(Logic):
    def __init__(self, parent, name, q, tick, period, bias):
        super().__init__(parent, name)
        self.q = self.addOut('q', q)
        self.tick = self.addOut('tick', tick)
        self.period = period
        self.bias = bias
        self.count = 0

    def clock(self):
        if self.count == self.period - 1:
            self.count = 0
            self.tick.prepare(1)
        else:
            self.count = self.count + 1
            self.tick.prepare(0)
        self.q.prepare(self.count + self.bias)


class HvFlagState(Logic):
    """a state attribute created as a bool and later assigned a multi-bit value (Python keeps the integer; truth test = non-zero)"""
    def __init__(self, parent, name, req, q):
        super().__init__(parent, name)
        self.req = self.addIn('req', req)
        self.q = self.addOut('q', q)
        self.pending = False
        self.count = 0

    def clock(self):
        if self.pending:
            self.count = (self.count + 1) & 15
        self.pending = self.req.get() & 6
        self.q.prepare(self.count)


class HvGuardReturn(Logic):
    """guard clause: an early return inside a conditional skips the rest of the body"""
    def __init__(self, parent, name, a, en, q):
        super().__init__(parent, name)
        self.a = self.addIn('a', a)
        self.en = self.addIn('en', en)
        self.q = self.addOut('q', q)
        self.total = 0

    def clock(self):
        if self.en.get() == 0:
            return
        self.total = (self.total + self.a.get()) & 63
        self.q.prepare(self.total)


class HvStride(Logic):
    """a constructor constant used bare as a truth value (any non-zero value is true)"""
    def __init__(self, parent, name, en, pos, stride):
        super().__init__(parent, name)
        self.en = self.addIn('en', en)
        self.pos = self.addOut('pos', pos)
        self.stride = stride
        self.cur = 0

    def clock(self):
        if self.en.get() == 1:
            if self.stride:
                self.cur = (self.cur + self.stride) & 63
            else:
                self.cur = (self.cur + 1) & 63
        self.pos.prepare(self.cur)


class HvFloatAttr(Logic):
    """a constructor attribute that is not an integer (Verilog has no such variable: must be refused, not dropped)"""
    def __init__(self, parent, name, level, alarm):
        super().__init__(parent, name)
        self.level = self.addIn('level', level)
        self.alarm = self.addOut('alarm', alarm)
        self.trip = 2.5
        self.count = 0

    def clock(self):
        if self.level.get() > self.trip:
            self.count = (self.count + 1) & 15
        self.alarm.prepare(self.count)


class HvChainAssign(Logic):
    """chained assignment whose right-hand side reads the first target"""
    def __init__(self, parent, name, push, q, p):
        super().__init__(parent, name)
        self.push = self.addIn('push', push)
        self.q = self.addOut('q', q)
        self.p = self.addOut('p', p)
        self.head = 0
        self.mark = 0

    def clock(self):
        if self.push.get() == 1:
            self.head = self.mark = (self.head + 1) & 15
        self.q.prepare(self.head)
        self.p.prepare(self.mark)


class HvUnusedState(Logic):
    """a constructor attribute that clock() never touches (it must be declared if it is initialised)"""
    def __init__(self, parent, name, a, q):
        super().__init__(parent, name)
        self.a = self.addIn('a', a)
        self.q = self.addOut('q', q)
        self.spare = 7
        self.acc = 0

    def clock(self):
        self.acc = (self.acc + self.a.get()) & 31
        self.q.prepare(self.acc)


class HvAccum(Logic):
    def __init__(self, parent, name, a, en, clr, q):
        super().__init__(parent, name)
        self.a = self.addIn('a', a)
        self.en = self.addIn('en', en)
        self.clr = self.addIn('clr', clr)
        self.q = self.addOut('q', q)
        self.acc = 0
        self.last = 0

    def clock(self):
        if self.clr.get() == 1:
            self.acc = 0
        elif self.en.get():
            self.acc = (self.acc + self.a.get()) & 255
            self.last = self.a.get()
        self.q.prepare(self.acc ^ self.last)


class HvMatch(Logic):
    def __init__(self, parent, name, go, x, y):
        super().__init__(parent, name)
        self.go = self.addIn('go', go)
        self.x = self.addIn('x', x)
        self.y = self.addOut('y', y)
        self.state = 0

    def clock(self):
        match self.state:
            case 0:
                if self.go.get():
                    self.state = 1
                self.y.prepare(0)
            case 1:
                self.y.prepare(self.x.get() + 1)
                self.state = 2
            case 2:
                self.y.prepare(self.x.get() * 2)
                self.state = 0
            case _:
                self.state = 0


class HvUseBeforeSet(Logic):
    def __init__(self, parent, name, a, q):
        super().__init__(parent, name)
        self.a = self.addIn('a', a)
        self.q = self.addOut('q', q)
        self.s = 1

    def clock(self):
        self.s = self.s + self.a.get()
        if self.s > 20:
            self.s = 1
        self.q.prepare(self.s * 3)


class HvAugAssign(Logic):
    def __init__(self, parent, name, a, en, q, p):
        super().__init__(parent, name)
        self.a = self.addIn('a', a)
        self.en = self.addIn('en', en)
        self.q = self.addOut('q', q)
        self.p = self.addOut('p', p)
        self.total = 0
        self.n = 0

    def clock(self):
        if self.en.get():
            self.total += self.a.get()
            self.n += 1
        self.total &= 63
        self.n %= 5
        self.q.prepare(self.total)
        self.p.prepare(self.n * 2)
'''


STRUCT_SRC = '''

class HvStage(Logic):
    """user-level structural class (no structureName) whose content depends on a constructor argument"""
    def __init__(self, parent, name, a, r, registered):
        super().__init__(parent, name)
        a = self.addIn('a', a)
        r = self.addOut('r', r)
        if registered:
            m = self.wire('m', a.getWidth())
            Not(self, 'inv', a, m)
            Reg(self, 'reg', m, r)
        else:
            Not(self, 'inv', a, r)


class HvLane(Logic):
    def __init__(self, parent, name, a, r, registered):
        super().__init__(parent, name)
        a = self.addIn('a', a)
        r = self.addOut('r', r)
        m = self.wire('m', a.getWidth())
        HvStage(self, 'st', a, m, registered)
        Buf(self, 'out', m, r)


class HvAccumulator(Logic):
    """feedback through a register: acc <= acc + a (optionally with enable)"""
    def __init__(self, parent, name, a, q, en=None):
        super().__init__(parent, name)
        a = self.addIn('a', a)
        q = self.addOut('q', q)
        s = self.wire('s', q.getWidth())
        Add(self, 'add', a, q, s)
        if en is None:
            Reg(self, 'reg', s, q)
        else:
            en = self.addIn('en', en)
            Reg(self, 'reg', s, q, enable=en)


class HvLongEdge(Logic):
    """a forward edge that spans several columns, plus fan-out of the input"""
    def __init__(self, parent, name, a, r, stages):
        super().__init__(parent, name)
        a = self.addIn('a', a)
        r = self.addOut('r', r)
        x = a
        for i in range(stages):
            y = self.wire('y%d' % i, a.getWidth())
            Not(self, 'n%d' % i, x, y)
            x = y
        And2(self, 'join', x, a, r)


class HvTwoPins(Logic):
    """one wire feeding two pins of the same instance, and two outputs"""
    def __init__(self, parent, name, a, b, r, s):
        super().__init__(parent, name)
        a = self.addIn('a', a)
        b = self.addIn('b', b)
        r = self.addOut('r', r)
        s = self.addOut('s', s)
        t = self.wire('t', a.getWidth())
        u = self.wire('u', a.getWidth())
        Add(self, 'dbl', a, a, t)
        Max2(self, 'same', t, t, u)            # a generic box with one wire on both input pins
        Mux2(self, 'mx', b, t, u, r)
        Sub(self, 'sb', t, a, s)


class HvPipeFeedback(Logic):
    """two-stage pipeline whose second stage feeds the first (plain registers without enable)"""
    def __init__(self, parent, name, a, q):
        super().__init__(parent, name)
        a = self.addIn('a', a)
        q = self.addOut('q', q)
        x = self.wire('x', a.getWidth())
        m = self.wire('m', a.getWidth())
        Xor2(self, 'mix', a, q, x)
        Reg(self, 'r0', x, m)
        Reg(self, 'r1', m, q)


class HvTwoFeedback(Logic):
    """two different wires that both run backwards from one instance (built last) to one reader (built first)"""
    def __init__(self, parent, name, a, q):
        super().__init__(parent, name)
        a = self.addIn('a', a)
        q = self.addOut('q', q)
        u = self.wire('u')
        v = self.wire('v')
        w = self.wire('w')
        Add(self, 'last', q, a, u, co=v)     # built first: the layout starts from it, so both u and v become backward edges
        And2(self, 'first', u, v, w)
        Reg(self, 'reg', w, q)


class HvMultiOutFar(Logic):
    """two different outputs of one multi-output instance that both travel several columns to their readers"""
    def __init__(self, parent, name, a, r, s):
        super().__init__(parent, name)
        a = self.addIn('a', a)
        r = self.addOut('r', r)
        s = self.addOut('s', s)
        b0 = self.wire('b0')
        b1 = self.wire('b1')
        b2 = self.wire('b2')
        y0 = self.wire('y0')
        y1 = self.wire('y1')
        BitsLSBF(self, 'bits', a, [b0, b1, b2])
        Not(self, 'n0', b2, y0)
        Not(self, 'n1', y0, y1)
        And2(self, 'j0', y1, b0, r)
        Or2(self, 'j1', y1, b1, s)


class HvTwoPinsFar(Logic):
    """one wire on two pins of a three-input instance that sits several columns after the driver of that wire"""
    def __init__(self, parent, name, a, b, r):
        super().__init__(parent, name)
        a = self.addIn('a', a)
        b = self.addIn('b', b)
        r = self.addOut('r', r)
        t = self.wire('t', a.getWidth())
        y0 = self.wire('y0')
        y1 = self.wire('y1')
        Add(self, 'dbl', a, a, t)
        Not(self, 'n0', b, y0)
        Not(self, 'n1', y0, y1)
        Mux2(self, 'mx', y1, t, t, r)


class HvNoInputs(Logic):
    """a block without input ports whose feedback edge lands on a first-level instance (toggle), combinational part built first"""
    def __init__(self, parent, name, q, add_first=True):
        super().__init__(parent, name)
        q = self.addOut('q', q)
        d = self.wire('d', q.getWidth())
        if add_first:
            Not(self, 'inv', q, d)
            Reg(self, 'reg', d, q)
        else:
            Reg(self, 'reg', d, q)
            Not(self, 'inv', q, d)


class HvParamReg(Logic):
    """parametrised behavioural leaf (shared module name per width)"""
    def __init__(self, parent, name, a, load, r, init_value):
        super().__init__(parent, name)
        self.a = self.addIn('a', a)
        self.load = self.addIn('load', load)
        self.r = self.addOut('r', r)
        self.addParameter('INIT', init_value)

    def structureName(self):
        return 'HvParamReg_{}'.format(self.r.getWidth())

    def clock(self):
        if (self.load.get()):
            self.r.prepare(self.a.get())
        else:
            self.r.prepare(self.getParameterValue('INIT'))


class HvParamPair(Logic):
    """two parametrised leaves; one takes a literal, the other the parameter of the enclosing block (pass-through), in either order"""
    def __init__(self, parent, name, a, load, r, pname, value, passthrough_first):
        super().__init__(parent, name)
        self.addIn('a', a)
        self.addIn('load', load)
        self.addOut('r', r)
        self.addParameter(pname, value)
        r1 = self.wire('r1', r.getWidth())
        r2 = self.wire('r2', r.getWidth())
        if passthrough_first:
            HvParamReg(self, 'p1', a, load, r1, self.getParameter(pname))
            HvParamReg(self, 'p2', a, load, r2, 4)
        else:
            HvParamReg(self, 'p1', a, load, r1, 3)
            HvParamReg(self, 'p2', a, load, r2, self.getParameter(pname))
        Xor2(self, 'x', r1, r2, r)


class HvOwnScale(Logic):
    """a stage that creates (owns) its own result wire: r = a << n"""
    def __init__(self, parent, name, a, n):
        super().__init__(parent, name)
        self.addIn('a', a)
        self.r = self.wire('scaled', a.getWidth())
        self.addOut('r', self.r)
        ShiftLeftConstant(self, 'shl', a, n, self.r)


class HvOwnDelay(Logic):
    """a stage that creates its own result wire: r = a one cycle later"""
    def __init__(self, parent, name, a):
        super().__init__(parent, name)
        self.addIn('a', a)
        self.r = self.wire('delayed', a.getWidth())
        self.addOut('r', self.r)
        Reg(self, 'reg', a, self.r)


class HvUsesOwned(Logic):
    """multi-bit wires between two children that were created by a child, not by this block; plus one wire of its own"""
    def __init__(self, parent, name, a, b, r, q, c):
        super().__init__(parent, name)
        self.addIn('a', a)
        self.addIn('b', b)
        self.addOut('r', r)
        self.addOut('q', q)
        self.addOut('c', c)
        s = HvOwnScale(self, 'scale', a, 1)
        Add(self, 'add', s.r, b, r)
        d = HvOwnDelay(self, 'delay', r)
        Sub(self, 'sub', d.r, a, q)
        t = self.wire('t', a.getWidth())
        And2(self, 'and', a, b, t)
        Xor2(self, 'xor', t, a, c)


class HvInvChild(Not):
    """a leaf that inherits propagate() from a library block"""
    pass


class HvInnerName(Logic):
    """an internal wire that carries the same short name as the outer wire attached to a port"""
    def __init__(self, parent, name, t, r):
        super().__init__(parent, name)
        t = self.addIn('t', t)
        r = self.addOut('r', r)
        inner = self.wire('t', t.getWidth())
        Not(self, 'inv', t, inner)
        Buf(self, 'out', inner, r)
'''


def overlay_source():
    return HEADER + '\n'.join(comb_case(n, ins, lines) for n, ins, rw, lines in COMB) + SEQ_SRC + STRUCT_SRC


def transpile(D, obj):
    """-> ('ok', text) | ('refused', message)"""
    try:
        return 'ok', hierarchy_text(D, obj)
    except GenError as e:
        return 'refused', str(e)
    except ElabRaise as e:
        return 'refused', str(e)


def leaf_ports(D, obj):
    ins, outs = {}, {}
    for po in obj.attrs.get('inPorts', []):
        ins[po.attrs['name']] = po.attrs['wire']
    for po in obj.attrs.get('outPorts', []):
        outs[po.attrs['name']] = po.attrs['wire']
    return ins, outs


def cosim_block(D, obj, text, rnd, nseq, length, state_attrs=None, input_filter=None):
    """co-simulate one transpiled leaf; returns None or a witness dict"""
    items, ports = flatten(text)
    ins, outs = leaf_ports(D, obj)
    D.prepare()
    leaf = [c for c in D.comb + D.seq if c.obj is obj]
    if not leaf:
        return dict(kind='leaf not found in the elaborated design')
    lc = leaf[0]
    snap_vals = dict(D.values)
    snap_attr = dict(lc.cfg.attr)
    is_seq = lc.csum is not None
    widths = {n: w.attrs['width'] for n, w in ins.items()}
    for k in range(nseq):
        D.values = dict(snap_vals)
        lc.cfg.attr = {k2: (list(v) if isinstance(v, list) else v) for k2, v in snap_attr.items()}
        vb = Body(items, ports, strict=False)
        hist = []
        if not is_seq:
            try:
                D.settle()          # a new simulator propagates once with every wire at 0 (incomplete assignments keep that value)
            except Nondet:
                pass
        bias = {n: rnd.choice((0.15, 0.5, 0.85)) for n in ins}
        for t in range(length):
            v = {}
            for n, w in widths.items():
                v[n] = int(rnd.random() < bias[n]) if w == 1 else rnd.choice((0, (1 << w) - 1, rnd.randrange(1 << w), rnd.randrange(1 << w)))
            if input_filter:
                v = input_filter(v, t)
            hist.append(dict(v))
            for n, w in ins.items():
                D.put(w, v[n])
            vb.set_inputs({n: v[n] for n in ins})
            try:
                if is_seq:
                    D.settle()
                    D.clock()
                    vb.posedge({c for _, c in vb.clocks()})
                else:
                    D.settle()
            except Nondet:
                break
            if vb.xflag:
                return dict(kind='the emitted module is x / illegal: %s' % vb.xflag, inputs_so_far=hist)
            for n, w in outs.items():
                if n not in vb.env:
                    return dict(kind='output %s missing from the emitted module' % n)
                if D.get(w) != vb.env[n].v:
                    return dict(kind='output differs', output=n, python=D.get(w), verilog=vb.env[n].v, cycle=t + 1, inputs_so_far=hist)
            for a in (state_attrs or []):
                if a in vb.env and isinstance(lc.cfg.attr.get(a), int):
                    pv = lc.cfg.attr[a]
                    if 0 <= pv < (1 << 31) and pv != vb.env[a].v:
                        return dict(kind='state variable differs', variable=a, python=pv, verilog=vb.env[a].v, cycle=t + 1, inputs_so_far=hist)
            if not is_seq and t >= 0 and len(hist) > 40:
                break
    return None


def strip_ids(text):
    import re
    return re.sub(r'_[0-9a-f]{4,}\b', '_#', text)


def run_case(ctx, facts, name, build, rnd, nseq, length, state_attrs=None, where='', input_filter=None, shared=None):
    try:
        D = shared or Design(facts)
        obj = build(D)
        st, text = transpile(D, obj)
    except (ElabError, NetError) as e:
        ctx.error('C02.a', 'case %s could not be evaluated: %s' % (name, e))
        return 'error'
    except PyExc as e:
        ctx.violation('C02.b', '%s:crash' % name, 'the transpiler fails with an internal error instead of a transpilation refusal: %s' % e, where,
                      witness=dict(case=name))
        return 'crash'
    if st == 'refused':
        ctx.ok('C02.b', '%s:refused' % name, 'refused with an exception: %s' % text[:100], grade='refused')
        ctx.analysed.setdefault('refused', []).append(name)
        return 'refused'
    try:
        wit = cosim_block(D, obj, text, rnd, nseq, length, state_attrs, input_filter)
    except vlog.VParseError as e:
        ctx.violation('C02.b', '%s:syntax' % name, 'the emitted module does not parse: %s' % str(e)[:200], where, witness=dict(case=name, emitted=text[:500]))
        return 'bad'
    except (FrontError, vlog.XValue) as e:
        ctx.violation('C02.b', '%s:illegal' % name, 'the emitted module is not legal Verilog: %s' % str(e)[:200], where, witness=dict(case=name, emitted=text[:500]))
        return 'bad'
    except (EvalError, NetError) as e:
        ctx.error('C02.a', 'case %s: python-side summary fails: %s' % (name, e))
        return 'error'
    if wit:
        ctx.violation('C02.a', '%s:%s' % (name, wit.get('output') or wit.get('variable') or 'x'), 'the transpiled module and the Python method diverge: %s' % wit['kind'], where,
                      witness=dict(wit, case=name, emitted=text[-700:]))
        return 'bad'
    if state_attrs and shared is None:
        # exporting a block that has been simulated: the module must still start from the constructor's state (it is compared with a fresh instance)
        changed = False
        for a in state_attrs:
            v = obj.attrs.get(a)
            if isinstance(v, int) and not isinstance(v, bool):
                obj.attrs[a] = v + 1 + (len(a) % 3)
                changed = True
        if changed:
            try:
                st2, text2 = transpile(D, obj)
            except (ElabError, NetError, PyExc):
                st2, text2 = 'refused', ''
            if st2 == 'ok' and strip_ids(text2) != strip_ids(text):
                a_, b_ = strip_ids(text).splitlines(), strip_ids(text2).splitlines()
                diff = [(x, y) for x, y in zip(a_, b_) if x != y][:3]
                ctx.violation('C02.a', '%s:export-after-simulation' % name, 'the text emitted for a block depends on its momentary simulation state (power-up values are taken from the live object): '
                              'exported after some cycles, the module no longer behaves like the block from power-up', where, witness=dict(case=name, differing_lines=diff))
                return 'bad'
    ctx.ok('C02.a', name, '%d runs x %d steps: outputs%s agree' % (nseq, length, ' and state variables' if state_attrs else ''), grade='bounded')
    return 'ok'


def run(ctx, sm, facts):
    ctx.rule('C02.a', 'accepted blocks: emitted module co-simulated with the summary of the Python method (outputs + integer state)')
    ctx.rule('C02.b', 'unsupported blocks are refused with an exception; emitted text parses')
    tier = ctx.tier
    rnd = random.Random(ctx.seed + 2)
    sm2 = sm.with_overlay({CASES_REL: overlay_source()})
    f2 = Facts(sm2)
    where = 'py4hw/transpilation/python2verilog_transpilation.py'
    nseq = 3 if tier == 'quick' else 10
    counts = {}
    # ---- synthetic combinational corpus
    for name, ins, rw, lines in COMB:
        def build(D, name=name, ins=ins, rw=rw):
            ws = [D.wire(n, w) for n, w in ins]
            return D.make(name, 'dut', *ws, D.wire('r', rw), rel=CASES_REL)
        r = run_case(ctx, f2, name, build, rnd, nseq, 60, where=where + ' (case %s: %s)' % (name, ' / '.join(lines)[:80]))
        counts[r] = counts.get(r, 0) + 1
    # ---- synthetic sequential corpus; two differently configured instances in one interpreter session
    shared = Design(f2)
    for iname, period, bias in (('p3', 3, 10), ('p5', 5, 100)):
        def build(D, iname=iname, period=period, bias=bias):
            return D.make('HvPeriodic', iname, D.wire('q_' + iname, 8), D.wire('tick_' + iname), period, bias, rel=CASES_REL)
        r = run_case(ctx, f2, 'HvPeriodic(period=%d,bias=%d)' % (period, bias), build, rnd, 1, 24, ['count'], where=where + ' (constructor constants)', shared=shared)
        counts[r] = counts.get(r, 0) + 1
    for name, build, st, flt in (
            ('HvAccum', lambda D: D.make('HvAccum', 'dut', D.wire('a', 4), D.wire('en'), D.wire('clr'), D.wire('q', 8), rel=CASES_REL), ['acc', 'last'], None),
            ('HvStride(3)', lambda D: D.make('HvStride', 'dut', D.wire('en'), D.wire('pos', 6), 3, rel=CASES_REL), ['cur'], None),
            ('HvStride(0)', lambda D: D.make('HvStride', 'dut', D.wire('en'), D.wire('pos', 6), 0, rel=CASES_REL), ['cur'], None),
            ('HvFloatAttr', lambda D: D.make('HvFloatAttr', 'dut', D.wire('level', 3), D.wire('alarm', 4), rel=CASES_REL), ['count'], None),
            ('HvChainAssign', lambda D: D.make('HvChainAssign', 'dut', D.wire('push'), D.wire('q', 4), D.wire('p', 4), rel=CASES_REL), ['head', 'mark'], None),
            ('HvUnusedState', lambda D: D.make('HvUnusedState', 'dut', D.wire('a', 3), D.wire('q', 5), rel=CASES_REL), ['acc'], None),
            ('HvFlagState', lambda D: D.make('HvFlagState', 'dut', D.wire('req', 3), D.wire('q', 4), rel=CASES_REL), ['pending', 'count'], None),
            ('HvGuardReturn', lambda D: D.make('HvGuardReturn', 'dut', D.wire('a', 3), D.wire('en'), D.wire('q', 6), rel=CASES_REL), ['total'], None),
            ('HvMatch', lambda D: D.make('HvMatch', 'dut', D.wire('go'), D.wire('x', 3), D.wire('y', 5), rel=CASES_REL), ['state'], None),
            ('HvUseBeforeSet', lambda D: D.make('HvUseBeforeSet', 'dut', D.wire('a', 3), D.wire('q', 8), rel=CASES_REL), ['s'], None),
            ('HvAugAssign', lambda D: D.make('HvAugAssign', 'dut', D.wire('a', 3), D.wire('en'), D.wire('q', 6), D.wire('p', 4), rel=CASES_REL), ['total', 'n'], None)):
        r = run_case(ctx, f2, name, build, rnd, nseq, 30, st, where=where + ' (case %s)' % name, input_filter=flt)
        counts[r] = counts.get(r, 0) + 1
    # ---- in-tree blocks the generator transpiles
    UART = 'py4hw/logic/protocol/uart/'
    intree = [
        ('AutoReset', lambda D: D.make('AutoReset', 'dut', D.wire('reset')), ['state']),
        ('ClockSyncFSM', lambda D: D.make('ClockSyncFSM', 'dut', D.wire('start'), D.wire('stop'), D.wire('sync'), D.wire('active'), rel=UART + 'clock.py'), ['state']),
        ('Latch', lambda D: D.make('Latch', 'dut', D.wire('d', 3), D.wire('q', 3), D.wire('e')), None),
        ('SubBorrowIn', lambda D: D.make('SubBorrowIn', 'dut', D.wire('a', 3), D.wire('b', 3), D.wire('r', 4), D.wire('bi')), None),
        ('UARTSerializer', lambda D: D.make('UARTSerializer', 'dut', D.wire('ready'), D.wire('valid'), D.wire('v', 8), D.wire('pulse'), D.wire('tx'), rel=UART + 'serdes.py'),
         ['state', 'count', 'txv']),
        ('UARTDeserializer', lambda D: D.make('UARTDeserializer', 'dut', D.wire('rx'), D.wire('rx_sample'), D.wire('ready'), D.wire('valid'), D.wire('v', 8), D.wire('desync'),
                                              rel=UART + 'serdes.py'), ['state', 'count', 'state_v', 'temp']),
        ('Axi2ClkFSM', lambda D: D.make('Axi2ClkFSM', 'dut', D.wire('hs'), D.wire('target', 4), D.wire('rst'), D.wire('cnt', 4), D.wire('clk_out'), D.wire('load'),
                                        rel='py4hw/emulation/vitiswrapping.py'), ['state', 'target']),
        ('VitisKernelFSM', lambda D: D.make('VitisKernelFSM', 'dut', D.wire('ap_start'), D.wire('ap_reset'), D.wire('ap_done'), D.wire('ap_idle'), D.wire('ap_ready'),
                                            D.wire('load_outs'), D.wire('all_sent'), rel='py4hw/emulation/vitiswrapping.py'), ['state']),
        ('CMDResponse', lambda D: D.make('CMDResponse', 'dut', D.wire('vin', 16), D.wire('size', 3), D.wire('start'), D.wire('ready'), D.wire('valid'), D.wire('v', 8),
                                         rel='py4hw/emulation/HILWrapperUART.py'), ['state', 'temp', 'temp_size', 'aux']),
        ('CMDRequest', lambda D: D.make('CMDRequest', 'dut', *[D.wire(n, w) for n, w in (('ready', 1), ('valid', 1), ('c', 8), ('index_in', 16), ('v_in', 16), ('index_out', 16),
                                                                                          ('set_index_in', 1), ('set_v_in', 1), ('set_index_out', 1), ('clk_pulse', 1), ('start_resp', 1))],
                                        rel='py4hw/emulation/HILWrapperUART.py'), ['state', 'cur_type', 'new_c', 'temp']),
        ('RotateLeftConstant', lambda D: D.make('RotateLeftConstant', 'dut', D.wire('a', 4), 1, D.wire('r', 4)), None),
        ('Sequence', lambda D: D.make('Sequence', 'dut', [1, 2, 3], D.wire('r', 4)), ['i']),
    ]

    def cmd_chars(v, t):
        if 'c' in v:
            v['c'] = ord(random.Random(t * 31 + v['c']).choice('IOK=!?;0123456789ABCDEF'))
        if 'size' in v:
            v['size'] = max(1, v['size'] & 3)
        return v
    for name, build, st in intree:
        if facts.cls(name, required=False) is None:
            ctx.error('C02.a', 'anchor class %s not found' % name)
            continue
        r = run_case(ctx, f2, name, build, rnd, nseq + 2, 60, st, where=where + ' (in-tree block %s)' % name, input_filter=cmd_chars if name.startswith('CMD') else None)
        counts[r] = counts.get(r, 0) + 1
    ctx.analysed['corpus'] = counts
    ctx.floor('C02.a', 'blocks accepted and co-simulated', counts.get('ok', 0) + counts.get('bad', 0), 25)
    ctx.not_decided += ['method bodies outside the corpus', 'the 32-bit / sign domain boundary itself', 'the text formatting pass beyond parse-ability']
    ctx.assumptions += ['the interpreter used for the transpiler (hv/elab.py + ast/inspect bridge) is faithful for the subset it accepts; anything else aborts the case']
