"""C08 - logic, selection and comparison blocks implement their truth tables.

C08.a  leaf contracts: summary(propagate) == documented function (grid of widths, all inputs);
C08.b  structural compositions: the netlist obtained by elaborating the constructor, evaluated
       through the leaf summaries, == documented function, for every configuration of the grid
       and every input vector (exhaustive for small widths);
C08.c  definite failures: undefined names / never-assigned attributes in the anchored files;
C08.d  list order established by the constructors (MSBF / LSBF variants).
"""
import ast

from ..contracts import LIST_ORDER
from ..leafrules import leaf_contracts, definite_failures, shared_instance_state
from ..structrules import run_specs
from ..srcmap import norm

LEVEL_TEXT = ('Static extraction + finite-domain equivalence: symbolic summaries of the leaf propagate() methods and netlists obtained by '
              'elaborating the constructors (constant propagation, no circuit value is ever computed by repository code) are compared with the '
              'documented truth tables over a grid of widths/arities, exhaustively over inputs for small widths.')
LEAVES = ['And2', 'Or2', 'Not', 'Buf', 'Bit', 'BitsLSBF', 'BitsMSBF', 'Mux2', 'Repeat', 'ConcatenateMSBF', 'ConcatenateLSBF', 'Range', 'Constant']
FILES = ['py4hw/logic/bitwise.py', 'py4hw/logic/relational.py']


def list_order(ctx, facts):
    for cn, (attr, want) in LIST_ORDER.items():
        c = facts.cls(cn, required=False)
        if c is None or '__init__' not in c.methods:
            ctx.error('C08.d', 'anchor %s.__init__ not found' % cn)
            continue
        init = c.methods['__init__']
        rev = [x for x in ast.walk(init) if isinstance(x, ast.Call) and isinstance(x.func, ast.Attribute) and x.func.attr == 'reverse'
               and norm(x.func.value) == 'self.%s' % attr]
        # appended in argument order inside the loop
        apps = [x for x in ast.walk(init) if isinstance(x, ast.Call) and isinstance(x.func, ast.Attribute) and x.func.attr == 'append'
                and norm(x.func.value) == 'self.%s' % attr]
        inserts = [x for x in ast.walk(init) if isinstance(x, ast.Call) and isinstance(x.func, ast.Attribute) and x.func.attr == 'insert'
                   and norm(x.func.value) == 'self.%s' % attr]
        n = len(rev) + (1 if inserts and not apps else 0)
        if (n % 2) == want and (apps or inserts):
            ctx.ok('C08.d', cn, 'self.%s is kept in %s order' % (attr, 'reversed (argument 0 is the %s significant end)' % ('most' if cn.startswith('Bits') else 'least') if want else 'argument'))
        else:
            ctx.violation('C08.d', cn, 'the constructor leaves self.%s in the wrong order for the %s variant (reversals: %d)' % (attr, cn[-4:], n),
                          '%s:%s.__init__' % (c.rel, cn), witness=dict(configuration='two or more elements; first and last differ'))


def run(ctx, sm, facts):
    ctx.rule('C08.a', 'leaf propagate() summaries == documented function')
    ctx.rule('C08.b', 'elaborated netlists of the structural compositions == documented function')
    ctx.rule('C08.c', 'no undefined name / never-assigned attribute in bitwise.py and relational.py')
    ctx.rule('C08.d', 'MSBF/LSBF list order established by the constructors')
    leaf_contracts(ctx, facts, 'C08.a', LEAVES, ctx.tier, ctx.seed, 12)
    list_order(ctx, facts)
    run_specs(ctx, facts, 'C08', 'C08.b', ctx.tier, ctx.seed, floor=25)
    definite_failures(ctx, facts, sm, 'C08.c', FILES,
                      class_filter=lambda n: not n.startswith('FP') and n not in ('FixedPointComparator',))
    ctx.rule('C08.f', 'constructors keep their own copy of list arguments (no aliasing of the caller\'s list)')
    from ..leafrules import caller_list_aliasing
    caller_list_aliasing(ctx, facts, 'C08.f', FILES)
    ctx.rule('C08.e', 'instance isolation in bitwise.py / relational.py: no mutable default / class-level container / memoised method carries state between instances')
    shared_instance_state(ctx, facts, 'C08.e', FILES)
    ctx.not_decided += ['widths and arities above the grid bound', 'Digit7Segment (display decoding table)',
                        'floating/fixed-point comparators (C13/C14)']
    ctx.assumptions += ['the elaborator (hv/elab.py) interprets construction code faithfully; unsupported constructs abort the entry as not elaborated',
                        'documented functions transcribed in hv/specs.py and hv/contracts.py']
