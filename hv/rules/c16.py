"""C16 - AXI4-Stream adapters never lose, duplicate or corrupt a beat.

Axi2Reg and Reg2Axi are elaborated from their constructors (interface object included) and the
netlists are co-simulated, through the leaf summaries, with reference models transcribed from the
property statement, over all control-pulse schedules of depth 3 (4 thorough) with varying data and
over long biased random schedules; ap_done is only driven after a completed transfer, as the
property's domain requires.

C16.a  Axi2Reg: READY == active in every cycle; q holds the low bits of the latest beat accepted
       while active and `loaded` is set, until reset / done / restart;
C16.b  Reg2Axi: VALID stays asserted from a load until the accepting cycle or reset; the offered
       data is the value captured by the latest load pulse; LAST == VALID; KEEP constant;
       `sent` rises only after an accepted beat;
C16.c  the stream interface declares tready as its only sink-to-source signal.
"""
import ast
import itertools
import math
import random

from ..elab import ElabError, ElabRaise, PyExc
from ..ireval import EvalError, Nondet
from ..netlist import Design, NetError
from ..srcmap import norm

LEVEL_TEXT = ('Static extraction + bounded co-simulation of the elaborated adapters with reference models under exhaustive short and sampled long '
              'schedules of control pulses and handshakes.')
VW = 'py4hw/emulation/vitiswrapping.py'
AXI = 'py4hw/logic/bus/axi.py'


def m(w):
    return (1 << w) - 1


class A2R:
    def __init__(self, qw):
        self.qw = qw
        self.active = self.q = self.loaded = 0

    def comb(self, v):
        return dict(tready=self.active, active=self.active, q=self.q, loaded=self.loaded)

    def step(self, v):
        hs = self.active & v['tvalid'] & self.active        # ready == active
        clear = v['ap_reset'] | ((1 - self.active) & v['ap_start']) | v['ap_done']
        if clear:
            self.q, self.loaded = 0, 0
        elif hs:
            self.q, self.loaded = v['tdata'] & m(self.qw), 1
        if v['ap_reset'] | v['ap_done']:
            self.active = 0
        elif v['ap_start']:
            self.active = 1

    def done_allowed(self):
        return self.loaded == 1


class R2A:
    def __init__(self, w):
        self.w = w
        self.active = self.tvalid = self.tdata = self.sent = 0
        self.keep = (1 << math.ceil(w / 8)) - 1

    def comb(self, v):
        return dict(tvalid=self.tvalid, tdata=self.tdata, tlast=self.tvalid, tkeep=self.keep, sent=self.sent, active=self.active)

    def step(self, v):
        acc = self.active & self.tvalid & v['tready']
        load = v['load_outs'] & self.active
        if v['ap_reset'] | acc:
            self.tvalid = 0
        elif load:
            self.tvalid = 1
        if load:
            self.tdata = v['reg_in']
        if v['ap_reset'] | ((1 - self.active) & v['ap_start']) | v['ap_done']:
            self.sent = 0
        elif acc:
            self.sent = 1
        if v['ap_reset'] | v['ap_done']:
            self.active = 0
        elif v['ap_start']:
            self.active = 1

    def done_allowed(self):
        return self.sent == 1


def build_a2r(facts, summaries, qw, sw=8):
    D = Design(facts, summaries)
    ap_start, ap_reset, ap_done = D.wire('ap_start'), D.wire('ap_reset'), D.wire('ap_done')
    ic = D.el.find_class('AXI4StreamInterface', AXI)
    stream = D.el.instantiate(ic, [D.sys, 's', sw], dict(has_tlast=True, has_tkeep=True))
    q, loaded, active = D.wire('q', qw), D.wire('loaded'), D.wire('active')
    D.make('Axi2Reg', 'dut', ap_start, ap_reset, ap_done, stream, q, loaded, active, rel=VW)
    D.prepare()
    ins = dict(ap_start=ap_start, ap_reset=ap_reset, ap_done=ap_done, tvalid=stream.attrs['tvalid'], tdata=stream.attrs['tdata'])
    outs = dict(tready=stream.attrs['tready'], q=q, loaded=loaded, active=active)
    return D, ins, outs


def build_r2a(facts, summaries, w):
    D = Design(facts, summaries)
    ap_start, ap_reset, ap_done, load = D.wire('ap_start'), D.wire('ap_reset'), D.wire('ap_done'), D.wire('load_outs')
    reg_in = D.wire('reg_in', w)
    ic = D.el.find_class('AXI4StreamInterface', AXI)
    stream = D.el.instantiate(ic, [D.sys, 's', 8 * math.ceil(w / 8)], dict(has_tlast=True, has_tkeep=True))
    sent, active = D.wire('sent'), D.wire('active')
    D.make('Reg2Axi', 'dut', ap_start, ap_reset, ap_done, load, reg_in, stream, sent, active, rel=VW)
    D.prepare()
    ins = dict(ap_start=ap_start, ap_reset=ap_reset, ap_done=ap_done, load_outs=load, reg_in=reg_in, tready=stream.attrs['tready'])
    outs = dict(tvalid=stream.attrs['tvalid'], tdata=stream.attrs['tdata'], tlast=stream.attrs['tlast'], tkeep=stream.attrs['tkeep'], sent=sent, active=active)
    return D, ins, outs


def schedules(ctrl, data, tier, rnd):
    depth = 3 if tier == 'quick' else 4
    limit = 5000 if tier == 'quick' else 70000
    while depth > 1 and (1 << len(ctrl)) ** depth > limit:
        depth -= 1
    if (1 << len(ctrl)) ** depth <= limit:
        for seq in itertools.product(range(1 << len(ctrl)), repeat=depth):
            yield [dict({c: (x >> i) & 1 for i, c in enumerate(ctrl)}, **{d: rnd.choice(vals) for d, vals in data.items()}) for x in seq]
    for _ in range(400 if tier == 'quick' else 1500):
        bias = {c: rnd.choice((0.08, 0.3, 0.6, 0.9)) for c in ctrl}
        bias['ap_reset'] = rnd.choice((0.0, 0.05, 0.2))
        n = rnd.choice((8, 16, 30))
        yield [dict({c: int(rnd.random() < bias[c]) for c in ctrl}, **{d: rnd.choice(vals) for d, vals in data.items()}) for _ in range(n)]


def cosim(ctx, rule, name, build, model, ctrl, data, tier, seed, where):
    rnd = random.Random(seed + len(name))
    try:
        D, ins, outs = build()
    except (ElabError, NetError, ElabRaise, PyExc) as e:
        ctx.error(rule, '%s could not be elaborated: %s' % (name, e))
        return
    snap_vals = dict(D.values)
    snap_attr = [(c, dict(c.cfg.attr)) for c in D.seq + D.comb]
    nseq = 0
    for seq in schedules(ctrl, data, tier, rnd):
        nseq += 1
        D.values = dict(snap_vals)
        for c, at in snap_attr:
            c.cfg.attr = dict(at)
        mdl = model()
        hist = []
        try:
            for t, v in enumerate(seq):
                v = dict(v)
                if v.get('ap_done') and not mdl.done_allowed():
                    v['ap_done'] = 0        # property domain: done only after a completed transfer
                hist.append({k: (hex(x) if k in data else x) for k, x in v.items()})
                for n, w in ins.items():
                    D.put(w, v[n])
                D.settle()
                exp = mdl.comb(v)
                for on, w in outs.items():
                    if D.get(w) != exp[on] & m(w.attrs['width']):
                        ctx.violation(rule, '%s:%s' % (name, on), '%s: `%s` differs from the reference adapter in cycle %d' % (name, on, t + 1), where,
                                      witness=dict(schedule=hist, output=on, netlist=D.get(w), reference=exp[on], note='values shown are the ones driven / observed before each edge'))
                        return
                D.clock()
                mdl.step(v)
        except (EvalError, Nondet, NetError) as e:
            ctx.violation(rule, '%s:runs' % name, '%s: a leaf summary fails: %s' % (name, e), where, witness=dict(schedule=hist))
            return
    ctx.ok(rule, name, '%d schedules from power-up (all control-pulse schedules up to the exhaustive depth with varying data + long biased ones): every output equals the reference in every cycle' % nseq, grade='bounded')
    ctx.sample(dict(rule=rule, adapter=name, schedules=nseq, controls=ctrl))


def check_interface(ctx, facts):
    c = facts.cls('AXI4StreamInterface', AXI, required=False)
    if c is None or '__init__' not in c.methods:
        ctx.error('C16.c', 'anchor AXI4StreamInterface not found')
        return
    s2s, k2s = [], []
    for n in ast.walk(c.methods['__init__']):
        if isinstance(n, ast.Call) and isinstance(n.func, ast.Attribute) and n.args and isinstance(n.args[0], ast.Constant):
            if n.func.attr == 'addSourceToSink':
                s2s.append(n.args[0].value)
            elif n.func.attr == 'addSinkToSource':
                k2s.append(n.args[0].value)
    if k2s == ['tready'] and {'tvalid', 'tdata'} <= set(s2s) and 'tready' not in s2s:
        ctx.ok('C16.c', 'stream-directions', 'tready is the only sink-to-source signal; %s travel source-to-sink' % sorted(s2s))
    else:
        ctx.violation('C16.c', 'stream-directions', 'AXI4-Stream signal directions are wrong: sink-to-source=%s source-to-sink=%s' % (k2s, s2s), '%s:AXI4StreamInterface.__init__' % AXI)


def run(ctx, sm, facts):
    ctx.rule('C16.a', 'Axi2Reg netlist == reference adapter in every cycle of every schedule of the grid')
    ctx.rule('C16.b', 'Reg2Axi netlist == reference adapter in every cycle of every schedule of the grid')
    ctx.rule('C16.c', 'AXI4-Stream signal directions')
    summaries = {}
    tier, seed = ctx.tier, ctx.seed
    cosim(ctx, 'C16.a', 'Axi2Reg', lambda: build_a2r(facts, summaries, 4), lambda: A2R(4), ['ap_start', 'ap_reset', 'ap_done', 'tvalid'],
          dict(tdata=[0x00, 0xA5, 0x5A, 0xFF, 0x13]), tier, seed, '%s:Axi2Reg.__init__' % VW)
    # register as wide as the stream, and a register / stream wider than a machine word (the low qw bits of the beat, whatever qw is)
    cosim(ctx, 'C16.a', 'Axi2Reg(q=8,stream=8)', lambda: build_a2r(facts, summaries, 8), lambda: A2R(8), ['ap_start', 'ap_reset', 'ap_done', 'tvalid'],
          dict(tdata=[0x00, 0xA5, 0x5A, 0xFF, 0x80]), 'quick', seed, '%s:Axi2Reg.__init__' % VW)
    cosim(ctx, 'C16.a', 'Axi2Reg(q=65,stream=128)', lambda: build_a2r(facts, summaries, 65, 128), lambda: A2R(65), ['ap_start', 'ap_reset', 'ap_done', 'tvalid'],
          dict(tdata=[0, (1 << 128) - 1, 1 << 64, (1 << 64) - 1, (0xA5 << 60) | 0x13, 1 << 65]), 'quick', seed, '%s:Axi2Reg.__init__' % VW)
    cosim(ctx, 'C16.b', 'Reg2Axi(w=72)', lambda: build_r2a(facts, summaries, 72), lambda: R2A(72), ['ap_start', 'ap_reset', 'ap_done', 'load_outs', 'tready'],
          dict(reg_in=[0, (1 << 72) - 1, 1 << 71, 1 << 64, (1 << 64) - 1]), 'quick', seed, '%s:Reg2Axi.__init__' % VW)
    cosim(ctx, 'C16.b', 'Reg2Axi', lambda: build_r2a(facts, summaries, 8), lambda: R2A(8), ['ap_start', 'ap_reset', 'ap_done', 'load_outs', 'tready'],
          dict(reg_in=[0x00, 0xA5, 0x5A, 0xFF, 0x13]), tier, seed, '%s:Reg2Axi.__init__' % VW)
    # a register width that is not a whole number of bytes (KEEP must still cover the byte that holds the top bits)
    cosim(ctx, 'C16.b', 'Reg2Axi(w=12)', lambda: build_r2a(facts, summaries, 12), lambda: R2A(12), ['ap_start', 'ap_reset', 'ap_done', 'load_outs', 'tready'],
          dict(reg_in=[0x000, 0xA5A, 0x5A5, 0xFFF, 0x813]), 'quick', seed, '%s:Reg2Axi.__init__' % VW)
    check_interface(ctx, facts)
    ctx.not_decided += ['schedules longer than the bound; other register / stream widths', 'Axi2ClkFSM and VitisKernelFSM control sequencing']
    ctx.assumptions += ['reference adapters transcribed from the property statement (hv/rules/c16.py)', 'ap_done is only driven after a completed transfer (domain of the property)']
