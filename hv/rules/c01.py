"""C01 - generated Verilog behaves like the simulated structural design (per-block clauses).

C01.a  table census: every entry of inlinablePrimitives / providingBody resolves to a class and
       an emitter; every leaf with propagate()/clock() is classified inlined / body / transpiled;
C01.b  leaf inlinables: summary(Class.propagate) == IEEE-1364 reading of the text the Inline*
       emitter produces, for every configuration of the grid and every input vector;
C01.c  structural inlinables (no propagate): emitted text == the documented function of the class;
C01.d  body emitters (Reg, memories, MsgSequencer): co-simulation of the extracted clock() summary
       and the emitted always-block body over all input sequences up to the bound, from power-up;
C01.e  power-up: outputs before the first edge agree.
"""
import ast
import itertools

from .. import vlog
from ..blocks import Block, compare, summary_outputs, verilog_assign_outputs, parse_cached, cfg_text, mask, Mismatch
from ..contracts import CONTRACTS, FORALL_CONTRACTS, contract_outputs
from ..emit import Emitter, EmitError, ConfigRefused
from ..ireval import Cfg, ev, Nondet, EvalError, HOLDV
from ..srcmap import norm
from ..summ import Summariser, NotSummarisable, Env, show, showp, c as C
from ..vsim import Body

LEVEL_TEXT = ('Per-block translation validation by static extraction: the simulation rule (symbolic summary of propagate()/clock()) '
              'and the emission rule (abstract evaluation of the emitter into text, parsed and read under IEEE 1364-2005 sizing) '
              'are compared over a finite grid of configurations and all inputs; whole-design equivalence is not decided.')
RTL = 'py4hw/rtl_generation.py'

EXCLUDED = {
    'BidirBuf': 'tri-state buffer: outside the simulator\'s 2-valued single-driver model',
    'VerilogComment': 'emits a comment only',
    'GatedClock': 'propagate() is documented as a simulator stand-in for the clock-gating cell',
}
WIDTHS = {'quick': (1, 2, 3), 'thorough': (1, 2, 3, 4)}


def tables(ctx, facts):
    gen = facts.cls('VerilogGenerator', RTL)
    init = gen.methods.get('__init__')
    if init is None:
        ctx.error('C01.a', 'VerilogGenerator.__init__ not found')
        return {}, {}
    inl, body = {}, {}
    for n in ast.walk(init):
        if isinstance(n, ast.Assign) and len(n.targets) == 1 and isinstance(n.targets[0], ast.Subscript):
            t = n.targets[0]
            base = norm(t.value)
            if base == 'self.inlinablePrimitives':
                inl[norm(t.slice)] = norm(n.value)
            elif base == 'self.providingBody':
                body[norm(t.slice)] = norm(n.value)
        if isinstance(n, ast.Assign) and isinstance(n.value, ast.Dict) and any(norm(t) in ('self.inlinablePrimitives', 'self.providingBody') for t in n.targets):
            d = inl if any(norm(t) == 'self.inlinablePrimitives' for t in n.targets) else body
            for k, v in zip(n.value.keys, n.value.values):
                d[norm(k)] = norm(v)
    return inl, body


def check_a(ctx, facts, inl, body):
    for tab, nm in ((inl, 'inlinablePrimitives'), (body, 'providingBody')):
        for cn, fn in sorted(tab.items()):
            c = facts.cls(cn, required=False)
            f = facts.func(RTL, fn, required=False)
            if c is None or f is None:
                ctx.violation('C01.a', '%s[%s]' % (nm, cn), 'table entry does not resolve (class %s, emitter %s)' % ('found' if c else 'missing', 'found' if f else 'missing'),
                              '%s:VerilogGenerator.__init__' % RTL)
            else:
                ctx.ok('C01.a', '%s[%s]' % (nm, cn), '-> %s' % fn, nontrivial=False)
    ctx.floor('C01.a', 'inlinable table entries', len(inl), 30)
    ctx.floor('C01.a', 'providingBody table entries', len(body), 2)
    vb = [c for c in facts.logic_classes() if 'verilogBody' in c.methods]
    ctx.analysed['verilogBody_classes'] = sorted(c.name for c in vb)
    # classification of every leaf class of the import closure
    cl = {}
    for c in facts.logic_classes():
        if 'propagate' in c.methods or 'clock' in c.methods:
            if c.name in inl:
                cl[c.name] = 'inlined'
            elif c.name in body or 'verilogBody' in c.methods:
                cl[c.name] = 'body'
            else:
                cl[c.name] = 'transpiled'
    ctx.analysed['leaf_emission_classification'] = cl


def py_side(summ):
    def mk(cfg):
        return lambda: summary_outputs(summ, cfg)
    return mk


def build_leaf(facts, c, cfg, b):
    """elaborate one instance of leaf class c under configuration cfg -> (Design, object, {port key: wire})"""
    from ..netlist import Design
    D = Design(facts)
    init = facts.lookup(c, '__init__')
    pm = b.param_map()
    wires = {}
    args = []
    kwargs = {}
    for p in init.args.args[3:]:
        attr = pm.get(p.arg)
        if attr is None and p.arg in b.ports:
            attr = p.arg
        if attr in b.ports and not b.ports[attr][2] and not b.ports[attr][0].startswith('iface'):
            k = ('p', attr)
            if k in cfg.width:
                w = D.wire(b.ports[attr][1] or attr, cfg.width[k])
                wires[k] = w
                kwargs[p.arg] = w
            else:
                kwargs[p.arg] = None
        elif attr in b.ports and b.ports[attr][2]:
            lst = []
            for i in range(cfg.plen[attr]):
                w = D.wire('%s_%d' % (attr, i), cfg.width[('pe', attr, i)])
                wires[('pe', attr, i)] = w
                lst.append(w)
            kwargs[p.arg] = lst
        elif p.arg in cfg.attr:
            kwargs[p.arg] = cfg.attr[p.arg]
        elif p.arg in cfg.param:
            kwargs[p.arg] = cfg.param[p.arg]
    obj = D.make(c.name, 'dut', rel=c.rel, **kwargs)
    # list attributes are keyed by their position in the *attribute* (constructors may reverse the argument list)
    for attr in b.lists:
        lst = obj.attrs.get(attr)
        if isinstance(lst, list):
            for i, w in enumerate(lst):
                wires[('pe', attr, i)] = w
                cfg.width[('pe', attr, i)] = w.attrs['width']
    return D, obj, wires


def emitted_text(facts, c, cfg, b, mode):
    """text the generator emits for one instance: mode 'inline' -> inlinePrimitive(obj), 'body' -> provideBody(obj).
    The generator code is evaluated abstractly (hv/elab.py), so any refactoring of the emitters is followed."""
    from ..elab import ElabError, ElabRaise, PyExc
    from ..gen import generator
    try:
        D, obj, wires = build_leaf(facts, c, cfg, b)
        g = generator(D)
        text = D.el.call(D.el.getattr_(g, 'inlinePrimitive' if mode == 'inline' else 'provideBody'), [obj], {}, {})
    except ElabRaise as e:
        raise ConfigRefused('the constructor / emitter refuses this configuration: %s' % e)
    except (ElabError, PyExc) as e:
        raise EmitError('emitter not evaluable: %s' % e)
    if mode == 'inline':
        names = {k: 'w_' + w.attrs['name'] for k, w in wires.items()}
    else:
        names = {k: w.attrs['name'] for k, w in wires.items()}
    return text, names


def v_side(facts, c, emfn):
    b = Block(facts, c)

    def mk(cfg):
        text, names = emitted_text(facts, c, cfg, b, 'inline')
        parse_cached(text)
        mk.last_text = text
        return lambda: verilog_assign_outputs(text, cfg, names)
    mk.last_text = None
    return mk


def contract_side(cname):
    def mk(cfg):
        return lambda: contract_outputs(cname, cfg)
    return mk


def report(ctx, rule, key, where, ncfg, nev, diffs, what_left, what_right, extra_text=None):
    if diffs:
        d = diffs[0]
        w = d.as_dict()
        if extra_text:
            w['emitted'] = extra_text.strip()[:300]
        ctx.violation(rule, key, '%s and %s disagree: %s' % (what_left, what_right, d.kind), where, witness=w)
    else:
        ctx.ok(rule, key, '%d configurations x inputs = %d evaluations agree' % (ncfg, nev), grade='bounded')


def check_b(ctx, facts, inl, tier, seed):
    n = 0
    for cn, fn in sorted(inl.items()):
        c = facts.cls(cn, required=False)
        emf = facts.func(RTL, fn, required=False)
        if c is None or emf is None or 'propagate' not in c.methods:
            continue
        if cn in EXCLUDED:
            ctx.excluded.append('%s: %s' % (cn, EXCLUDED[cn]))
            continue
        n += 1
        where = '%s:%s vs %s:%s.propagate' % (RTL, fn, c.rel, cn)
        try:
            s = Summariser(facts, c).method(c.methods['propagate'])
        except NotSummarisable as e:
            ctx.violation('C01.b', cn, 'the simulation rule cannot be read: %s' % e, where) if 'not a port attribute' in str(e) else \
                ctx.error('C01.b', '%s.propagate not summarisable: %s' % (cn, e))
            continue
        b = Block(facts, c)
        vs = v_side(facts, c, emf)
        wide = (8,) if tier == 'thorough' else ()
        ncfg, nev, diffs = compare(b, py_side(s), vs, b.configs(widths=WIDTHS[tier], extra_wide=wide), seed=seed)
        report(ctx, 'C01.b', cn, where, ncfg, nev, diffs, '%s.propagate' % cn, fn, vs.last_text)
        if not diffs:
            ctx.sample(dict(rule='C01.b', block=cn, python=' ; '.join('%s := %s' % (showp(k), show(v)) for k, v in s.puts.items())[:160],
                            verilog=(vs.last_text or '').strip()[:120], configurations=ncfg, evaluations=nev))
    ctx.floor('C01.b', 'leaf inlinable pairs', n, 20)


def check_c(ctx, facts, inl, tier, seed):
    n = 0
    for cn, fn in sorted(inl.items()):
        c = facts.cls(cn, required=False)
        emf = facts.func(RTL, fn, required=False)
        if c is None or emf is None or 'propagate' in c.methods or cn in EXCLUDED:
            continue
        if cn not in CONTRACTS:
            ctx.error('C01.c', 'structural inlinable %s has no contract entry' % cn)
            continue
        n += 1
        where = '%s:%s vs documented function of %s' % (RTL, fn, cn)
        b = Block(facts, c)
        vs = v_side(facts, c, emf)
        # n-ary gates: all inputs and the result share one width
        cfgs = b.configs(widths=WIDTHS[tier])
        if b.lists:
            cfgs = (cf for cf in b.configs(widths=WIDTHS[tier], arities=(1, 2, 3, 4), elem_widths=WIDTHS[tier])
                    if len({w for k, w in cf.width.items()}) == 1)
        elif cn in ('Nand2', 'Nor2', 'Xor2'):
            cfgs = (cf for cf in b.configs(widths=WIDTHS[tier]) if len(set(cf.width.values())) == 1)
        elif cn == 'Equal':
            cfgs = (cf for cf in b.configs(widths=WIDTHS[tier]) if cf.width[('p', 'a')] == cf.width[('p', 'b')])
        ncfg, nev, diffs = compare(b, contract_side(cn), vs, cfgs, seed=seed)
        report(ctx, 'C01.c', cn, where, ncfg, nev, diffs, 'documented function of %s' % cn, fn, vs.last_text)
    ctx.floor('C01.c', 'structural inlinable pairs', n, 6)


# ---------------------------------------------------------------- sequential bodies
def ctor_state(facts, c, cfg, b=None):
    """initial values of the block's state attributes and of the wires the constructor puts,
    read from the constructor under cfg -> (state, initial outputs)"""
    init = facts.lookup(c, '__init__')
    st = {}
    outs = {}
    if init is None:
        return st, outs
    b = b or Block(facts, c)
    pm = b.param_map()
    S = Summariser(facts, c, ports=b.ports)
    env = Env()
    params = [a.arg for a in init.args.args[1:]]
    for p in params:
        if p in pm and pm[p] in b.ports:
            env.loc[p] = ('wire', ('p', pm[p]))
        else:
            env.loc[p] = ('attr', p)

    def walk(stmts):
        for s in stmts:
            if isinstance(s, ast.If):
                try:
                    cond = ev(S.expr(s.test, env), cfg2)
                except (NotSummarisable, EvalError, Nondet):
                    continue
                walk(s.body if cond else s.orelse)
            elif isinstance(s, ast.Assign) and len(s.targets) == 1:
                t = s.targets[0]
                if isinstance(t, ast.Attribute) and isinstance(t.value, ast.Name) and t.value.id == 'self' and t.attr not in b.ports:
                    v = s.value
                    try:
                        if isinstance(v, ast.BinOp) and isinstance(v.op, ast.Mult) and isinstance(v.left, ast.List):
                            n = ev(S.expr(v.right, env), cfg2)
                            st[t.attr] = [ev(S.expr(x, env), cfg2) for x in v.left.elts] * n
                        else:
                            st[t.attr] = ev(S.expr(v, env), cfg2)
                        cfg2.attr[t.attr] = st[t.attr]
                    except (NotSummarisable, EvalError, Nondet):
                        pass
                elif isinstance(t, ast.Name):
                    try:
                        env.loc[t.id] = C(ev(S.expr(s.value, env), cfg2))
                    except (NotSummarisable, EvalError, Nondet):
                        env.loc.pop(t.id, None)
            elif isinstance(s, ast.Expr) and isinstance(s.value, ast.Call) and isinstance(s.value.func, ast.Attribute) \
                    and s.value.func.attr == 'put' and len(s.value.args) == 1:
                try:
                    pk = S.port_key(s.value.func.value, env)
                    if pk is not None and pk in cfg2.width:
                        outs[pk] = ev(S.expr(s.value.args[0], env), cfg2) & mask(cfg2.width[pk])
                except (NotSummarisable, EvalError, Nondet):
                    pass
    cfg2 = cfg.copy()
    # optional parameters that are absent evaluate to None
    for p in params:
        if p not in cfg2.attr and p not in pm:
            cfg2.attr.setdefault(p, None)
    for o in b.optional:
        for p, a in pm.items():
            if a == o:
                cfg2.attr[p] = cfg.attr.get(o)
    walk(init.body)
    return st, outs


class PyMachine:
    """steps the extracted clock() summary"""

    def __init__(self, summ, cfg, init):
        self.s = summ
        self.cfg = cfg.copy()
        st, outs = init
        self.cfg.attr.update({k: (list(v) if isinstance(v, list) else v) for k, v in st.items()})
        self.out = dict(outs)

    def outputs(self, keys):
        return {k: self.out.get(k, 0) for k in keys}

    def step(self, vals, outk):
        self.cfg.val = dict(vals)
        for k in outk:
            self.cfg.val[k] = self.out.get(k, 0)
        po = summary_outputs(self.s, self.cfg, kind='prepares')
        new = {a: ev(x, self.cfg) for a, x in self.s.state.items()}
        stores = []
        for g, seq, i, v in self.s.stores:
            if ev(g, self.cfg):
                stores.append((seq, ev(i, self.cfg), ev(v, self.cfg)))
        for seq, i, v in stores:
            lst = list(self.cfg.attr[seq])
            if not (0 <= i < len(lst)):
                raise EvalError('store index %d out of range of %s' % (i, seq))
            lst[i] = v
            self.cfg.attr[seq] = lst
        self.cfg.attr.update(new)
        for k, v in po.items():
            if v is not HOLDV:
                self.out[k] = v


def check_d(ctx, facts, body, tier, seed):
    targets = []
    for cn, fn in sorted(body.items()):
        c = facts.cls(cn, required=False)
        f = facts.func(RTL, fn, required=False)
        if c is not None and f is not None and cn not in EXCLUDED:
            targets.append((c, f, 'obj'))
    for c in facts.logic_classes():
        if 'verilogBody' in c.methods and ('clock' in c.methods) and not c.rel.startswith('py4hw/external'):
            targets.append((c, c.methods['verilogBody'], 'self'))
    for c in facts.logic_classes():
        if 'verilogBody' in c.methods and c.rel.startswith('py4hw/external'):
            ctx.excluded.append('%s: vendor macro wrapper (the body instantiates a vendor cell)' % c.name)
    n = 0
    for c, emf, objn in targets:
        cn = c.name
        where = '%s:%s.clock vs %s' % (c.rel, cn, ('%s:%s' % (RTL, emf.name)) if objn == 'obj' else '%s:%s.verilogBody' % (c.rel, cn))
        if 'clock' not in c.methods:
            continue
        try:
            s = Summariser(facts, c).method(c.methods['clock'])
        except NotSummarisable as e:
            if 'not a port attribute' in str(e):
                ctx.violation('C01.d', cn + ':cannot-run', 'the simulation rule of %s cannot run: %s' % (cn, e), where, witness=dict(note='clock() raises AttributeError on the first edge'))
            else:
                ctx.error('C01.d', '%s.clock not summarisable: %s' % (cn, e))
            continue
        n += 1
        b = Block(facts, c)
        depth = 3 if tier == 'quick' else 4
        diffs = []
        ncfg = nseq = 0
        last_text = None
        for cfg in seq_configs(b, cn, tier):
            ncfg += 1
            try:
                text, names = emitted_text(facts, c, cfg, b, 'body')
                last_text = text
                parse_cached(text)
            except ConfigRefused:
                ncfg -= 1
                continue
            except EmitError as e:
                ctx.error('C01.d', '%s: %s' % (cn, e))
                diffs = None
                break
            except vlog.VParseError as e:
                diffs.append(Mismatch('body does not parse: %s' % e, None, None, None, cfg, None))
                break
            ink, outk = b.in_keys(cfg), b.out_keys(cfg)
            ports = {names[k]: ('input', cfg.width[k]) for k in ink}
            ports.update({names[k]: ('output', cfg.width[k]) for k in outk})
            ports['clk'] = ('input', 1)
            bad = co_simulate(facts, c, s, cfg, text, ports, names, ink, outk, depth, seed, b)
            nseq += bad[1]
            if bad[0] is not None:
                if bad[0].port is not None and len(ink) <= 12:
                    # the key of a finding must not depend on which sampled sequence met it first: prefer the canonical single-edge witness
                    pr = co_simulate(facts, c, s, cfg, text, ports, names, ink, outk, depth, seed, b, probe=True)
                    if pr[0] is not None and pr[0].port is not None:
                        bad = pr
                    else:
                        bad[0].extra = dict(bad[0].extra or {}, canonical_cycle='later')
                diffs.append(bad[0])
                break
        if diffs is None:
            continue
        key_d = cn
        # split power-up mismatches (C01.e) from behavioural ones (C01.d)
        if diffs and diffs[0].extra and diffs[0].extra.get('cycle') == 0:
            ctx.violation('C01.e', cn, 'outputs at power-up (before the first edge) differ between the simulator and the emitted body', where,
                          witness=dict(diffs[0].as_dict(), emitted=(last_text or '').strip()[:300]))
            # re-run ignoring power-up to still decide the cycle behaviour
            diffs2 = []
            for cfg in seq_configs(b, cn, tier):
                try:
                    text, names = emitted_text(facts, c, cfg, b, 'body')
                except ConfigRefused:
                    continue
                except EmitError:
                    break
                ink, outk = b.in_keys(cfg), b.out_keys(cfg)
                ports = {names[k]: ('input', cfg.width[k]) for k in ink}
                ports.update({names[k]: ('output', cfg.width[k]) for k in outk})
                ports['clk'] = ('input', 1)
                bad = co_simulate(facts, c, s, cfg, text, ports, names, ink, outk, depth, seed, b, skip_powerup=True)
                if bad[0] is not None:
                    diffs2.append(bad[0])
                    break
            diffs = diffs2
        else:
            if not diffs:
                ctx.ok('C01.e', cn, 'power-up outputs agree in %d configurations' % ncfg, grade='bounded')
        if diffs:
            d0 = diffs[0]
            key_d = '%s:%s' % (cn, ('%s@edge%s' % (showp(d0.port), (d0.extra or {}).get('canonical_cycle', (d0.extra or {}).get('cycle')))) if d0.port is not None else d0.kind.split(':')[0][:40])
            ctx.violation('C01.d', key_d, 'the emitted body and clock() diverge: %s' % diffs[0].kind, where,
                          witness=dict(diffs[0].as_dict(), emitted=(last_text or '').strip()[:400]))
        else:
            ctx.ok('C01.d', key_d, '%d configurations, %d input sequences of length <= %d from power-up agree' % (ncfg, nseq, depth), grade='bounded')
            ctx.sample(dict(rule='C01.d', block=cn, configurations=ncfg, sequences=nseq, depth=depth))
    ctx.floor('C01.d', 'sequential body pairs', n, 3)


def seq_configs(b, cn, tier):
    if cn == 'Reg':
        for cfg in b.configs(widths=(1, 2)):
            # d and q share a width class; keep a few mixed
            yield cfg
        return
    if cn in ('SynchronousMemory', 'DualPortSynchronousMemory', 'AsynchronousMemory'):
        for aw in (1, 2):
            for dw in (1, 2):
                cfg = Cfg()
                for a in b.scalars:
                    if 'address' in a:
                        cfg.width[('p', a)] = aw
                    elif 'data' in a:
                        cfg.width[('p', a)] = dw
                    else:
                        cfg.width[('p', a)] = 1
                yield cfg
        return
    if cn == 'MsgSequencer':
        for msg in ('A', 'Hi', 'abc', 'Hello', 'py4hw!', 'seven77'):
            cfg = Cfg()
            cfg.width[('p', 'ready')] = 1
            cfg.width[('p', 'valid')] = 1
            cfg.width[('p', 'v')] = 8
            cfg.attr['msg'] = msg
            yield cfg
        return
    for cfg in b.configs(widths=(1, 2), limit=60):
        yield cfg


def co_simulate(facts, c, s, cfg, text, ports, names, ink, outk, depth, seed, b, skip_powerup=False, probe=False):
    """all input sequences up to `depth` (exhaustive when small, sampled otherwise); returns (Mismatch|None, n_sequences)"""
    import random
    ws = [cfg.width[k] for k in ink]
    space = 1 << sum(ws)
    # the short sequences come from a fixed stream: the first divergence found (and with it the key of a finding) must not depend on
    # the seed of the run; the seed only varies the additional long runs
    rnd = random.Random(1000003 + space)
    rnd_long = random.Random(seed + space)
    cap = 4096 if depth >= 4 else 500
    if space ** depth <= cap:
        seqs = itertools.product(itertools.product(*[range(1 << w) for w in ws]), repeat=depth)
    else:
        def gen():
            for _ in range(cap if space ** depth <= 65536 else 600):
                yield tuple(tuple(rnd.choice((0, 1, (1 << w) - 1, rnd.randrange(1 << w))) for w in ws) for _ in range(depth))
        seqs = gen()

    def long_runs():
        # long biased runs: state that needs many edges to reach (counters / indices wrapping, deep addresses)
        for _ in range(16 if depth < 4 else 64):
            bias = [rnd_long.choice((0.5, 0.9, 1.0)) for _ in ws]
            yield tuple(tuple(((1 << w) - 1 if w == 1 else rnd_long.randrange(1 << w)) if rnd_long.random() < p_ else (0 if w == 1 else rnd_long.randrange(1 << w))
                              for w, p_ in zip(ws, bias)) for _ in range(32))
    seqs = itertools.chain(seqs, long_runs())
    if probe:
        # canonical witness for the key of a finding: every single-edge sequence over the corner values of the inputs
        seqs = ((vec,) for vec in itertools.product(*[sorted({0, (1 << w) - 1}) for w in ws]))
    nseq = 0
    clkname = 'clk'
    try:
        init = ctor_state(facts, c, cfg, b)
    except (EvalError, Nondet) as e:
        return Mismatch('constructor state not readable: %s' % e, None, None, None, cfg, None), 0
    for seq in seqs:
        nseq += 1
        pm = PyMachine(s, cfg, init)
        try:
            vb = Body(parse_cached(text), ports)
        except vlog.XValue as e:
            return Mismatch('emitted body is not a legal flat body: %s' % e, None, None, None, cfg, None), nseq
        clocks = vb.clocks()
        if clocks and ('posedge', clkname) not in clocks:
            return Mismatch('the body is clocked by %s but the module header declares the clock port `%s`' % (sorted(clocks), clkname),
                            None, None, None, cfg, None, dict(cycle=-1)), nseq
        if not skip_powerup:
            for k in outk:
                a, bb = pm.out.get(k, 0), vb.env[names[k]].v
                if a != bb:
                    return Mismatch('power-up value differs', k, a, bb, cfg, None, dict(cycle=0)), nseq
        hist = []
        for t, vec in enumerate(seq):
            vals = dict(zip(ink, vec))
            hist.append({showp(k): v for k, v in vals.items()})
            try:
                vb.set_inputs({names[k]: v for k, v in vals.items()})
                pm.step(vals, outk)
                vb.posedge(clkname)
            except Nondet:
                break
            except EvalError as e:
                return Mismatch('clock() fails: %s' % e, None, None, None, cfg, vals, dict(cycle=t + 1, inputs_so_far=hist)), nseq
            except vlog.XValue as e:
                return Mismatch('emitted body is illegal / x: %s' % e, None, None, None, cfg, vals, dict(cycle=t + 1, inputs_so_far=hist)), nseq
            for k in outk:
                a, bb = pm.out.get(k, 0), vb.env[names[k]].v
                if a != bb:
                    return Mismatch('output differs after edge %d' % (t + 1), k, a, bb, cfg, vals, dict(cycle=t + 1, inputs_so_far=hist)), nseq
    return None, nseq


# ---------------------------------------------------------------- whole designs
def check_g(ctx, facts, tier, seed, sm=None):
    """C01.g: the text generated for whole (hierarchical) designs, flattened and read as Verilog, against the
    netlist the same constructors elaborate to (evaluated through the leaf summaries)."""
    import random
    from ..elab import ElabError, ElabRaise, PyExc
    from ..gen import hierarchy_text, GenError
    from ..netlist import Design, NetError
    from ..specs import SPECS
    from ..structrules import input_vectors, sequences
    from ..vfront import flatten, FrontError
    from .c03 import composites
    rnd = random.Random(seed + 101)
    if sm is not None:
        from ..facts import Facts
        from .c02 import overlay_source, CASES_REL
        facts = Facts(sm.with_overlay({CASES_REL: overlay_source()}))      # synthetic user-level classes used by the composites
    percfg = 1 if tier == 'quick' else 3
    designs = []
    for sp in SPECS:
        if sp['name'].endswith(':constant-operand'):
            continue        # the dut of this entry is fed by a sibling Constant: not a closed design of its own
        cfgs = list(sp['configs'](tier))
        step = max(1, len(cfgs) // percfg)
        for p in cfgs[len(cfgs) // 2::step][:percfg]:
            designs.append((sp['name'], str(p), (lambda D, sp=sp, p=p: sp['build'](D, p)), True, sp['seq'] is not None))
    for name, b in composites():
        if name == 'second clock domain':
            continue        # derived clocks are outside the cycle-based simulator's model (and see the C03 known finding)
        if name in ('behavioural block with a local named like a port', 'behavioural block with a state attribute its clock() never touches'):
            continue        # behaviour of transpiled method bodies is C02's matter (known finding C02.a HvShadowOut); C03 only needs its declarations
        designs.append((name, '', b, False, True))
    done = 0
    skipped = []
    for name, ptxt, build, dut_top, is_seq in designs:
        where = 'py4hw/rtl_generation.py (design: %s %s)' % (name, ptxt)
        try:
            D = Design(facts)
            r = build(D)
            D.prepare()
            if dut_top:
                ins, outs = r
                top = D.sys.attrs['children']['dut']
            else:
                top = None
                driven = set()
                for cx in D.comb + D.seq:
                    for w in cx.out_wires():
                        driven.add(w.oid)
                ins = {n: w for n, w in D.wires.items() if w.oid not in driven}
                outs = {n: w for n, w in D.wires.items() if w.oid in driven}
            text = hierarchy_text(D, top)
            items, ports = flatten(text)
        except ElabRaise:
            continue
        except (ElabError, NetError, FrontError) as e:
            skipped.append('%s: %s' % (name, str(e)[:80]))
            continue
        except (PyExc, GenError) as e:
            skipped.append('%s: %s' % (name, str(e)[:80]))
            continue
        except vlog.VParseError as e:
            ctx.violation('C01.g', '%s:syntax' % name, 'the text generated for the design does not parse: %s' % e, where)
            continue
        # names of the design's inputs / outputs in the generated top module
        vname = {}
        if dut_top:
            gvn = D.el.eval_name('getValidVerilogName', RTL)
            for plist in ('inPorts', 'outPorts'):
                for po in top.attrs.get(plist, []):
                    vname[po.attrs['wire'].oid] = D.el.call(gvn, [po.attrs['name']], {}, {})
        else:
            for n, w in D.wires.items():
                vname[w.oid] = 'w_' + n
        try:
            def fresh_body():
                return Body(items, ports, strict=False)
            vb = fresh_body()
        except vlog.XValue as e:
            ctx.violation('C01.g', '%s:illegal' % name, 'the generated design is not a legal closed design: %s' % e, where)
            continue
        if dut_top:
            # stimulus wires of the spec that are not attached to any port of the block are not part of the design
            attached = {po.attrs['wire'].oid for plist in ('inPorts', 'outPorts') for po in top.attrs.get(plist, [])}
            for n in [n for n, w in ins.items() if w.oid not in attached]:
                vname[ins[n].oid] = None
        missing = [n for n, w in list(ins.items()) + list(outs.items()) if vname.get(w.oid, 0) is not None and vname.get(w.oid) not in vb.env]
        if missing:
            ctx.violation('C01.g', '%s:interface' % name, 'ports/nets of the design are missing from the generated text: %s' % missing[:4], where)
            continue
        widths = {n: w.attrs['width'] for n, w in ins.items()}
        snap_vals = dict(D.values)
        snap_attr = [(c_, dict(c_.cfg.attr)) for c_ in D.seq + D.comb]
        viol = None
        nrun = 0
        try:
            if not D.seq:
                for v in input_vectors(ins, widths, 10 if tier == 'quick' else 12, 120, rnd):
                    nrun += 1
                    for n, w in ins.items():
                        D.put(w, v[n])
                    D.settle()
                    vb.set_inputs({vname[w.oid]: v[n] for n, w in ins.items() if vname[w.oid] is not None})
                    if vb.xflag:
                        viol = dict(kind='the generated design is x / illegal for inputs the simulator defines: %s' % vb.xflag, inputs=v)
                        break
                    for n, w in outs.items():
                        if D.get(w) != vb.env[vname[w.oid]].v:
                            viol = dict(kind='output differs', inputs=v, output=n, simulator=D.get(w), verilog=vb.env[vname[w.oid]].v)
                            break
                    if viol:
                        break
            else:
                for seq in sequences(ins, widths, 'quick', rnd):
                    nrun += 1
                    if nrun > (60 if tier == 'quick' else 300):
                        break
                    D.values = dict(snap_vals)
                    for c_, at in snap_attr:
                        c_.cfg.attr = {k: (list(x) if isinstance(x, list) else x) for k, x in at.items()}
                    vb = fresh_body()
                    D.settle()
                    hist = []
                    for t, v in enumerate([None] + seq):
                        if v is not None:
                            hist.append(v)
                            for n, w in ins.items():
                                D.put(w, v[n])
                            D.settle()
                            vb.set_inputs({vname[w.oid]: v[n] for n, w in ins.items() if vname[w.oid] is not None})
                        for n, w in outs.items():
                            if D.get(w) != vb.env[vname[w.oid]].v:
                                viol = dict(kind='output differs in cycle %d (before the edge)' % t, inputs_so_far=list(hist), output=n,
                                            simulator=D.get(w), verilog=vb.env[vname[w.oid]].v)
                                break
                        if viol:
                            break
                        if v is not None:
                            D.clock()
                            vb.posedge(vb.driven_clocks())
                    if viol:
                        break
        except Nondet:
            pass
        except (EvalError, NetError) as e:
            skipped.append('%s: netlist evaluation: %s' % (name, str(e)[:60]))
            continue
        except vlog.XValue as e:
            viol = dict(kind='the generated design evaluates to x / is illegal: %s' % e)
        if viol:
            ctx.violation('C01.g', '%s:%s' % (name, viol.get('output', 'x')), 'whole design `%s`: generated Verilog and simulator disagree: %s' % (name, viol['kind']), where,
                          witness=dict(viol, configuration=ptxt, emitted=text[:600]))
        else:
            done += 1
            ctx.ok('C01.g', '%s %s' % (name, ptxt), '%d input %s agree between the elaborated netlist and the flattened generated Verilog' % (nrun, 'sequences' if D.seq else 'vectors'), grade='bounded')
    ctx.analysed['whole_designs_skipped'] = skipped[:10]
    ctx.floor('C01.g', 'whole designs co-simulated', done, 55)


def run(ctx, sm, facts):
    tier = ctx.tier
    ctx.rule('C01.h', 'the emitter describes what was built: constructors of the inlinable / structural library blocks keep their own copy of list arguments')
    from ..leafrules import caller_list_aliasing
    nal = caller_list_aliasing(ctx, facts, 'C01.h', ['py4hw/logic/bitwise.py', 'py4hw/logic/arithmetic.py', 'py4hw/logic/relational.py', 'py4hw/logic/storage.py', 'py4hw/logic/arithmetic_fxp.py'])
    ctx.floor('C01.h', 'constructors scanned', nal, 60)
    ctx.rule('C01.a', 'emitter tables resolve; every leaf classified inlined / body / transpiled')
    ctx.rule('C01.b', 'leaf inlinables: propagate() summary == IEEE-1364 reading of the emitted assign, over the configuration grid and all inputs')
    ctx.rule('C01.c', 'structural inlinables: emitted assign == documented function')
    ctx.rule('C01.d', 'sequential bodies: clock() summary and emitted always-block body co-simulated over all input sequences up to the bound')
    ctx.rule('C01.e', 'power-up outputs agree')
    inl, body = tables(ctx, facts)
    check_a(ctx, facts, inl, body)
    check_b(ctx, facts, inl, tier, ctx.seed)
    check_c(ctx, facts, inl, tier, ctx.seed)
    check_d(ctx, facts, body, tier, ctx.seed)
    ctx.rule('C01.g', 'whole hierarchical designs: generator evaluated over the elaborated design, text flattened and co-simulated with the netlist')
    check_g(ctx, facts, tier, ctx.seed, sm)
    ctx.not_decided += ['equivalence of whole designs under event-driven simulation (interaction of several correct blocks)',
                        'parametric structural inlinables versus their own netlists (see C08)', 'transpiled blocks (C02)', 'Verilog x/z propagation',
                        'configurations outside the grid (widths above %d, wider constants)' % max(WIDTHS[tier])]
    ctx.assumptions += ['the abstract evaluation of emitter code (M6) and the summariser (M5) are faithful; idioms outside the enumerated set are reported as not evaluable',
                        'IEEE 1364-2005 section 5 sizing rules as encoded in hv/vlog.py']
