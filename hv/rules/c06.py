"""C06 - wire values always fit their declared width.

C06.a  every store to value/next inside the Wire class hierarchy is a masked
       store (x & (2^width-1), x % 2^width), the constant 0, or a copy of `next`;
C06.b  nothing outside the Wire hierarchy stores to value/next of a wire;
C06.c  width is stored only in the constructors of the hierarchy;
C06.d  get() returns the stored value (or a masked expression).
"""
import ast

from ..facts import iter_functions, is_self_attr
from ..srcmap import norm
from ..wiretype import WireTyper

LEVEL_TEXT = ('Static who-may-write and dataflow rules deciding the invariant 0 <= value < 2^width '
              'for every reachable state: initial store 0, every later store masked, no foreign writer.')

STATE = ('value', 'next')


def defs_of(fn, name):
    out = []
    for n in ast.walk(fn):
        if isinstance(n, ast.Assign):
            for t in n.targets:
                if isinstance(t, ast.Name) and t.id == name:
                    out.append(n.value)
        elif isinstance(n, ast.AugAssign) and isinstance(n.target, ast.Name) and n.target.id == name:
            out.append(None)
        elif isinstance(n, ast.AnnAssign) and isinstance(n.target, ast.Name) and n.target.id == name:
            out.append(n.value)
    return out


class MaskAlg:
    def __init__(self, facts, cinfo, fn):
        self.facts = facts
        self.c = cinfo
        self.fn = fn
        self.at = None       # statement under analysis (for reaching definitions)
        self._paths = None

    def all_defs(self, name, pred, depth):
        """pred must hold for every definition of `name` reaching the statement under analysis
        (path-sensitive: the latest binding on every structured path); a parameter that
        reaches un-rebound is an arbitrary integer."""
        params = {a.arg for a in self.fn.args.args + self.fn.args.kwonlyargs}
        ds = self.reaching(name)
        if ds is None:
            ds = defs_of(self.fn, name)
            if name in params:
                return False
        if not ds:
            return False
        return all(d is not None and d != 'PARAM' and pred(d, depth + 1) for d in ds)

    def reaching(self, name):
        if self.at is None:
            return None
        from ..cfg import fn_paths
        if self._paths is None:
            self._paths = fn_paths(self.fn)
        out = []
        found = False
        for evs, _ in self._paths:
            idx = [i for i, ev in enumerate(evs) if ev.node is self.at]
            for i in idx:
                found = True
                d = 'PARAM'
                for ev in reversed(evs[:i]):
                    n = ev.node
                    if ev.kind == 'stmt' and isinstance(n, ast.Assign) and any(
                            isinstance(t, ast.Name) and t.id == name for t in n.targets):
                        d = n.value
                        break
                    if ev.kind == 'stmt' and isinstance(n, ast.AugAssign) and isinstance(n.target, ast.Name) \
                            and n.target.id == name:
                        d = None
                        break
                    if ev.kind == 'loop' and isinstance(n, ast.For) and any(
                            isinstance(x, ast.Name) and x.id == name for x in ast.walk(n.target)):
                        d = None
                        break
                if not any(d is o for o in out):
                    out.append(d)
        return out if found else None

    def is_width(self, e, depth=0):
        if depth > 6:
            return False
        if is_self_attr(e, 'width'):
            return True
        if isinstance(e, ast.Call) and isinstance(e.func, ast.Attribute) and is_self_attr(e.func.value) is False:
            pass
        if (isinstance(e, ast.Call) and isinstance(e.func, ast.Attribute) and e.func.attr == 'getWidth'
                and isinstance(e.func.value, ast.Name) and e.func.value.id == 'self' and not e.args):
            m = self.facts.lookup(self.c, 'getWidth')
            return m is not None and all(isinstance(r, ast.Return) and r.value is not None and is_self_attr(r.value, 'width')
                                         for r in ast.walk(m) if isinstance(r, ast.Return))
        if isinstance(e, ast.Name):
            return self.all_defs(e.id, self.is_width, depth)
        return False

    def is_pow2w(self, e, depth=0):
        if depth > 6:
            return False
        if isinstance(e, ast.BinOp):
            if isinstance(e.op, ast.LShift) and isinstance(e.left, ast.Constant) and e.left.value == 1:
                return self.is_width(e.right, depth)
            if isinstance(e.op, ast.Pow) and isinstance(e.left, ast.Constant) and e.left.value == 2:
                return self.is_width(e.right, depth)
        if isinstance(e, ast.Call) and isinstance(e.func, ast.Name) and e.func.id == 'pow' and len(e.args) == 2:
            return isinstance(e.args[0], ast.Constant) and e.args[0].value == 2 and self.is_width(e.args[1], depth)
        if isinstance(e, ast.Name):
            return self.all_defs(e.id, self.is_pow2w, depth)
        return False

    def is_mask(self, e, depth=0):
        if depth > 6:
            return False
        if isinstance(e, ast.BinOp):
            if isinstance(e.op, ast.Sub) and isinstance(e.right, ast.Constant) and e.right.value == 1:
                return self.is_pow2w(e.left, depth)
            if isinstance(e.op, ast.Add) and isinstance(e.right, ast.UnaryOp) and isinstance(e.right.op, ast.USub) \
                    and isinstance(e.right.operand, ast.Constant) and e.right.operand.value == 1:
                return self.is_pow2w(e.left, depth)
        if isinstance(e, ast.UnaryOp) and isinstance(e.op, ast.Invert):
            x = e.operand
            # ~(-1 << W)
            if isinstance(x, ast.BinOp) and isinstance(x.op, ast.LShift):
                l = x.left
                if isinstance(l, ast.UnaryOp) and isinstance(l.op, ast.USub) and isinstance(l.operand, ast.Constant) \
                        and l.operand.value == 1:
                    return self.is_width(x.right, depth)
        if isinstance(e, ast.Name):
            return self.all_defs(e.id, self.is_mask, depth)
        if isinstance(e, ast.Call) and isinstance(e.func, ast.Name) and len(e.args) == 1 and not e.keywords and self.is_width(e.args[0], depth):
            return self.mask_helper(e.func.id)
        return False

    def mask_helper(self, fname):
        """`f(width)` where f is a module-level function of the same file: f is evaluated (constant propagation over its table / arithmetic) for every
        width 1..130, twice (a helper may memoise); it is a mask helper iff f(w) == 2**w - 1 for all of them.  A mismatch is remembered as the witness."""
        fn = self.facts.functions.get((self.c.rel, fname))
        if fn is None:
            return False
        key = (self.c.rel, fname)
        if key not in MASK_HELPERS:
            from ..elab import Elab, ElabError, ElabRaise, PyExc
            res = True
            try:
                el = Elab(self.facts)
                for rnd in range(2):
                    for w in list(range(1, 131)) + [256, 512, 1024]:
                        v = el.call_function(fn, None, [w], {}, rel=self.c.rel)
                        if v != (1 << w) - 1:
                            res = dict(helper=fname, width=w, returns=hex(v) if isinstance(v, int) else repr(v), expected=hex((1 << w) - 1))
                            break
                    if res is not True:
                        break
            except (ElabError, ElabRaise, PyExc, RecursionError) as ex:
                res = None
            MASK_HELPERS[key] = res
        return MASK_HELPERS[key] is True

    def is_masked(self, e, depth=0, allow_next=False):
        """expression value is certainly within [0, 2^width)"""
        if depth > 6:
            return False
        if isinstance(e, ast.Constant) and e.value == 0 and not isinstance(e.value, bool):
            return True
        if allow_next and is_self_attr(e, 'next'):
            return True
        if is_self_attr(e, 'value') or is_self_attr(e, 'next'):
            return True     # already-stored state (invariant, by induction over stores)
        if isinstance(e, ast.BinOp):
            if isinstance(e.op, ast.BitAnd):
                return self.is_mask(e.left, depth) or self.is_mask(e.right, depth) \
                    or self.is_masked(e.left, depth + 1) and self._nonneg(e.right) \
                    or self.is_masked(e.right, depth + 1) and self._nonneg(e.left)
            if isinstance(e.op, ast.Mod):
                return self.is_pow2w(e.right, depth)
        if isinstance(e, ast.IfExp):
            return self.is_masked(e.body, depth + 1) and self.is_masked(e.orelse, depth + 1)
        if isinstance(e, ast.Name):
            return self.all_defs(e.id, self.is_masked, depth)
        if isinstance(e, ast.Call):
            f = e.func
            if isinstance(f, ast.Name) and f.id == 'int' and len(e.args) == 1:
                return self.is_masked(e.args[0], depth + 1)
            if isinstance(f, ast.Attribute) and isinstance(f.value, ast.Name) and f.value.id == 'self':
                m = self.facts.lookup(self.c, f.attr)
                if m is not None and m is not self.fn:
                    rets = [r for r in ast.walk(m) if isinstance(r, ast.Return)]
                    sub = MaskAlg(self.facts, self.c, m)
                    return bool(rets) and all(r.value is not None and sub.is_masked(r.value, depth + 1) for r in rets)
        return False

    def _nonneg(self, e):
        # x & y with y masked is masked for every integer x (two's complement and)
        return True


MASK_HELPERS = {}


def wrong_helper(rel, e):
    for n in ast.walk(e):
        if isinstance(n, ast.Call) and isinstance(n.func, ast.Name) and isinstance(MASK_HELPERS.get((rel, n.func.id)), dict):
            return MASK_HELPERS[(rel, n.func.id)]
    return None


def has_unknown_call(e):
    for n in ast.walk(e):
        if isinstance(n, ast.Call):
            f = n.func
            if isinstance(f, ast.Name) and f.id in ('int', 'pow', 'abs', 'min', 'max', 'len'):
                continue
            if isinstance(f, ast.Attribute) and f.attr == 'getWidth':
                continue
            return True
    return False


def wire_hierarchy(facts):
    out = []
    for lst in facts.classes.values():
        for c in lst:
            if c.name in ('Wire',) or any(k.name == 'Wire' for k in facts.mro(c)):
                if c.rel.startswith('py4hw/'):
                    out.append(c)
    return sorted(out, key=lambda c: (c.rel, c.name))


def check_hierarchy(ctx, facts):
    """C06.a, C06.c, C06.d"""
    wh = wire_hierarchy(facts)
    names = {c.name for c in wh}
    if 'Wire' not in names:
        ctx.error('C06.a', 'anchor class base.Wire not found')
        return wh
    nstores = 0
    for c in wh:
        # class-level defaults of the state attributes are read by every instance that has not stored yet: same obligation
        for st in c.node.body:
            if isinstance(st, ast.Assign) and any(isinstance(t, ast.Name) and t.id in STATE for t in st.targets):
                nm = [t.id for t in st.targets if isinstance(t, ast.Name) and t.id in STATE][0]
                if isinstance(st.value, ast.Constant) and (st.value.value == 0 or st.value.value is None) and not isinstance(st.value.value, bool):
                    ctx.ok('C06.a', '%s:class-level:%s' % (c.name, nm), 'class-level default is 0 / None')
                else:
                    ctx.violation('C06.a', '%s:class-level:%s' % (c.name, nm), 'class-level default `%s` of a wire state attribute is not inside [0, 2^width): it becomes the value of the wire '
                                  'when that state is copied (value := next)' % norm(st), '%s:%s' % (c.rel, c.name), witness=dict(default=norm(st.value)))
        for mname, m in c.methods.items():
            alg = MaskAlg(facts, c, m)
            for n in ast.walk(m):
                targets = []
                val = None
                aug = None
                if isinstance(n, ast.Assign):
                    targets, val = n.targets, n.value
                elif isinstance(n, ast.AugAssign):
                    targets, val, aug = [n.target], n.value, n.op
                elif isinstance(n, ast.AnnAssign) and n.value is not None:
                    targets, val = [n.target], n.value
                for t in targets:
                    for x in ([t] if not isinstance(t, ast.Tuple) else t.elts):
                        if isinstance(x, ast.Attribute) and isinstance(x.value, ast.Name) and x.value.id != 'self' and x.attr in STATE:
                            # a store to the state of ANOTHER wire object from inside the wire classes (e.g. `w.next = ...` in a class-level loop): same obligation
                            nstores += 1
                            key = '%s.%s:%s.%s' % (c.name, mname, x.value.id, x.attr)
                            where = '%s:%s.%s' % (c.rel, c.name, mname)
                            if isinstance(val, ast.Constant) and val.value == 0 and not isinstance(val.value, bool):
                                ctx.ok('C06.a', key, 'store of the constant 0')
                            else:
                                ctx.violation('C06.a', key, 'store `%s` writes the state of a wire without reducing the value modulo 2^width (a later copy value := next makes it observable)'
                                              % norm(n), where, witness=dict(stored_expression=norm(val), example='the stored value is outside [0, 2^width) for a 1-bit wire'))
                            continue
                        if not (isinstance(x, ast.Attribute) and isinstance(x.value, ast.Name)
                                and x.value.id == 'self'):
                            continue
                        where = '%s:%s.%s' % (c.rel, c.name, mname)
                        alg.at = n
                        if x.attr in STATE:
                            nstores += 1
                            key = '%s.%s:%s' % (c.name, mname, x.attr)
                            if isinstance(t, ast.Tuple):
                                ctx.error('C06.a', 'tuple store to wire state in %s not recognised' % where)
                                continue
                            if aug is not None:
                                if isinstance(aug, ast.BitAnd) and alg.is_masked(val):
                                    ctx.ok('C06.a', key, 'and-assign with masked value')
                                else:
                                    ctx.violation('C06.a', key, 'augmented store `%s` to wire state is not a masked store'
                                                  % norm(n), where, witness=dict(width=1, val=2))
                                continue
                            if alg.is_masked(val, allow_next=(x.attr == 'value')):
                                ctx.ok('C06.a', key, 'store `%s` is masked / constant 0 / copy of masked state' % norm(n))
                                ctx.sample(dict(rule='C06.a', site=where, store=norm(n), verdict='masked'))
                            elif wrong_helper(c.rel, val):
                                ctx.violation('C06.a', key, 'store `%s` masks with a helper that does not return 2^width - 1 for every width' % norm(n), where,
                                              witness=wrong_helper(c.rel, val))
                            elif has_unknown_call(val):
                                ctx.error('C06.a', 'store `%s` in %s goes through a call the mask analysis cannot see'
                                          % (norm(n), where))
                            else:
                                ctx.violation('C06.a', key,
                                              'store `%s` does not reduce the value modulo 2^width' % norm(n),
                                              where, witness=dict(width=1, stored_expression=norm(val),
                                                                  example='val=2 (or -1) leaves a value outside [0,2)'))
                        elif x.attr == 'width':
                            key = '%s.%s:width' % (c.name, mname)
                            if mname == '__init__':
                                # must be preceded by the isinstance(width,int) assertion when storing a parameter
                                ok = True
                                if isinstance(val, ast.Name):
                                    ok = any(isinstance(a, ast.Assert) and 'isinstance' in norm(a.test)
                                             and val.id in norm(a.test) and 'int' in norm(a.test)
                                             for a in m.body if a.lineno < n.lineno)
                                if ok:
                                    ctx.ok('C06.c', key, 'width stored once in the constructor after the int assertion')
                                else:
                                    ctx.violation('C06.c', key, 'width stored in constructor without the isinstance(width,int) assertion',
                                                  where)
                            else:
                                ctx.violation('C06.c', key, 'width of a wire is re-assigned outside the constructor: `%s`' % norm(n), where)
        # C06.d get
        g = c.methods.get('get')
        if g is not None:
            alg = MaskAlg(facts, c, g)
            rets = [r for r in ast.walk(g) if isinstance(r, ast.Return)]
            key = '%s.get' % c.name
            if rets and all(r.value is not None and (is_self_attr(r.value, 'value') or alg.is_masked(r.value)) for r in rets):
                ctx.ok('C06.d', key, 'get() returns the stored value')
            else:
                ctx.violation('C06.d', key, 'get() does not return the stored (masked) value: %s'
                              % '; '.join(norm(r) for r in rets), '%s:%s.get' % (c.rel, c.name),
                              witness=dict(note='observed value differs from the masked state'))
        gw = c.methods.get('getWidth')
        if gw is not None:
            rets = [r for r in ast.walk(gw) if isinstance(r, ast.Return)]
            if rets and all(r.value is not None and is_self_attr(r.value, 'width') for r in rets):
                ctx.ok('C06.d', '%s.getWidth' % c.name, 'getWidth() returns the declared width')
            else:
                ctx.violation('C06.d', '%s.getWidth' % c.name, 'getWidth() does not return the declared width: %s'
                              % '; '.join(norm(r) for r in rets), '%s:%s.getWidth' % (c.rel, c.name))
    ctx.floor('C06.a', 'stores to value/next in the Wire hierarchy', nstores, 4)   # a subclass may inherit instead of repeating the mutators
    return wh


def foreign_stores(facts, wh):
    """C06.b / C06.c outside the hierarchy: list of (rel, qual, stmt, attr)"""
    whn = {(c.rel, c.name) for c in wh}
    out = []
    nfun = 0
    untyped = []
    for rel, c, fn in iter_functions(facts):
        if c is not None and (c.rel, c.name) in whn:
            continue
        nfun += 1
        ports = {}
        if c is not None and facts.is_logic(c):
            ports, _ = facts.ports(c)
        ty = WireTyper(fn, ports)
        for n in ast.walk(fn):
            tg = []
            if isinstance(n, ast.Assign):
                tg = n.targets
            elif isinstance(n, (ast.AugAssign, ast.AnnAssign)):
                tg = [n.target]
            elif isinstance(n, ast.Delete):
                tg = n.targets
            elif isinstance(n, ast.Call) and isinstance(n.func, ast.Name) and n.func.id == 'setattr' and len(n.args) >= 2:
                if isinstance(n.args[1], ast.Constant) and n.args[1].value in STATE + ('width',) and ty.is_wire(n.args[0]):
                    out.append((rel, (c.name + '.' if c else '') + fn.name, n, n.args[1].value))
                continue
            for t in tg:
                for x in ast.walk(t):
                    if isinstance(x, ast.Attribute) and isinstance(x.ctx, (ast.Store, ast.Del)) \
                            and x.attr in STATE + ('width',):
                        if isinstance(x.value, ast.Name) and x.value.id == 'self':
                            continue
                        if ty.is_wire(x.value):
                            out.append((rel, (c.name + '.' if c else '') + fn.name, n, x.attr))
                        else:
                            untyped.append('%s:%s `%s`' % (rel, fn.name, norm(t)))
    return out, nfun, untyped


CONTROL = ('py4hw/logic/bitwise.py', 'self.r.put(~self.a.get())', 'self.r.value = ~self.a.get()')


def run(ctx, sm, facts):
    ctx.rule('C06.a', 'every store to Wire/BidirWire value/next is masked to the width, constant 0 or a copy of next')
    ctx.rule('C06.b', 'no code outside the Wire hierarchy stores to value/next of a wire-typed expression')
    ctx.rule('C06.c', 'width is stored only in the constructors of the Wire hierarchy')
    ctx.rule('C06.d', 'get() returns the stored value')
    wh = check_hierarchy(ctx, facts)
    ctx.analysed['wire_hierarchy'] = ['%s:%s' % (c.rel, c.name) for c in wh]
    out, nfun, untyped = foreign_stores(facts, wh)
    ctx.analysed['functions_scanned_for_foreign_stores'] = nfun
    ctx.analysed['untyped_receivers_assumed_non_wire'] = untyped[:20]
    for rel, qual, n, attr in out:
        rule = 'C06.c' if attr == 'width' else 'C06.b'
        ctx.violation(rule, '%s:%s' % (qual, attr), 'direct store `%s` to a wire\'s %s bypasses the masking writers'
                      % (norm(n), attr), '%s:%s' % (rel, qual), witness=dict(width=1, note='any value >= 2 or < 0'))
    if not out:
        ctx.ok('C06.b', 'no-foreign-store', '%d functions outside the Wire hierarchy scanned, none stores to wire state' % nfun)
    # planted positive control (expected count on a healthy tree is zero)
    rel, old, new = CONTROL
    if sm.has(rel) and old in sm.text(rel):
        from ..facts import Facts
        sm2 = sm.with_overlay({rel: sm.text(rel).replace(old, new, 1)})
        f2 = Facts(sm2, rels=[rel, 'py4hw/base.py'])
        o2, _, _ = foreign_stores(f2, wire_hierarchy(f2))
        ctx.control('C06.b', any(a == 'value' for _, _, _, a in o2), 'Not.propagate storing self.r.value directly')
    else:
        # synthetic control on a stand-alone fragment
        import textwrap
        frag = textwrap.dedent('''
            class Logic: pass
            class X(Logic):
                def __init__(self, parent, name, a, r):
                    self.a = self.addIn('a', a)
                    self.r = self.addOut('r', r)
                def propagate(self):
                    self.r.value = self.a.get()
        ''')
        from ..facts import Facts
        sm2 = sm.with_overlay({'py4hw/_control.py': frag})
        f2 = Facts(sm2, rels=['py4hw/_control.py', 'py4hw/base.py'])
        o2, _, _ = foreign_stores(f2, wire_hierarchy(f2))
        ctx.control('C06.b', any(a == 'value' for _, _, _, a in o2), 'synthetic block storing self.r.value directly')
    ctx.not_decided.append('nothing: initial store 0 + every later store masked + no foreign writer decides the invariant '
                           'for every reachable state, given Python attribute semantics (no setattr/__dict__ tricks on untyped receivers)')
    ctx.assumptions.append('receivers that cannot be typed as wires by local evidence are assumed not to be wires (listed in evidence)')


SELFVAL = [
    dict(name='drop mask in Wire.prepare', file='py4hw/base.py',
         old='        self.next = val & mask\n        Wire.prepared.append(self)\n        \n    def settle(self):\n        self.value = self.next\n        \n    def get(self) -> int:\n        return self.value\n    \n    def setSource',
         new='        self.next = val\n        Wire.prepared.append(self)\n        \n    def settle(self):\n        self.value = self.next\n        \n    def get(self) -> int:\n        return self.value\n    \n    def setSource',
         expect='C06.a'),
    dict(name='mask off by one in BidirWire.put', file='py4hw/base.py',
         old='    def put(self, val:int):\n        mask = (1<<self.width) -1\n        self.value = val & mask\n\n    def prepare(self, val:int):\n        mask = (1<<self.width) -1\n        self.next = val & mask\n        Wire.prepared.append(self)\n        \n    def settle(self):\n        self.value = self.next\n        \n    def get(self) -> int:\n        return self.value\n    \n    def addSource',
         new='    def put(self, val:int):\n        mask = (1<<self.width)\n        self.value = val & mask\n\n    def prepare(self, val:int):\n        mask = (1<<self.width) -1\n        self.next = val & mask\n        Wire.prepared.append(self)\n        \n    def settle(self):\n        self.value = self.next\n        \n    def get(self) -> int:\n        return self.value\n    \n    def addSource',
         expect='C06.a'),
    dict(name='Constant writes value directly', file='py4hw/logic/bitwise.py',
         old='        self.r.put(self.value)', new='        self.r.value = self.value', expect='C06.b'),
    dict(name='refactor: mask via modulo', file='py4hw/base.py',
         old='    def put(self, val:int):\n        mask = (1<<self.width) -1\n        self.value = val & mask\n\n    def prepare(self, val:int):\n        if',
         new='    def put(self, val:int):\n        self.value = val % (1 << self.width)\n\n    def prepare(self, val:int):\n        if',
         expect=None),
    dict(name='refactor: helper method computing the mask', file='py4hw/base.py',
         old='    def put(self, val:int):\n        mask = (1<<self.width) -1\n        self.value = val & mask\n\n    def prepare(self, val:int):\n        if',
         new='    def _fit(self, val):\n        return val & ((1 << self.width) - 1)\n\n    def put(self, val:int):\n        self.value = self._fit(val)\n\n    def prepare(self, val:int):\n        if',
         expect=None),
]


def selfval(ctx, sm):
    from ..selfval import run_selfval
    run_selfval(ctx, sm, run, SELFVAL)
