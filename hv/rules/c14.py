"""C14 - fixed-point blocks agree with exact scaled-integer arithmetic.

The formats are parameters of the blocks, so - unlike the single-precision blocks of C13 - the statement can be decided
exhaustively for small formats, with the method of C07/C08:

C14.a  FixedPointAdd / Sub / Sign / Mult / Comparator are elaborated from their constructors for every format of a grid
       (sign + integer + fraction bits, total width <= 5 (6 thorough); mixed operand / result formats for the
       multiplier) and the netlist, evaluated through the leaf summaries, is compared with exact integer arithmetic on
       the decoded operands for EVERY pair of operand encodings (most negative value and full-width products included);
       the comparator is compared on every pair whose difference is representable (the property's domain);
C14.b  the constructors refuse what they do not implement (mixed formats in add / sub) instead of computing something else;
C14.c  no undefined name / never-assigned attribute in arithmetic_fxp.py.
"""
from ..leafrules import definite_failures
from ..structrules import run_specs

LEVEL_TEXT = ('Static extraction + finite-domain equivalence: the fixed-point blocks are elaborated for every format of a grid of small formats and the '
              'resulting netlists (leaf summaries) are compared with exact integer arithmetic over all pairs of operand encodings; larger formats are not decided.')
FXP = 'py4hw/logic/arithmetic_fxp.py'


def refusals(ctx, facts):
    from ..elab import ElabError, ElabRaise, PyExc
    from ..netlist import Design, NetError
    for cn in ('FixedPointAdd', 'FixedPointSub'):
        try:
            D = Design(facts)
            D.make(cn, 'dut', D.wire('a', 3), (1, 1, 1), D.wire('b', 4), (1, 2, 1), D.wire('r', 4), (1, 2, 1), rel=FXP)
        except ElabRaise:
            ctx.ok('C14.b', cn, 'operands of different formats are refused (not implemented) rather than added as raw encodings')
            continue
        except (ElabError, NetError, PyExc) as e:
            ctx.ok('C14.b', cn, 'mixed-format construction is outside the interpreted subset (%s)' % str(e)[:60], grade='refused')
            continue
        ctx.violation('C14.b', cn, '%s accepts operands of different fixed-point formats although it adds the raw encodings (binary points are not aligned)' % cn, '%s:%s.__init__' % (FXP, cn),
                      witness=dict(a_format=(1, 1, 1), b_format=(1, 2, 1)))


def helper_clause(ctx, facts, RULE='C14.d'):
    """C14.d: the software reference (FixedPoint.add / sub / mult of helper.py).  The value stored into the result's raw encoding is extracted
    as a pure integer function of the operands' raw encodings and the format (sign-extension helper inlined), summarised symbolically and
    compared with exact arithmetic over every format of the grid and every pair of encodings."""
    import ast
    from ..inline import inline_function
    from ..ireval import Cfg, ev, EvalError, Nondet
    from ..specs import FXP_FORMATS, sgn, m
    from ..srcmap import norm
    from ..summ import NotSummarisable, show
    from .c12 import fn_summary
    HELPER = 'py4hw/helper.py'
    c = facts.cls('FixedPoint', HELPER, required=False)
    if c is None:
        ctx.error(RULE, 'anchor class FixedPoint not found')
        return
    refs = dict(add=lambda a, b, f: (sgn(a, sum(f)) + sgn(b, sum(f))) & m(sum(f)),
                sub=lambda a, b, f: (sgn(a, sum(f)) - sgn(b, sum(f))) & m(sum(f)),
                mult=lambda a, b, f: ((sgn(a, sum(f)) * sgn(b, sum(f))) >> f[2]) & m(sum(f)))
    for mn, ref in refs.items():
        meth = c.methods.get(mn)
        where = '%s:FixedPoint.%s' % (HELPER, mn)
        if meth is None or len(meth.args.args) < 2:
            ctx.error(RULE, 'anchor FixedPoint.%s not found' % mn)
            continue
        other = meth.args.args[1].arg
        res = None
        body = []
        for st in meth.body:
            if isinstance(st, ast.Assign) and len(st.targets) == 1:
                t = st.targets[0]
                if isinstance(t, ast.Name) and isinstance(st.value, ast.Call) and norm(st.value.func) == 'FixedPoint':
                    res = t.id
                    continue
                body.append(st)

        class T(ast.NodeTransformer):
            def visit_Attribute(self, n):
                self.generic_visit(n)
                if isinstance(n.value, ast.Name) and n.value.id in ('self', other) and n.attr in ('v', 'sw', 'iw', 'fw'):
                    return ast.Name(id=(('a_v' if n.value.id == 'self' else 'b_v') if n.attr == 'v' else n.attr), ctx=n.ctx)
                if isinstance(n.value, ast.Name) and n.value.id == res and n.attr == 'v':
                    return ast.Name(id='res_v', ctx=n.ctx)
                return n
        try:
            if res is None:
                raise NotSummarisable('result object not found')
            stmts = [T().visit(ast.parse(ast.unparse(x)).body[0]) for x in body]
            fn = ast.FunctionDef(name='f', args=ast.arguments(posonlyargs=[], args=[ast.arg(arg=x) for x in ('a_v', 'b_v', 'sw', 'iw', 'fw')], kwonlyargs=[], kw_defaults=[], defaults=[]),
                                 body=stmts + [ast.Return(value=ast.Name(id='res_v', ctx=ast.Load()))], decorator_list=[], lineno=1, col_offset=0)
            ast.fix_missing_locations(fn)
            fn = inline_function(facts, None, fn, rel=HELPER, keep=(), force={'signExtend', 'c2_to_signed', 'signed_to_c2', 'sign'})
            ret = fn_summary(facts, fn, ['a_v', 'b_v', 'sw', 'iw', 'fw'])
            if ret is None:
                raise NotSummarisable('no value')
        except (NotSummarisable, SyntaxError, KeyError) as e:
            ctx.ok(RULE, 'FixedPoint.%s' % mn, 'the stored encoding is not extractable as a pure function of the operand encodings (%s): not decided' % str(e)[:80], grade='refused')
            continue
        bad = None
        n = 0
        for f in FXP_FORMATS + [(1, 2, 3), (1, 3, 2)]:
            w = sum(f)
            for a in range(1 << w):
                for b in range(1 << w):
                    try:
                        got = ev(ret, Cfg(), dict(a_v=a, b_v=b, sw=f[0], iw=f[1], fw=f[2]))
                    except (EvalError, Nondet) as e:
                        bad = dict(format=f, a=a, b=b, error=str(e))
                        break
                    n += 1
                    if got != ref(a, b, f):
                        bad = dict(format=f, a_encoding=a, b_encoding=b, a_value='%d/2^%d' % (sgn(a, w), f[2]), b_value='%d/2^%d' % (sgn(b, w), f[2]), helper=got, exact=ref(a, b, f))
                        break
                if bad:
                    break
            if bad:
                break
        if bad:
            ctx.violation(RULE, 'FixedPoint.%s' % mn, 'the software reference FixedPoint.%s does not return the exact result reduced to the format (products: truncated towards minus infinity like the hardware block)' % mn,
                          where, witness=bad)
        else:
            ctx.ok(RULE, 'FixedPoint.%s' % mn, '%d operand pairs over %d formats agree with exact arithmetic; summary: %s' % (n, len(FXP_FORMATS) + 2, show(ret)[:100]), grade='bounded')


def run(ctx, sm, facts):
    ctx.rule('C14.d', 'FixedPoint.add / sub / mult (software reference): extracted encoding function == exact arithmetic over the format grid and all operand pairs')
    helper_clause(ctx, facts)
    ctx.rule('C14.a', 'elaborated fixed-point netlists == exact scaled-integer arithmetic over all operand pairs of every format of the grid')
    ctx.rule('C14.b', 'unsupported format combinations are refused')
    ctx.rule('C14.c', 'no undefined name / never-assigned attribute in arithmetic_fxp.py')
    run_specs(ctx, facts, 'C14', 'C14.a', ctx.tier, ctx.seed, floor=5)
    refusals(ctx, facts)
    definite_failures(ctx, facts, sm, 'C14.c', [FXP])
    ctx.rule('C14.f', 'operand purity of the software reference: FixedPoint.add / sub / mult never mutate self, the argument or an alias (x.sub(x), an operand used again)')
    from .c12 import operand_purity
    operand_purity(ctx, facts, 'C14.f', ('FixedPoint',), 3)
    ctx.rule('C14.e', 'instance isolation: no mutable default / class-level container / memoised method in arithmetic_fxp.py, arithmetic.py (the blocks it is composed of) and relational.py')
    from ..leafrules import shared_instance_state
    shared_instance_state(ctx, facts, 'C14.e', [FXP, 'py4hw/logic/arithmetic.py', 'py4hw/logic/relational.py'])
    ctx.not_decided += ['formats wider than the grid (the blocks are width-generic compositions of Add / Sub / Mul / SignExtend / Range, themselves decided by C07 / C08 on their own grids)',
                        'FixedPointtoFP_SP (C13)']
    ctx.assumptions += ['elaborator and leaf summaries as in C07 / C08; reference = Python integer arithmetic on the sign-decoded encodings (hv/specs.py)']
