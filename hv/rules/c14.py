"""C14 - fixed-point blocks agree with exact scaled-integer arithmetic.

The formats are parameters of the blocks, so - unlike the single-precision blocks of C13 - the statement can be decided
exhaustively for small formats, with the method of C07/C08:

C14.a  FixedPointAdd / Sub / Sign / Mult / Comparator are elaborated from their constructors for every format of a grid
       (sign + integer + fraction bits, total width <= 5 (6 thorough); mixed operand / result formats for the
       multiplier) and the netlist, evaluated through the leaf summaries, is compared with exact integer arithmetic on
       the decoded operands for EVERY pair of operand encodings (most negative value and full-width products included);
       the comparator is compared on every pair whose difference is representable (the property's domain);
C14.b  the constructors refuse what they do not implement (mixed formats in add / sub) instead of computing something else;
C14.c  no undefined name / never-assigned attribute in arithmetic_fxp.py.
"""
from ..leafrules import definite_failures
from ..structrules import run_specs

LEVEL_TEXT = ('Static extraction + finite-domain equivalence: the fixed-point blocks are elaborated for every format of a grid of small formats and the '
              'resulting netlists (leaf summaries) are compared with exact integer arithmetic over all pairs of operand encodings; larger formats are not decided.')
FXP = 'py4hw/logic/arithmetic_fxp.py'


def refusals(ctx, facts):
    from ..elab import ElabError, ElabRaise, PyExc
    from ..netlist import Design, NetError
    for cn in ('FixedPointAdd', 'FixedPointSub'):
        try:
            D = Design(facts)
            D.make(cn, 'dut', D.wire('a', 3), (1, 1, 1), D.wire('b', 4), (1, 2, 1), D.wire('r', 4), (1, 2, 1), rel=FXP)
        except ElabRaise:
            ctx.ok('C14.b', cn, 'operands of different formats are refused (not implemented) rather than added as raw encodings')
            continue
        except (ElabError, NetError, PyExc) as e:
            ctx.ok('C14.b', cn, 'mixed-format construction is outside the interpreted subset (%s)' % str(e)[:60], grade='refused')
            continue
        ctx.violation('C14.b', cn, '%s accepts operands of different fixed-point formats although it adds the raw encodings (binary points are not aligned)' % cn, '%s:%s.__init__' % (FXP, cn),
                      witness=dict(a_format=(1, 1, 1), b_format=(1, 2, 1)))


def run(ctx, sm, facts):
    ctx.rule('C14.a', 'elaborated fixed-point netlists == exact scaled-integer arithmetic over all operand pairs of every format of the grid')
    ctx.rule('C14.b', 'unsupported format combinations are refused')
    ctx.rule('C14.c', 'no undefined name / never-assigned attribute in arithmetic_fxp.py')
    run_specs(ctx, facts, 'C14', 'C14.a', ctx.tier, ctx.seed, floor=5)
    refusals(ctx, facts)
    definite_failures(ctx, facts, sm, 'C14.c', [FXP])
    ctx.not_decided += ['formats wider than the grid (the blocks are width-generic compositions of Add / Sub / Mul / SignExtend / Range, themselves decided by C07 / C08 on their own grids)',
                        'the FixedPoint helper class of helper.py (see C12)', 'FixedPointtoFP_SP (C13)']
    ctx.assumptions += ['elaborator and leaf summaries as in C07 / C08; reference = Python integer arithmetic on the sign-decoded encodings (hv/specs.py)']
