"""Shared rules for C07 / C08 / C09 / C12: leaf contracts and definite-failure lints."""
import ast

from .blocks import Block, compare, summary_outputs
from .contracts import CONTRACTS, FORALL_CONTRACTS, contract_outputs
from .facts import is_self_attr
from .names import Names
from .srcmap import norm
from .summ import Summariser, NotSummarisable, show, showp

WIDTHS = {'quick': (1, 2, 3), 'thorough': (1, 2, 3, 4)}


def leaf_contracts(ctx, facts, rule, classes, tier, seed, floor):
    n = 0
    for cn in classes:
        c = facts.cls(cn, required=False)
        if c is None or 'propagate' not in c.methods:
            ctx.error(rule, 'anchor %s.propagate not found' % cn)
            continue
        if cn not in CONTRACTS and cn not in FORALL_CONTRACTS:
            ctx.error(rule, 'no contract entry for %s' % cn)
            continue
        n += 1
        where = '%s:%s.propagate' % (c.rel, cn)
        try:
            s = Summariser(facts, c).method(c.methods['propagate'])
        except NotSummarisable as e:
            if 'not a port attribute' in str(e):
                ctx.violation(rule, cn + ':cannot-run', 'propagate() cannot run: %s' % e, where,
                              witness=dict(note='AttributeError as soon as the block is simulated'))
            else:
                ctx.error(rule, '%s.propagate not summarisable: %s' % (cn, e))
            continue
        fl = float_dataflow(s)
        if fl:
            ctx.violation(rule, cn + ':float', '%s.propagate sends wire values through floating-point arithmetic (`%s`): a double carries 53 bits, so the result '
                          'is wrong for operands of 2^53 and more (wires may be wider)' % (cn, fl), where,
                          witness=dict(configuration='every port 64 bits wide', inputs=dict(a=(1 << 53) + 1, b=1), note='(2^53+1)/1 evaluates to 2^53 in double precision'))
            continue
        b = Block(facts, c)
        wide = (8, 33) if tier == 'thorough' else (8,)
        ncfg, nev, diffs = compare(b, lambda cfg, s=s: (lambda: summary_outputs(s, cfg)),
                                   lambda cfg, cn=cn: (lambda: contract_outputs(cn, cfg)),
                                   b.configs(widths=WIDTHS[tier], extra_wide=wide), seed=seed)
        if diffs:
            d = diffs[0]
            ctx.violation(rule, cn, '%s.propagate does not compute the documented function: %s' % (cn, d.kind), where, witness=d.as_dict())
        else:
            ctx.ok(rule, cn, '%d configurations, %d evaluations agree with the contract' % (ncfg, nev), grade='bounded')
            ctx.sample(dict(rule=rule, block=cn, summary=' ; '.join('%s := %s' % (showp(k), show(v)) for k, v in s.puts.items())[:200] or
                            ' ; '.join('forall %s: %s := %s' % (f[1].split('#')[0], showp(f[5]), show(f[6])) for f in s.foralls)[:200],
                            configurations=ncfg, evaluations=nev))
    ctx.floor(rule, 'leaf contracts', n, floor)


def float_dataflow(summary):
    """first floating-point operator in the output expressions of a summary (true division; float(), math.* calls kept as opaque calls)"""
    def walk(x):
        if isinstance(x, tuple):
            if len(x) >= 4 and x[0] == 'bin' and x[1] == '/':
                return 'a / b'
            if len(x) >= 2 and x[0] == 'call' and isinstance(x[1], str) and (x[1] in ('float',) or x[1].startswith('math.')):
                return x[1] + '(..)'
            for y in x:
                r = walk(y)
                if r:
                    return r
        elif isinstance(x, (list, dict)):
            for y in (x.values() if isinstance(x, dict) else x):
                r = walk(y)
                if r:
                    return r
        return None
    return walk([summary.puts, summary.prepares, [f for f in summary.foralls]])


BASE_ATTRS = {'parent', 'name', 'children', 'inPorts', 'outPorts', 'inOutPorts', 'sources', 'sinks', 'clockDriver', '_wires',
              'parameters', '__class__', '__dict__', '__doc__'}


def definite_failures(ctx, facts, sm, rule, rels, class_filter=None, func_filter=None):
    """undefined global names and reads of self attributes nobody assigns, in the anchored files"""
    names = Names(sm)
    nfun = 0
    for rel in rels:
        t = sm.try_tree(rel)
        if t is None:
            ctx.error(rule, 'anchored file %s does not parse' % rel)
            continue
        undefs = names.undefined_globals(rel)
        for q, ln, nm in undefs:
            top = q.split('.')[0]
            if class_filter and not class_filter(top):
                continue
            if func_filter and not func_filter(q):
                continue
            fn = find_func(t, q)
            if fn is not None and only_in_raise(fn, nm):
                continue
            ctx.violation(rule, '%s:%s' % (q, nm), 'name `%s` is not defined anywhere (NameError when this code runs)' % nm, '%s:%s' % (rel, q),
                          witness=dict(note='reached whenever %s executes the statement using `%s`' % (q, nm)))
        for lst in facts.classes.values():
            for c in lst:
                if c.rel != rel:
                    continue
                if class_filter and not class_filter(c.name):
                    continue
                known = facts.self_attrs_assigned(c) | BASE_ATTRS
                dyn = any(isinstance(x, ast.Call) and isinstance(x.func, ast.Name) and x.func.id in ('setattr',) for x in ast.walk(c.node)) \
                    or '__getattr__' in c.methods
                if dyn:
                    continue
                for mname, m in c.methods.items():
                    if func_filter and not func_filter('%s.%s' % (c.name, mname)):
                        continue
                    nfun += 1
                    if not m.args.args or m.args.args[0].arg != 'self':
                        continue
                    for x in ast.walk(m):
                        if is_self_attr(x) and isinstance(x.ctx, ast.Load) and x.attr not in known:
                            if any(isinstance(y, ast.Call) and isinstance(y.func, ast.Name) and y.func.id == 'hasattr' for y in ast.walk(m)):
                                continue
                            if inside_raise(x):
                                continue
                            ctx.violation(rule, '%s.%s:self.%s' % (c.name, mname, x.attr),
                                          '`self.%s` is read but no method of %s (or a base class) ever assigns it: AttributeError' % (x.attr, c.name),
                                          '%s:%s.%s' % (rel, c.name, mname), witness=dict(note='raised the first time %s.%s runs' % (c.name, mname)))
    ctx.analysed.setdefault('definite_failure_scan', {})[rule] = dict(files=list(rels), methods=nfun)
    if not any(v['rule'] == rule for v in ctx.violations):
        ctx.ok(rule, 'no-definite-failure', '%d methods scanned: every global name resolves, every self attribute read is assigned somewhere' % nfun)


def shared_instance_state(ctx, facts, rule, rels):
    """Instance isolation: the state of one block instance is not shared with another instance of the class.  Two shapes can share it and
    both are visible in the source: a mutable default argument of the constructor (evaluated once per process) that is stored into `self`
    or mutated, and a class-level mutable container that a method mutates through `self` / the class."""
    MUT = {'append', 'extend', 'insert', 'pop', 'remove', 'clear', 'update', 'setdefault', 'sort', 'reverse', 'add', 'discard', 'popitem'}
    ncls = 0
    found = False

    def mutable(e):
        return isinstance(e, (ast.List, ast.Dict, ast.Set, ast.ListComp, ast.DictComp, ast.SetComp)) or \
            (isinstance(e, ast.Call) and isinstance(e.func, ast.Name) and e.func.id in ('list', 'dict', 'set', 'bytearray', 'deque', 'defaultdict')) or \
            (isinstance(e, ast.BinOp) and isinstance(e.op, ast.Mult) and (mutable(e.left) or mutable(e.right)))
    for lst in facts.classes.values():
        for c in lst:
            if c.rel not in rels:
                continue
            ncls += 1
            for mname, fn in c.methods.items():
                a = fn.args
                pos = a.posonlyargs + a.args
                pairs = list(zip(pos[len(pos) - len(a.defaults):], a.defaults)) + [(p, d) for p, d in zip(a.kwonlyargs, a.kw_defaults) if d is not None]
                for prm, d in pairs:
                    if not mutable(d):
                        continue
                    name = prm.arg
                    # aliases of the parameter inside the method (x = param)
                    al = {name}
                    for n in ast.walk(fn):
                        if isinstance(n, ast.Assign) and isinstance(n.value, ast.Name) and n.value.id in al:
                            al.update(t.id for t in n.targets if isinstance(t, ast.Name))
                    rebinding = any(isinstance(n, ast.Assign) and any(isinstance(t, ast.Name) and t.id == name for t in n.targets)
                                    and not (isinstance(n.value, ast.Name) and n.value.id in al) for n in ast.walk(fn))
                    esc = None
                    for n in ast.walk(fn):
                        if isinstance(n, ast.Assign) and isinstance(n.value, ast.Name) and n.value.id in al and any(is_self_attr(t) for t in n.targets):
                            esc = 'stored into `%s`' % norm(n.targets[0])
                        elif isinstance(n, ast.Call) and isinstance(n.func, ast.Attribute) and n.func.attr in MUT and isinstance(n.func.value, ast.Name) \
                                and n.func.value.id in al:
                            esc = 'mutated by `%s`' % norm(n)[:60]
                        elif isinstance(n, ast.AugAssign) and isinstance(n.target, ast.Name) and n.target.id in al:
                            esc = 'mutated in place by `%s`' % norm(n)[:60]
                        elif isinstance(n, (ast.Assign, ast.AugAssign)) and any(isinstance(t, ast.Subscript) and isinstance(t.value, ast.Name) and t.value.id in al
                                                                               for t in (n.targets if isinstance(n, ast.Assign) else [n.target])):
                            esc = 'written by `%s`' % norm(n)[:60]
                        if esc:
                            break
                    if esc and not rebinding:
                        found = True
                        ctx.violation(rule, '%s.%s:default:%s' % (c.name, mname, name),
                                      'the mutable default `%s=%s` of %s.%s is one object for the whole process and is %s: every instance built without that '
                                      'argument shares it' % (name, norm(d)[:30], c.name, mname, esc), '%s:%s.%s' % (c.rel, c.name, mname),
                                      witness=dict(history='build two instances without `%s` (same or different designs); drive the first; the second shows its state' % name))
            # class-level containers mutated through self / the class
            for st in c.node.body:
                if isinstance(st, ast.Assign) and len(st.targets) == 1 and isinstance(st.targets[0], ast.Name) and mutable(st.value):
                    an = st.targets[0].id
                    for mname, fn in c.methods.items():
                        rebound = any(isinstance(n, ast.Assign) and any(is_self_attr(t, an) for t in n.targets) for m2 in c.methods.values() for n in ast.walk(m2))
                        if rebound:
                            continue
                        for n in ast.walk(fn):
                            hit = (isinstance(n, ast.Call) and isinstance(n.func, ast.Attribute) and n.func.attr in MUT and
                                   (is_self_attr(n.func.value, an) or norm(n.func.value) == '%s.%s' % (c.name, an))) or \
                                  (isinstance(n, ast.Assign) and any(isinstance(t, ast.Subscript) and (is_self_attr(t.value, an) or norm(t.value) == '%s.%s' % (c.name, an))
                                                                     for t in n.targets))
                            if hit and isinstance(n, ast.Assign):
                                # a registry filled with module-level names / literals (class -> symbol class) is the same for every instance: not state
                                local = {a.arg for a in fn.args.args} | {t.id for x in ast.walk(fn) if isinstance(x, (ast.Assign, ast.For, ast.AugAssign))
                                                                         for t in ast.walk(x.targets[0] if isinstance(x, ast.Assign) else x.target) if isinstance(t, ast.Name) and isinstance(t.ctx, ast.Store)}
                                parts = [t.slice for t in n.targets if isinstance(t, ast.Subscript)] + [n.value]
                                if all(isinstance(y, (ast.Name, ast.Constant)) and not (isinstance(y, ast.Name) and y.id in local) for y in parts):
                                    hit = False
                            if hit:
                                found = True
                                ctx.violation(rule, '%s.%s:class-level:%s' % (c.name, mname, an),
                                              'class-level container `%s.%s` is mutated by %s(): the state is shared by all instances' % (c.name, an, mname),
                                              '%s:%s.%s' % (c.rel, c.name, mname), witness=dict(history='two instances of %s in one process' % c.name))
                                break
    # memoising decorators: the result of one call (of one instance, one process history) answers a later call
    MEMO = ('lru_cache', 'cache', 'cached_property', 'memoize', 'memoized')
    for lst in facts.classes.values():
        for c in lst:
            if c.rel not in rels:
                continue
            for mname, fn in c.methods.items():
                for d in fn.decorator_list:
                    t = norm(d.func if isinstance(d, ast.Call) else d)
                    if t.split('.')[-1] in MEMO:
                        found = True
                        ctx.violation(rule, '%s.%s:memoised' % (c.name, mname), '%s.%s is memoised (`@%s`): arguments that compare equal but are not the same value (0.0 and -0.0, True and 1, equal-valued '
                                      'wires) share one cached result, and the cache outlives the instance' % (c.name, mname, t), '%s:%s.%s' % (c.rel, c.name, mname),
                                      witness=dict(history='call with one of two equal-comparing arguments, then with the other: the second call returns the result of the first'))
    for (rel, fname), fn in facts.functions.items():
        if rel in rels:
            for d in fn.decorator_list:
                t = norm(d.func if isinstance(d, ast.Call) else d)
                if t.split('.')[-1] in MEMO:
                    found = True
                    ctx.violation(rule, '%s:memoised' % fname, 'function %s is memoised (`@%s`)' % (fname, t), '%s:%s' % (rel, fname),
                                  witness=dict(history='two calls with equal-comparing but different arguments'))
    if not found:
        ctx.ok(rule, 'instance-isolation', '%d classes: no mutable default argument is stored or mutated, no class-level container is written through an instance' % ncls)
    return ncls


def caller_list_aliasing(ctx, facts, rule, rels):
    """A block describes the structure it built.  A constructor that keeps the caller's list object (`self.ins = ins`) instead of its own copy lets a later
    edit of that list by the caller change what the emitter / the schematic / a later propagate() reads, while the children built from it stay as they
    were.  List-like parameter = iterated, indexed, or passed to len / enumerate / zip in the constructor."""
    n = 0
    bad = False
    for lst in facts.classes.values():
        for c in lst:
            if c.rel not in rels:
                continue
            init = c.methods.get('__init__')
            if init is None:
                continue
            n += 1
            params = {a.arg for a in init.args.args[1:]}
            listy = set()
            for x in ast.walk(init):
                if isinstance(x, (ast.For, ast.comprehension)) and isinstance(x.iter, ast.Name) and x.iter.id in params:
                    listy.add(x.iter.id)
                if isinstance(x, ast.Call) and isinstance(x.func, ast.Name) and x.func.id in ('len', 'enumerate', 'zip', 'reversed') and x.args \
                        and isinstance(x.args[0], ast.Name) and x.args[0].id in params:
                    listy.add(x.args[0].id)
                if isinstance(x, ast.Subscript) and isinstance(x.value, ast.Name) and x.value.id in params:
                    listy.add(x.value.id)
            for x in ast.walk(init):
                if isinstance(x, ast.Assign) and isinstance(x.value, ast.Name) and x.value.id in listy and any(is_self_attr(t) for t in x.targets):
                    rebound = any(isinstance(m, ast.Assign) and any(isinstance(t, ast.Name) and t.id == x.value.id for t in m.targets) for m in ast.walk(init))
                    if not rebound:
                        bad = True
                        ctx.violation(rule, '%s:%s' % (c.name, x.value.id), '%s keeps the caller\'s list object (`%s`): if the caller edits the list afterwards, the text emitted for the block / what a later '
                                      'evaluation reads no longer matches the children that were built from it' % (c.name, norm(x)), '%s:%s.__init__' % (c.rel, c.name),
                                      witness=dict(history='ins = [a, b]; blk = %s(parent, name, ins, r); ins.append(c); generate Verilog / simulate' % c.name))
    if not bad:
        ctx.ok(rule, 'own-copy-of-list-arguments', '%d constructors: none stores a list-like argument without copying it' % n)
    return n


def find_func(tree, qual):
    parts = qual.split('.')
    node = tree
    for p in parts:
        nxt = None
        for ch in ast.walk(node):
            if isinstance(ch, (ast.FunctionDef, ast.ClassDef, ast.AsyncFunctionDef)) and ch.name == p and ch is not node:
                nxt = ch
                break
        if nxt is None:
            return None
        node = nxt
    return node


def inside_raise(x):
    n = getattr(x, '_parent', None)
    while n is not None:
        if isinstance(n, ast.Raise):
            return True
        n = getattr(n, '_parent', None)
    return False


def only_in_raise(fn, name):
    uses = [x for x in ast.walk(fn) if isinstance(x, ast.Name) and x.id == name]
    return bool(uses) and all(inside_raise(x) for x in uses)
