"""Leaf-block models: configuration enumeration, input grids, and the finite-domain
comparison of two extracted semantics (summary vs contract, summary vs emitted Verilog)."""
import ast
import itertools
import random

from . import vlog
from .emit import Emitter, EmitError, ConfigRefused
from .ireval import Cfg, ev, Nondet, EvalError, HOLDV
from .summ import Summariser, NotSummarisable, Env, show, showp, c as C


def mask(w):
    return (1 << w) - 1


# legal parameter domains of the library blocks (transcribed from the constructor docstrings /
# the property's quantifier); W = {port attr: width}, L = {list attr: arity}
DOMAINS = {
    'Bit': dict(attrs=lambda W, L: [dict(bit=b) for b in range(W['a'])]),
    'Range': dict(attrs=lambda W, L: [dict(high=h, low=l) for h in range(W['a']) for l in range(h + 1)]),
    'Constant': dict(attrs=lambda W, L: [dict(value=v) for v in sorted({0, 1, mask(W['r']), 1 << W['r'], 5, 300, -1, -3, (1 << W['r']) + 1})]),
    'ShiftLeftConstant': dict(params=lambda W, L: [dict(n=n) for n in range(0, max(W.values()) + 2)]),
    'ShiftRightConstant': dict(params=lambda W, L: [dict(n=n) for n in range(0, max(W.values()) + 2)]),
    'RotateLeftConstant': dict(attrs=lambda W, L: [dict(n=n) for n in range(0, W['a'] + 1)], wcons=lambda W, L: W['r'] == W['a']),
    'RotateRightConstant': dict(attrs=lambda W, L: [dict(n=n) for n in range(0, W['a'] + 1)], wcons=lambda W, L: W['r'] == W['a']),
    'SignExtend': dict(wcons=lambda W, L: W['r'] >= W['a']),
    'ZeroExtend': dict(wcons=lambda W, L: W['r'] >= W['a']),
    'BitsLSBF': dict(lists=lambda W: [dict(bits=[1] * W['a'])]),
    'BitsMSBF': dict(lists=lambda W: [dict(bits=[1] * W['a'])]),
    'EqualConstant': dict(attrs=lambda W, L: [dict(v=v) for v in range(0, 1 << W['a'])]),
    'Reg': dict(attrs=lambda W, L: [dict(reset_value=v) for v in (0, 1, 5)]),
}


class Block:
    def __init__(self, facts, cinfo):
        self.facts = facts
        self.c = cinfo
        self.ports, self.allports = facts.ports(cinfo)
        self.scalars = [a for a, d in self.ports.items() if not d[2] and not d[0].startswith('iface')]
        self.lists = [a for a, d in self.ports.items() if d[2]]
        self.ins = [a for a in self.scalars if self.ports[a][0] == 'in']
        self.outs = [a for a in self.scalars if self.ports[a][0] in ('out', 'inout')]
        self.guards = self.ctor_guards()
        self.optional = self.optional_ports()

    # -- constructor facts -------------------------------------------------
    def param_map(self):
        """constructor parameter -> port attr (self.a = self.addIn('a', a))"""
        init = self.facts.lookup(self.c, '__init__')
        pm = {}
        if init is None:
            return pm
        for n in ast.walk(init):
            if isinstance(n, ast.Call) and isinstance(n.func, ast.Attribute) and n.func.attr in ('addIn', 'addOut', 'addInOut') \
                    and len(n.args) >= 2 and isinstance(n.args[1], ast.Name):
                p = getattr(n, '_parent', None)
                while isinstance(p, ast.IfExp):        # self.e = None if enable is None else self.addIn('e', enable)
                    p = getattr(p, '_parent', None)
                if isinstance(p, ast.Assign) and len(p.targets) == 1:
                    t = p.targets[0]
                    if isinstance(t, ast.Attribute) and isinstance(t.value, ast.Name) and t.value.id == 'self':
                        pm[n.args[1].id] = t.attr
                    elif isinstance(t, ast.Name):
                        # rebound local later stored in self
                        for m in ast.walk(init):
                            if isinstance(m, ast.Assign) and isinstance(m.value, ast.Name) and m.value.id == t.id \
                                    and isinstance(m.targets[0], ast.Attribute) and isinstance(m.targets[0].value, ast.Name) \
                                    and m.targets[0].value.id == 'self':
                                pm[n.args[1].id] = m.targets[0].attr
                                pm[t.id] = m.targets[0].attr
        return pm

    def optional_ports(self):
        """port attrs created under `if not <param> is None` (absent -> attribute is None)"""
        init = self.facts.lookup(self.c, '__init__')
        out = []
        if init is None:
            return out
        for n in ast.walk(init):
            if isinstance(n, ast.Assign) and isinstance(n.value, ast.IfExp) and any(isinstance(x, ast.Constant) and x.value is None for x in (n.value.body, n.value.orelse)):
                for t in n.targets:
                    if isinstance(t, ast.Attribute) and isinstance(t.value, ast.Name) and t.value.id == 'self' and t.attr in self.ports:
                        out.append(t.attr)
            if isinstance(n, ast.If):
                for s in n.body + n.orelse:
                    if isinstance(s, ast.Assign) and isinstance(s.value, ast.Constant) and s.value.value is None:
                        for t in s.targets:
                            if isinstance(t, ast.Attribute) and isinstance(t.value, ast.Name) and t.value.id == 'self' and t.attr in self.ports:
                                out.append(t.attr)
        return sorted(set(out))

    def ctor_guards(self):
        """conditions over widths the constructor enforces: list of (ir-cond that must be TRUE, text)"""
        init = self.facts.lookup(self.c, '__init__')
        out = []
        if init is None:
            return out
        pm = self.param_map()
        S = Summariser(self.facts, self.c, ports=self.ports)
        env = Env()
        for p, attr in pm.items():
            if attr in self.ports and not self.ports[attr][2]:
                env.loc[p] = ('wire', ('p', attr))
        for s in init.body:
            try:
                if isinstance(s, ast.Assign) and len(s.targets) == 1 and isinstance(s.targets[0], ast.Name):
                    try:
                        env = S.assign(s.targets[0], s.value, env)
                    except NotSummarisable:
                        env.loc.pop(s.targets[0].id, None)
                elif isinstance(s, ast.Assert):
                    out.append((S.expr(s.test, env), ast.unparse(s.test)))
                elif isinstance(s, ast.If) and s.body and isinstance(s.body[-1], ast.Raise) and not s.orelse:
                    from .summ import neg
                    out.append((neg(S.expr(s.test, env)), 'not (%s)' % ast.unparse(s.test)))
            except NotSummarisable:
                continue
        return out

    # -- configurations ----------------------------------------------------
    def configs(self, widths=(1, 2, 3), arities=(1, 2, 3), elem_widths=(1, 2), limit=4000, extra_wide=()):
        dom = DOMAINS.get(self.c.name, {})
        scal = self.scalars
        opt_sets = [()]
        for o in self.optional:
            opt_sets = opt_sets + [s + (o,) for s in opt_sets]
        n = 0
        wsets = list(itertools.product(widths, repeat=len(scal)))
        for ww in extra_wide:
            wsets.append(tuple(ww for _ in scal))
        for absent in opt_sets:
            for ws in wsets:
                W = dict(zip(scal, ws))
                if 'lists' in dom:
                    lcfgs = dom['lists'](W)
                else:
                    lcfgs = [dict()]
                    for la in self.lists:
                        new = []
                        for base in lcfgs:
                            for ar in arities:
                                for ew in itertools.product(elem_widths, repeat=ar):
                                    d = dict(base)
                                    d[la] = list(ew)
                                    new.append(d)
                        lcfgs = new
                for lc in lcfgs:
                    L = {k: len(v) for k, v in lc.items()}
                    if 'wcons' in dom and not dom['wcons'](W, L):
                        continue
                    acfgs = dom['attrs'](W, L) if 'attrs' in dom else [dict()]
                    pcfgs = dom['params'](W, L) if 'params' in dom else [dict()]
                    for ac in acfgs:
                        for pc in pcfgs:
                            cfg = Cfg()
                            for a, w in W.items():
                                if a in absent:
                                    cfg.attr[a] = None
                                else:
                                    cfg.width[('p', a)] = w
                                    if a in self.optional:
                                        cfg.attr[a] = 'present'
                            for la, ews in lc.items():
                                cfg.plen[la] = len(ews)
                                for i, w in enumerate(ews):
                                    cfg.width[('pe', la, i)] = w
                            cfg.attr.update(ac)
                            cfg.param.update(pc)
                            ok = True
                            for g, txt in self.guards:
                                try:
                                    if not ev(g, cfg):
                                        ok = False
                                        break
                                except (EvalError, Nondet, KeyError):
                                    pass
                            if not ok:
                                continue
                            n += 1
                            if n > limit:
                                return
                            yield cfg

    def in_keys(self, cfg):
        ks = [('p', a) for a in self.ins if ('p', a) in cfg.width]
        for la in self.lists:
            if self.ports[la][0] == 'in':
                ks += [('pe', la, i) for i in range(cfg.plen[la])]
        return ks

    def out_keys(self, cfg):
        ks = [('p', a) for a in self.outs if ('p', a) in cfg.width]
        for la in self.lists:
            if self.ports[la][0] in ('out', 'inout'):
                ks += [('pe', la, i) for i in range(cfg.plen[la])]
        return ks

    def inputs(self, cfg, keys, max_bits=11, samples=96, seed=0):
        ws = [cfg.width[k] for k in keys]
        total = sum(ws)
        if total <= max_bits:
            for vals in itertools.product(*[range(1 << w) for w in ws]):
                yield dict(zip(keys, vals))
            return
        rnd = random.Random(seed * 7919 + total)
        corner = [[0, 1, mask(w), mask(w) - 1 if w > 1 else 0, 1 << (w - 1), (1 << (w - 1)) - 1 if w > 1 else 1] for w in ws]
        seen = set()
        for _ in range(samples):
            vals = tuple(rnd.choice(cs) if rnd.random() < 0.6 else rnd.randrange(1 << w) for cs, w in zip(corner, ws))
            if vals not in seen:
                seen.add(vals)
                yield dict(zip(keys, vals))


def cfg_text(cfg, vals=None):
    d = {}
    for k, w in sorted(cfg.width.items(), key=str):
        d['w(%s)' % showp(k if k[0] != 'pe' else ('pe', k[1], C(k[2])))] = w
    for k, v in cfg.attr.items():
        d['self.' + k] = v
    for k, v in cfg.param.items():
        d['param ' + k] = v
    if vals:
        for k, v in sorted(vals.items(), key=str):
            d[showp(k if k[0] != 'pe' else ('pe', k[1], C(k[2])))] = v
    return d


# ---------------------------------------------------------------------------
def summary_outputs(summ, cfg, kind='puts'):
    """evaluate a Summary under cfg (with values) -> {port key: masked value | HOLDV}"""
    out = {}
    d = summ.puts if kind == 'puts' else summ.prepares
    for pk, x in d.items():
        k = pk
        if pk[0] == 'pe':
            k = ('pe', pk[1], ev(pk[2], cfg))
        v = ev(x, cfg)
        if isinstance(v, float):
            v = int(v)
        out[k] = v if v is HOLDV else v & mask(cfg.width[k])
    for g, var, lo, hi, knd, pk, x in summ.foralls:
        if (knd == 'put') != (kind == 'puts'):
            continue
        if not ev(g, cfg):
            continue
        for i in range(ev(lo, cfg), ev(hi, cfg)):
            env = {var: i}
            k = ('pe', pk[1], ev(pk[2], cfg, env))
            if k not in cfg.width:
                raise EvalError('write to element %s that does not exist' % (k,))
            v = ev(x, cfg, env)
            out[k] = v if v is HOLDV else v & mask(cfg.width[k])
    return out


def verilog_assign_outputs(text, cfg, names, prev=None):
    """continuous-assign semantics of emitted text: {port key: value}; raises XValue"""
    items = parse_cached(text)
    env = {}
    for pk, nm in names.items():
        env[nm] = vlog.Sig(cfg.width[pk], cfg.val.get(pk, 0))
    rev = {nm: pk for pk, nm in names.items()}
    out = {}
    for it in items:
        if it[0] != 'assign':
            raise vlog.XValue('emitted item %s is not a continuous assignment' % it[0])
        lhs = it[1]
        if lhs[0] == 'slice':
            base = lhs[1][1]
            pk = rev.get(base)
            if pk is None:
                raise vlog.XValue('assignment to unknown net %s' % base)
            hi, lo = vlog.const_eval(lhs[2], env), vlog.const_eval(lhs[3], env)
            if lo != 0 or hi != cfg.width[pk] - 1:
                raise vlog.XValue('partial assignment %s[%d:%d]' % (base, hi, lo))
        elif lhs[0] == 'id':
            pk = rev.get(lhs[1])
            if pk is None:
                raise vlog.XValue('assignment to unknown net %s' % lhs[1])
        else:
            raise vlog.XValue('unsupported lvalue')
        if pk in out:
            raise vlog.XValue('net %s has two drivers' % names[pk])
        out[pk] = vlog.eval_assign(cfg.width[pk], it[2], env)
    return out


_PARSE_CACHE = {}


def parse_cached(text):
    if text not in _PARSE_CACHE:
        try:
            _PARSE_CACHE[text] = vlog.parse(text)
        except vlog.VParseError as e:
            _PARSE_CACHE[text] = e
    r = _PARSE_CACHE[text]
    if isinstance(r, Exception):
        raise r
    return r


class Mismatch:
    def __init__(self, kind, port, a, b, cfg, vals, extra=None):
        self.kind, self.port, self.a, self.b = kind, port, a, b
        self.cfg = cfg_text(cfg, vals)
        self.extra = extra

    def as_dict(self):
        d = dict(kind=self.kind, configuration_and_inputs=self.cfg)
        if self.port is not None:
            d['output'] = showp(self.port if self.port[0] != 'pe' else ('pe', self.port[1], C(self.port[2])))
            d['left'] = self.a
            d['right'] = self.b
        if self.extra:
            d.update(self.extra)
        return d


def compare(block, left, right, cfgs, seed=0, max_diffs=3, prev_values=False):
    """left/right: functions cfg -> (callable() -> {port: value|HOLDV}) evaluated per input vector on cfg.val.
    Returns (n_cfg, n_eval, [Mismatch])."""
    ncfg = nev = 0
    diffs = []
    for cfg in cfgs:
        ncfg += 1
        try:
            L = left(cfg)
            R = right(cfg)
        except ConfigRefused:
            ncfg -= 1
            continue
        except EmitError as e:
            raise
        except vlog.VParseError as e:
            diffs.append(Mismatch('emitted text does not parse: %s' % e, None, None, None, cfg, None))
            if len(diffs) >= max_diffs:
                break
            continue
        ink = block.in_keys(cfg)
        outk = block.out_keys(cfg)
        keys = ink + (outk if prev_values else [])
        cfg_bad = False
        for vals in block.inputs(cfg, keys, seed=seed):
            cfg.val = dict(vals)
            if not prev_values:
                for k in outk:
                    cfg.val.setdefault(k, 0)
            try:
                lo = L()
            except Nondet:
                continue
            except EvalError as e:
                diffs.append(Mismatch('left side fails: %s' % e, None, None, None, cfg, vals))
                cfg_bad = True
                break
            try:
                ro = R()
            except Nondet:
                continue
            except (EvalError, vlog.XValue) as e:
                diffs.append(Mismatch('right side is illegal / x: %s' % e, None, None, None, cfg, vals))
                cfg_bad = True
                break
            nev += 1
            for k in outk:
                a, b = lo.get(k, HOLDV), ro.get(k, HOLDV)
                if a is HOLDV:
                    a = cfg.val.get(k, 0)
                if b is HOLDV:
                    b = cfg.val.get(k, 0)
                if a != b:
                    diffs.append(Mismatch('outputs differ', k, a, b, cfg, vals))
                    cfg_bad = True
                    break
            if cfg_bad:
                break
        if len(diffs) >= max_diffs:
            break
    return ncfg, nev, diffs
