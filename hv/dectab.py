"""Decision-table extraction: which structured path does a function take under an
abstract scenario?  A scenario fixes the value of a few named sub-expressions
("atoms", keyed by normalised source text); branch tests are evaluated with
Python semantics over those atoms.  Anything a test mentions that is not an atom
makes the rule INCONCLUSIVE (Unknown) - never a guess."""
import ast

from .srcmap import norm


class Unknown(Exception):
    pass


class Crash(Exception):
    """the scenario makes the expression raise (e.g. attribute of None)"""


class Obj:
    """opaque non-None object"""

    def __init__(self, tag):
        self.tag = tag

    def __repr__(self):
        return '<%s>' % self.tag


def single_defs(fn_or_stmts):
    """name -> value expr for locals assigned exactly once (simple alias propagation)"""
    defs = {}
    count = {}
    nodes = fn_or_stmts if isinstance(fn_or_stmts, list) else [fn_or_stmts]
    for root in nodes:
        for n in ast.walk(root):
            if isinstance(n, ast.Assign) and len(n.targets) == 1 and isinstance(n.targets[0], ast.Name):
                nm = n.targets[0].id
                count[nm] = count.get(nm, 0) + 1
                defs[nm] = n.value
            elif isinstance(n, ast.AugAssign) and isinstance(n.target, ast.Name):
                count[n.target.id] = count.get(n.target.id, 0) + 2
            elif isinstance(n, (ast.For, ast.comprehension)):
                for x in ast.walk(n.target):
                    if isinstance(x, ast.Name):
                        count[x.id] = count.get(x.id, 0) + 2
    return {k: v for k, v in defs.items() if count.get(k) == 1}


def ev(e, atoms, alias=None, depth=0):
    alias = alias or {}
    if depth > 20:
        raise Unknown('alias depth')
    key = norm(e)
    if key in atoms:
        v = atoms[key]
        if isinstance(v, Crash):
            raise v
        return v
    if isinstance(e, ast.Constant):
        return e.value
    if isinstance(e, ast.Name):
        if e.id in alias:
            return ev(alias[e.id], atoms, alias, depth + 1)
        if e.id in ('True', 'False', 'None'):
            return {'True': True, 'False': False, 'None': None}[e.id]
        raise Unknown('name ' + e.id)
    if isinstance(e, ast.UnaryOp):
        v = ev(e.operand, atoms, alias, depth + 1)
        if isinstance(e.op, ast.Not):
            return not v
        if isinstance(e.op, ast.USub):
            return -v
        if isinstance(e.op, ast.Invert):
            return ~v
    if isinstance(e, ast.BoolOp):
        if isinstance(e.op, ast.And):
            v = True
            for x in e.values:
                v = ev(x, atoms, alias, depth + 1)
                if not v:
                    return v
            return v
        v = False
        for x in e.values:
            v = ev(x, atoms, alias, depth + 1)
            if v:
                return v
        return v
    if isinstance(e, ast.IfExp):
        return ev(e.body if ev(e.test, atoms, alias, depth + 1) else e.orelse, atoms, alias, depth + 1)
    if isinstance(e, ast.Compare):
        l = ev(e.left, atoms, alias, depth + 1)
        for op, r in zip(e.ops, e.comparators):
            rv = ev(r, atoms, alias, depth + 1)
            if isinstance(op, ast.Is):
                res = l is rv
            elif isinstance(op, ast.IsNot):
                res = l is not rv
            elif isinstance(op, ast.Eq):
                res = l == rv
            elif isinstance(op, ast.NotEq):
                res = l != rv
            elif isinstance(op, (ast.Lt, ast.LtE, ast.Gt, ast.GtE)):
                if isinstance(l, Obj) or isinstance(rv, Obj) or l is None or rv is None:
                    raise Crash('ordering comparison on non-number')
                res = {ast.Lt: l < rv, ast.LtE: l <= rv, ast.Gt: l > rv, ast.GtE: l >= rv}[type(op)]
            elif isinstance(op, (ast.In, ast.NotIn)):
                raise Unknown('membership')
            else:
                raise Unknown('cmp')
            if not res:
                return False
            l = rv
        return True
    if isinstance(e, ast.BinOp):
        a = ev(e.left, atoms, alias, depth + 1)
        b = ev(e.right, atoms, alias, depth + 1)
        if isinstance(a, Obj) or isinstance(b, Obj) or a is None or b is None:
            raise Crash('arithmetic on non-number')
        ops = {ast.BitAnd: lambda: a & b, ast.BitOr: lambda: a | b, ast.BitXor: lambda: a ^ b,
               ast.Add: lambda: a + b, ast.Sub: lambda: a - b, ast.RShift: lambda: a >> b,
               ast.LShift: lambda: a << b, ast.Mod: lambda: a % b, ast.Mult: lambda: a * b}
        if type(e.op) in ops:
            return ops[type(e.op)]()
        raise Unknown('binop')
    if isinstance(e, ast.Attribute):
        # attribute of an atom that is None crashes
        try:
            base = ev(e.value, atoms, alias, depth + 1)
        except Unknown:
            raise Unknown('attr ' + key)
        if base is None:
            raise Crash('attribute %s of None' % e.attr)
        raise Unknown('attr ' + key)
    if isinstance(e, ast.Call):
        if isinstance(e.func, ast.Attribute):
            try:
                base = ev(e.func.value, atoms, alias, depth + 1)
            except Unknown:
                raise Unknown('call ' + key)
            if base is None:
                raise Crash('method %s of None' % e.func.attr)
        if isinstance(e.func, ast.Name) and e.func.id in ('bool', 'int') and len(e.args) == 1:
            v = ev(e.args[0], atoms, alias, depth + 1)
            return bool(v) if e.func.id == 'bool' else int(v)
        raise Unknown('call ' + key)
    raise Unknown(type(e).__name__ + ' ' + key)


def feasible(paths, atoms, alias=None, unknown='error'):
    """paths taken under the scenario: list of (events, exit).  A path whose test crashes is
    returned with exit 'crash'.  unknown='both': a test that mentions something outside the atoms is
    treated as non-deterministic (both branches stay feasible) instead of making the rule not evaluable."""
    out = []
    for evs, ex in paths:
        ok = True
        crashed = False
        cut = None
        for i, e in enumerate(evs):
            if e.kind == 'branch':
                try:
                    v = bool(ev(e.node, atoms, alias))
                except Crash:
                    crashed = True
                    cut = i
                    break
                except Unknown:
                    if unknown == 'both':
                        continue
                    raise
                if v != e.val:
                    ok = False
                    break
        if crashed:
            out.append((evs[:cut], 'crash'))
        elif ok:
            out.append((evs, ex))
    # de-duplicate crash prefixes
    uniq = []
    seen = set()
    for evs, ex in out:
        k = (tuple(id(e.node) for e in evs), ex)
        if k not in seen:
            seen.add(k)
            uniq.append((evs, ex))
    return uniq
