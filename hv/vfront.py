"""Front end for emitted multi-module Verilog: declaration / instance / driver checks
(C03) and flattening into one behavioural body for co-simulation (C01)."""
from . import vlog
from .vlog import RESERVED_2005, XValue

EXTERNAL_PREFIXES = ('lpm_', 'xpm_', 'alt', 'cycloneiii_', 'IOBUF', 'BUFG')


class FrontError(Exception):
    pass


class Module:
    def __init__(self, ast_):
        _, self.name, self.params, ports, self.items = ast_
        self.ports = []         # (name, dir, width, is_reg)
        for p in ports:
            if p[0] != 'port':
                continue
            _, d, kind, sg, rng, name = p
            self.ports.append((name, d, rng, kind == 'reg'))


def width_of(rng, env=None):
    if rng is None:
        return 1
    return abs(vlog.const_eval(rng[1], env or {}) - vlog.const_eval(rng[2], env or {})) + 1


def parse_modules(text):
    items = vlog.parse(text)
    mods = []
    loose = []
    for it in items:
        if isinstance(it, tuple) and it and it[0] == 'module':
            mods.append(Module(it))
        else:
            loose.append(it)
    return mods, loose


def check_design(text):
    """-> list of (kind, message) problems of the emitted design"""
    problems = []
    try:
        mods, loose = parse_modules(text)
    except vlog.VParseError as e:
        return [('syntax', 'emitted text does not parse: %s' % e)]
    if loose:
        problems.append(('syntax', 'items outside any module: %s' % [i[0] for i in loose][:3]))
    byname = {}
    for m in mods:
        if m.name in byname:
            problems.append(('module-defined-twice', 'module %s is defined twice' % m.name))
        byname[m.name] = m
        if m.name in RESERVED_2005:
            problems.append(('reserved-word', 'module name `%s` is a reserved word' % m.name))
    for m in mods:
        decl = {}
        drivers = {}
        widths = {}

        def declare(n, kind, w):
            if n in decl:
                problems.append(('declared-twice', 'module %s: identifier `%s` is declared twice (%s and %s)' % (m.name, n, decl[n], kind)))
            decl[n] = kind
            widths[n] = w
            if n in RESERVED_2005:
                problems.append(('reserved-word', 'module %s: identifier `%s` is a reserved word' % (m.name, n)))
        for p in m.params:
            declare(p[1], 'parameter', 32)
        for name, d, rng, isreg in m.ports:
            if d is None:
                problems.append(('port-without-direction', 'module %s: port `%s` has no direction' % (m.name, name)))
                continue
            try:
                declare(name, d, width_of(rng))
            except XValue as e:
                problems.append(('illegal-range', 'module %s: port `%s` has an illegal range (%s)' % (m.name, name, e)))
                declare(name, d, 1)
            if d == 'input':
                drivers[name] = ['port']
        for it in m.items:
            if it[0] == 'decl':
                kind, sg, rng, names = it[1], it[2], it[3], it[4]
                for name, dims, init in names:
                    try:
                        w = 32 if kind == 'integer' else width_of(rng)
                        if rng is not None and kind != 'integer':
                            hi, lo = vlog.const_eval(rng[1], {}), vlog.const_eval(rng[2], {})
                            if hi < lo or lo < 0:
                                problems.append(('illegal-range', 'module %s: `%s` is declared with range [%d:%d]' % (m.name, name, hi, lo)))
                    except XValue as e:
                        problems.append(('illegal-range', 'module %s: `%s` has an illegal range (%s)' % (m.name, name, e)))
                        w = 1
                    declare(name, kind, w)
            elif it[0] == 'param':
                declare(it[1], 'parameter', 32)

        def use(e, what):
            for n in vlog.idents(e):
                if n not in decl:
                    problems.append(('undeclared', 'module %s: identifier `%s` is used in %s but never declared' % (m.name, n, what)))

        for p in m.params:
            if len(p) > 3 and p[3] is not None:
                # the default of a header parameter is a constant expression of this module: only its own parameters may appear in it
                for n in vlog.idents(p[3]):
                    if decl.get(n) != 'parameter' or n == p[1]:
                        problems.append(('undeclared', 'module %s: the default value of parameter `%s` uses `%s`, which is not a%s parameter of this module'
                                         % (m.name, p[1], n, 'nother' if n == p[1] else '')))

        def drive(lhs, how):
            base = lhs
            while base[0] in ('idx', 'slice'):
                base = base[1]
            if base[0] == 'cat':
                for x in base[1]:
                    drive(x, how)
                return
            if base[0] == 'id':
                if base[1] not in decl:
                    problems.append(('undeclared', 'module %s: `%s` is assigned (%s) but never declared' % (m.name, base[1], how)))
                drivers.setdefault(base[1], []).append(how)

        def walk_stmt(st, procname):
            k = st[0]
            if k == 'block':
                for s in st[1]:
                    walk_stmt(s, procname)
            elif k == 'if':
                use(st[1], 'a condition')
                walk_stmt(st[2], procname)
                if st[3] is not None:
                    walk_stmt(st[3], procname)
            elif k == 'case':
                use(st[1], 'a case expression')
                if not st[2]:
                    problems.append(('syntax', 'module %s: case statement without items' % m.name))
                for labels, body in st[2]:
                    for lb in labels or []:
                        use(lb, 'a case label')
                    walk_stmt(body, procname)
            elif k in ('nba', 'ba'):
                use(st[2], 'a procedural assignment')
                if st[1][0] in ('idx', 'slice'):
                    use(st[1][2], 'an index')
                drive(st[1], procname)
                base = st[1]
                while base[0] in ('idx', 'slice'):
                    base = base[1]
                if base[0] == 'id' and decl.get(base[1]) in ('wire', 'input'):
                    problems.append(('procedural-assign-to-net', 'module %s: net `%s` is assigned in a procedure but is not a reg' % (m.name, base[1])))
                if base[0] == 'id' and decl.get(base[1]) == 'output':
                    isreg = [p for p in m.ports if p[0] == base[1] and p[3]]
                    if not isreg:
                        problems.append(('procedural-assign-to-net', 'module %s: output `%s` is assigned in a procedure but is not declared reg' % (m.name, base[1])))
        np_ = 0
        for it in m.items:
            if it[0] == 'assign':
                use(it[2], 'a continuous assignment')
                drive(it[1], 'assign')
                base = it[1]
                while base[0] in ('idx', 'slice'):
                    base = base[1]
                if base[0] == 'id' and decl.get(base[1]) in ('reg', 'integer'):
                    problems.append(('assign-to-reg', 'module %s: reg `%s` is driven by a continuous assignment' % (m.name, base[1])))
                if base[0] == 'id' and decl.get(base[1]) == 'output' and [p for p in m.ports if p[0] == base[1] and p[3]]:
                    problems.append(('assign-to-reg', 'module %s: output reg `%s` is driven by a continuous assignment' % (m.name, base[1])))
            elif it[0] == 'always':
                np_ += 1
                if isinstance(it[1], list):
                    for e, x in it[1]:
                        use(x, 'a sensitivity list')
                walk_stmt(it[2], 'always#%d' % np_)
            elif it[0] == 'initial':
                walk_stmt(it[1], 'initial')
            elif it[0] == 'inst':
                _, mod, params, iname, conns = it
                declare(iname, 'instance', 0)
                target = byname.get(mod)
                if target is None:
                    if not mod.startswith(EXTERNAL_PREFIXES):
                        problems.append(('module-undefined', 'module %s instantiates `%s`, which is not defined in the emitted text' % (m.name, mod)))
                    for pn, e in conns:
                        if e is not None:
                            use(e, 'an instance connection')
                    continue
                tports = {p[0]: p for p in target.ports}
                seen = set()
                for pn, e in conns:
                    if pn is None:
                        problems.append(('positional-connection', 'module %s: instance %s uses positional connections' % (m.name, iname)))
                        continue
                    if pn in seen:
                        problems.append(('port-connected-twice', 'module %s: instance %s connects port `%s` twice' % (m.name, iname, pn)))
                    seen.add(pn)
                    if pn not in tports:
                        problems.append(('no-such-port', 'module %s: instance %s of %s connects port `%s`, which that module does not have (ports: %s)'
                                         % (m.name, iname, mod, pn, sorted(tports))))
                        continue
                    if e is None:
                        continue
                    use(e, 'an instance connection')
                    _, d, rng, _r = tports[pn]
                    try:
                        pw = width_of(rng)
                        ew = vlog.selfw(e, {n: vlog.Sig(w) for n, w in widths.items()})
                        if pw != ew:
                            problems.append(('width-mismatch', 'module %s: instance %s of %s connects a %d-bit expression to the %d-bit port `%s`'
                                             % (m.name, iname, mod, ew, pw, pn)))
                    except XValue:
                        pass
                    if d in ('output', 'inout'):
                        drive(e, 'instance %s.%s' % (iname, pn))
                for pn, (_, d, rng, _r) in tports.items():
                    if pn not in seen and d == 'input':
                        problems.append(('input-unconnected', 'module %s: instance %s of %s leaves input port `%s` unconnected' % (m.name, iname, mod, pn)))
                tparams = {p[1] for p in target.params}
                for pn, e in params:
                    if pn is not None and pn not in tparams:
                        problems.append(('no-such-parameter', 'module %s: instance %s overrides parameter `%s`, which %s does not declare' % (m.name, iname, pn, mod)))
        for n, ds in drivers.items():
            kinds = set(ds)
            if len(ds) > 1 and not all(d.startswith('always#') and d == ds[0] for d in ds) and not all(d == 'initial' or d.startswith('always#') for d in ds):
                if decl.get(n) != 'inout':
                    problems.append(('multiple-drivers', 'module %s: `%s` has %d drivers (%s)' % (m.name, n, len(ds), sorted(kinds))))
        for name, d, rng, isreg in m.ports:
            if d == 'output' and name not in drivers:
                problems.append(('output-undriven', 'module %s: output `%s` has no driver' % (m.name, name)))
        for n, k in decl.items():
            if k == 'wire' and n not in drivers:
                problems.append(('net-undriven', 'module %s: wire `%s` has no driver' % (m.name, n)))
    return problems


# ---------------------------------------------------------------------------
def flatten(text, top=None):
    """-> (items of one flat body, ports {name: (dir, width)}) with every instance inlined"""
    mods, _ = parse_modules(text)
    byname = {m.name: m for m in mods}
    topm = byname[top] if top else mods[0]
    counter = [0]

    def ren(e, mp):
        if isinstance(e, tuple):
            if e and e[0] == 'id':
                return ('id', mp.get(e[1], e[1]))
            return tuple(ren(x, mp) for x in e)
        if isinstance(e, list):
            return [ren(x, mp) for x in e]
        return e

    def inline(m, mp, out, depth=0):
        if depth > 40:
            raise FrontError('instance nesting too deep')
        for it in m.items:
            if it[0] == 'inst':
                _, mod, params, iname, conns = it
                t = byname.get(mod)
                if t is None:
                    raise FrontError('instance of undefined module %s' % mod)
                counter[0] += 1
                pre = '%s$%d$' % (iname, counter[0])
                cmap = {}
                tports = {p[0]: p for p in t.ports}
                for pn, e in conns:
                    if pn not in tports or e is None:
                        continue
                    e2 = ren(e, mp)
                    # a port is a net of the port's own width: inputs are continuously assigned from the connected
                    # expression (truncated / zero-extended), outputs continuously drive the connected net
                    nn = pre + pn
                    w = width_of(tports[pn][2])
                    out.append(('decl', 'wire', False, ('range', ('num', w - 1, None, True), ('num', 0, None, True)), [(nn, [], None)]))
                    if tports[pn][1] == 'input':
                        out.append(('assign', ('id', nn), e2))
                    else:
                        late.append(('assign', e2, ('id', nn)))
                    cmap[pn] = nn
                # local identifiers of the child
                for sub in t.items:
                    if sub[0] == 'decl':
                        for name, dims, init in sub[4]:
                            cmap[name] = pre + name
                    elif sub[0] == 'inst':
                        pass
                for pn in tports:
                    if pn not in cmap:
                        nn = pre + pn
                        w = width_of(tports[pn][2])
                        out.append(('decl', 'wire', False, ('range', ('num', w - 1, None, True), ('num', 0, None, True)), [(nn, [], None)]))
                        cmap[pn] = nn
                # output reg ports assigned procedurally inside the child need a reg of that name: declare if child declares port as reg
                for pn, (_, d, rng, isreg) in tports.items():
                    if isreg and cmap[pn] not in declared_regs:
                        declared_regs.add(cmap[pn])
                inline(t, cmap, out, depth + 1)
                out.extend(late)
                del late[:]
            elif it[0] == 'decl':
                names = [(mp.get(n, n), dims, ren(init, mp) if init is not None else None) for n, dims, init in it[4]]
                out.append(('decl', it[1], it[2], it[3], names))
            else:
                out.append(ren(it, mp))
    declared_regs = set()
    late = []
    out = []
    inline(topm, {}, out)
    ports = {}
    for name, d, rng, isreg in topm.ports:
        ports[name] = (d, width_of(rng))
    return out, ports
