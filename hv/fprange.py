"""Interval analysis of the floating-point intermediates of small numeric helpers.

A helper that rebuilds a float from integer fields (sign, exponent, significand) is exact only if every floating-point
intermediate stays inside the range of a double: a product that exceeds DBL_MAX becomes inf (or math.pow raises OverflowError),
a non-zero value below 2**-1074 becomes 0, although the final result would have been representable.  Whether that can happen is a
static question: the function is evaluated over *intervals* of its integer arguments (exact rational end points, one run per
partition of the argument domain so that the guards of the function are decided), every operator that produces a float checks the
interval of its result, and the interval of the exact (rational) final result says whether the value the caller wanted was
representable.  Anything outside the small expression language below makes the function 'not evaluable' - never a verdict."""
import ast
from fractions import Fraction

DBL_MAX = Fraction((1 << 53) - 1) * Fraction(2) ** (1023 - 52)
DBL_TINY = Fraction(1, 2 ** 1074)


class NotEvaluable(Exception):
    pass


class Iv:
    """closed interval of rationals; fl = the value is a Python float at run time"""
    __slots__ = ('lo', 'hi', 'fl')

    def __init__(self, lo, hi=None, fl=False):
        self.lo = Fraction(lo)
        self.hi = Fraction(lo if hi is None else hi)
        self.fl = fl

    def const(self):
        return self.lo == self.hi

    def absmax(self):
        return max(abs(self.lo), abs(self.hi))

    def absmin_nonzero(self):
        """smallest magnitude of a non-zero member (None if the interval is {0})"""
        if self.lo > 0:
            return self.lo
        if self.hi < 0:
            return -self.hi
        return None     # contains 0: the smallest non-zero magnitude is not bounded by the end points

    def __repr__(self):
        def f(x):
            return str(int(x)) if x.denominator == 1 and abs(x) < 10 ** 6 else ('%.4g' % float(x) if abs(x) < Fraction(10) ** 300 else '~2^%d' % (x.numerator.bit_length() - x.denominator.bit_length()))
        return '[%s, %s]%s' % (f(self.lo), f(self.hi), 'f' if self.fl else '')


def mul(a, b):
    ps = [a.lo * b.lo, a.lo * b.hi, a.hi * b.lo, a.hi * b.hi]
    return Iv(min(ps), max(ps), a.fl or b.fl)


class RangeInterp:
    def __init__(self, resolve_call):
        self.resolve_call = resolve_call        # (ast.Call) -> FunctionDef | None
        self.findings = []                      # (kind, expression text, interval)
        self.depth = 0

    # ------------------------------------------------------------------
    def check_float(self, iv, node):
        if not iv.fl:
            return iv
        if iv.absmax() > DBL_MAX:
            self.findings.append(('overflow', ast.unparse(node)[:70], repr(iv)))
        m = iv.absmin_nonzero()
        if m is not None and m < DBL_TINY:
            self.findings.append(('underflow', ast.unparse(node)[:70], repr(iv)))
        return iv

    def expr(self, e, env):
        if isinstance(e, ast.Constant):
            if isinstance(e.value, bool) or not isinstance(e.value, (int, float)):
                raise NotEvaluable('constant %r' % (e.value,))
            return Iv(Fraction(e.value), fl=isinstance(e.value, float))
        if isinstance(e, ast.Name):
            if e.id not in env:
                raise NotEvaluable('name %s' % e.id)
            return env[e.id]
        if isinstance(e, ast.UnaryOp) and isinstance(e.op, ast.USub):
            a = self.expr(e.operand, env)
            return Iv(-a.hi, -a.lo, a.fl)
        if isinstance(e, ast.IfExp):
            t = self.cond(e.test, env)
            if t is True:
                return self.expr(e.body, env)
            if t is False:
                return self.expr(e.orelse, env)
            a, b = self.expr(e.body, env), self.expr(e.orelse, env)
            return Iv(min(a.lo, b.lo), max(a.hi, b.hi), a.fl or b.fl)
        if isinstance(e, ast.BinOp):
            a, b = self.expr(e.left, env), self.expr(e.right, env)
            op = e.op
            if isinstance(op, ast.Add):
                return self.check_float(Iv(a.lo + b.lo, a.hi + b.hi, a.fl or b.fl), e)
            if isinstance(op, ast.Sub):
                return self.check_float(Iv(a.lo - b.hi, a.hi - b.lo, a.fl or b.fl), e)
            if isinstance(op, ast.Mult):
                return self.check_float(mul(a, b), e)
            if isinstance(op, ast.Div):
                if b.lo <= 0 <= b.hi:
                    raise NotEvaluable('division by an interval containing 0')
                r = mul(a, Iv(1 / b.hi, 1 / b.lo))
                r.fl = True
                return self.check_float(r, e)
            if isinstance(op, ast.LShift) and not a.fl and not b.fl and b.lo >= 0 and b.hi <= 4096:
                return Iv(min(a.lo * 2 ** int(b.lo), a.lo * 2 ** int(b.hi)), max(a.hi * 2 ** int(b.lo), a.hi * 2 ** int(b.hi)))
            if isinstance(op, ast.BitOr) and not a.fl and not b.fl:
                # constant power of two OR-ed with a smaller non-negative field = addition
                for k, f in ((a, b), (b, a)):
                    if k.const() and k.lo > 0 and (int(k.lo) & (int(k.lo) - 1)) == 0 and f.lo >= 0 and f.hi < k.lo:
                        return Iv(k.lo + f.lo, k.lo + f.hi)
                raise NotEvaluable('bitwise or')
            if isinstance(op, ast.Pow):
                return self.power(a, b, e)
            raise NotEvaluable('operator %s' % type(op).__name__)
        if isinstance(e, ast.Call):
            fn = ast.unparse(e.func)
            if fn in ('math.pow', 'pow') and len(e.args) == 2:
                r = self.power(self.expr(e.args[0], env), self.expr(e.args[1], env), e)
                r.fl = True
                return self.check_float(r, e)
            if fn == 'math.ldexp' and len(e.args) == 2:
                a, b = self.expr(e.args[0], env), self.expr(e.args[1], env)
                r = mul(a, self.power(Iv(2), b, e))
                r.fl = True
                return self.check_float(r, e)
            if fn == 'float' and len(e.args) == 1:
                a = self.expr(e.args[0], env)
                return self.check_float(Iv(a.lo, a.hi, True), e)
            callee = self.resolve_call(e)
            if callee is not None and self.depth < 4 and not e.keywords:
                ps = [p.arg for p in callee.args.args]
                if len(ps) == len(e.args):
                    self.depth += 1
                    try:
                        rs = self.function(callee, {p: self.expr(a, env) for p, a in zip(ps, e.args)})
                    finally:
                        self.depth -= 1
                    if not rs:
                        raise NotEvaluable('callee returns nothing')
                    return Iv(min(r.lo for r in rs), max(r.hi for r in rs), any(r.fl for r in rs))
            raise NotEvaluable('call %s' % fn)
        raise NotEvaluable('expression %s' % type(e).__name__)

    def power(self, a, b, node):
        if not (b.lo.denominator == 1 and b.hi.denominator == 1):
            raise NotEvaluable('non-integer exponent')
        if a.const() and a.lo == 2:
            if b.hi > 5000 or b.lo < -5000:
                raise NotEvaluable('huge exponent')
            return Iv(Fraction(2) ** int(b.lo), Fraction(2) ** int(b.hi), a.fl or b.fl)
        if a.const() and a.lo == -1:
            if b.const():
                return Iv((-1) ** int(b.lo), fl=a.fl or b.fl)
            return Iv(-1, 1, a.fl or b.fl)
        if a.const() and b.const() and 0 <= b.lo <= 64:
            return Iv(a.lo ** int(b.lo), fl=a.fl)
        raise NotEvaluable('power %s ** %s' % (a, b))

    def cond(self, t, env):
        """True / False / None (not decided by the intervals)"""
        if isinstance(t, ast.BoolOp):
            vs = [self.cond(v, env) for v in t.values]
            if isinstance(t.op, ast.And):
                return False if any(v is False for v in vs) else (True if all(v is True for v in vs) else None)
            return True if any(v is True for v in vs) else (False if all(v is False for v in vs) else None)
        if isinstance(t, ast.UnaryOp) and isinstance(t.op, ast.Not):
            v = self.cond(t.operand, env)
            return None if v is None else (not v)
        if isinstance(t, ast.Compare) and len(t.ops) == 1:
            a, b = self.expr(t.left, env), self.expr(t.comparators[0], env)
            op = t.ops[0]
            if isinstance(op, (ast.Eq, ast.NotEq)):
                if a.const() and b.const():
                    r = a.lo == b.lo
                elif a.hi < b.lo or b.hi < a.lo:
                    r = False
                else:
                    return None
                return r if isinstance(op, ast.Eq) else (not r)
            tab = {ast.Lt: (a.hi < b.lo, a.lo >= b.hi), ast.LtE: (a.hi <= b.lo, a.lo > b.hi), ast.Gt: (a.lo > b.hi, a.hi <= b.lo), ast.GtE: (a.lo >= b.hi, a.hi < b.lo)}
            if type(op) in tab:
                yes, no = tab[type(op)]
                return True if yes else (False if no else None)
        raise NotEvaluable('condition %s' % ast.unparse(t)[:40])

    # ------------------------------------------------------------------
    def block(self, stmts, env, rets):
        """-> True if every path through stmts returns"""
        for st in stmts:
            if isinstance(st, ast.Expr) and isinstance(st.value, ast.Constant):
                continue
            if isinstance(st, ast.Assign) and len(st.targets) == 1 and isinstance(st.targets[0], ast.Name):
                env[st.targets[0].id] = self.expr(st.value, env)
            elif isinstance(st, ast.Return):
                if st.value is None:
                    raise NotEvaluable('bare return')
                rets.append(self.expr(st.value, env))
                return True
            elif isinstance(st, ast.If):
                t = self.cond(st.test, env)
                if t is True:
                    if self.block(st.body, env, rets):
                        return True
                elif t is False:
                    if self.block(st.orelse, env, rets):
                        return True
                else:
                    e1, e2 = dict(env), dict(env)
                    r1, r2 = self.block(st.body, e1, rets), self.block(st.orelse, e2, rets)
                    if r1 and r2:
                        return True
                    live = [x for x, r in ((e1, r1), (e2, r2)) if not r]
                    for k in set().union(*[set(x) for x in live]):
                        vs = [x[k] for x in live if k in x]
                        if len(vs) == len(live):
                            env[k] = Iv(min(v.lo for v in vs), max(v.hi for v in vs), any(v.fl for v in vs))
            elif isinstance(st, (ast.Pass, ast.Import, ast.ImportFrom)):
                continue
            else:
                raise NotEvaluable('statement %s' % type(st).__name__)
        return False

    def function(self, fn, args):
        rets = []
        self.block(fn.body, dict(args), rets)
        return rets
