"""Driver: elaborated netlist (composed leaf summaries) versus documented function."""
import itertools
import random

from .elab import ElabError, ElabRaise, PyExc
from .ireval import Nondet, EvalError
from .netlist import Design, NetError
from .specs import SPECS


def input_vectors(ins, widths, max_bits, samples, rnd):
    names = list(ins)
    ws = [widths[n] for n in names]
    if sum(ws) <= max_bits:
        for vals in itertools.product(*[range(1 << w) for w in ws]):
            yield dict(zip(names, vals))
        return
    seen = set()
    # structured vectors first: all zeros / all ones, one input at its maximum and the others 0 (and the complement), so that a dropped or
    # duplicated input of an n-ary block is met whatever the random part draws
    full = [(1 << w) - 1 for w in ws]
    for t in [tuple(0 for _ in ws), tuple(full)] + [tuple(full[j] if j == i else 0 for j in range(len(ws))) for i in range(len(ws))] + \
            [tuple(0 if j == i else full[j] for j in range(len(ws))) for i in range(len(ws))]:
        if t not in seen:
            seen.add(t)
            yield dict(zip(names, t))
    for _ in range(samples):
        vals = []
        for w in ws:
            corner = [0, 1, (1 << w) - 1, (1 << w) - 2 if w > 1 else 0, 1 << (w - 1), (1 << (w - 1)) - 1 if w > 1 else 1]
            vals.append(rnd.choice(corner) if rnd.random() < 0.5 else rnd.randrange(1 << w))
        t = tuple(vals)
        if t not in seen:
            seen.add(t)
            yield dict(zip(names, t))


def run_specs(ctx, facts, prop, rule, tier, seed, only=None, floor=0):
    summaries = {}
    done = 0
    for sp in SPECS:
        if sp['prop'] != prop or sp['ref'] is None:
            continue
        if only and sp['name'] not in only:
            continue
        cname = sp['name'].split(':')[0]
        c = facts.cls(cname, required=False)
        if c is None:
            ctx.error(rule, 'anchor class %s not found' % cname)
            continue
        where = '%s:%s.__init__' % (c.rel, cname)
        ncfg = nev = nref = 0
        viol = None
        notelab = None
        rnd = random.Random(seed + len(sp['name']))
        for p in sp['configs'](tier):
            try:
                D = Design(facts, summaries)
                ins, outs = sp['build'](D, p)
                D.prepare()
            except ElabRaise as e:
                nref += 1
                continue
            except PyExc as e:
                viol = dict(kind='constructor fails: %s' % e, configuration=p)
                break
            except (ElabError, NetError) as e:
                notelab = '%s (configuration %s)' % (e, p)
                break
            ncfg += 1
            if D.multi_driven:
                viol = dict(kind='a wire inside the block is driven by two leaves', configuration=p)
                break
            widths = {n: w.attrs['width'] for n, w in ins.items()}
            for v in input_vectors(ins, widths, 12 if tier == 'quick' else 14, 200 if tier == 'quick' else 600, rnd):
                try:
                    for n, w in ins.items():
                        D.put(w, v[n])
                    D.settle()
                    exp = sp['ref'](v, p)
                except Nondet:
                    continue
                except (EvalError, NetError) as e:
                    viol = dict(kind='netlist evaluation fails: %s' % e, configuration=p, inputs=v)
                    break
                nev += 1
                for on, w in outs.items():
                    e_ = exp.get(on)
                    if e_ is None:
                        continue
                    got = D.get(w)
                    if got != e_ & ((1 << w.attrs['width']) - 1):
                        viol = dict(kind='output differs from the documented function', configuration=p, inputs=v, output=on, netlist=got, documented=e_)
                        break
                if viol:
                    break
            if viol:
                break
        key = sp['name']
        if viol:
            ctx.violation(rule, key, '%s: %s' % (sp['name'], viol['kind']), where, witness=viol)
        elif notelab:
            ctx.error(rule, '%s could not be elaborated: %s' % (sp['name'], notelab))
        elif ncfg == 0:
            ctx.error(rule, '%s: no configuration of the grid was accepted by the constructor (%d refused)' % (sp['name'], nref))
        else:
            done += 1
            ctx.ok(rule, key, '%d configurations (%d refused by the constructor), %d input vectors agree with the documented function' % (ncfg, nref, nev), grade='bounded')
            ctx.sample(dict(rule=rule, block=sp['name'], configurations=ncfg, evaluations=nev, note=sp['note']))
    ctx.floor(rule, 'structural compositions decided', done, floor)
    return done


def sequences(ins, widths, tier, rnd):
    """input sequences: all short ones when the space is small, plus long biased random walks"""
    names = list(ins)
    ws = [widths[n] for n in names]
    space = 1 << sum(ws)
    depth = 3 if tier == 'quick' else 4
    if space ** depth <= (6000 if tier == 'quick' else 40000):
        for seq in itertools.product(itertools.product(*[range(1 << w) for w in ws]), repeat=depth):
            yield [dict(zip(names, vec)) for vec in seq]
    nlong = 40 if tier == 'quick' else 160
    for k in range(nlong):
        bias = [rnd.choice((0.1, 0.5, 0.9)) for _ in names]
        length = rnd.choice((6, 12, 20))
        seq = []
        for _ in range(length):
            vec = {}
            for n, w, b in zip(names, ws, bias):
                if w == 1:
                    vec[n] = int(rnd.random() < b)
                else:
                    vec[n] = rnd.choice((0, (1 << w) - 1, rnd.randrange(1 << w)))
            seq.append(vec)
        yield seq


def run_seq_specs(ctx, facts, prop, rule, tier, seed, only=None, floor=0):
    summaries = {}
    done = 0
    for sp in SPECS:
        if sp['prop'] != prop or sp['seq'] is None:
            continue
        if only and sp['name'] not in only:
            continue
        cname = sp['name'].split(':')[0]
        c = facts.cls(cname, required=False)
        if c is None:
            ctx.error(rule, 'anchor class %s not found' % cname)
            continue
        where = '%s:%s' % (c.rel, cname)
        ncfg = nseq = nref = 0
        viol = None
        notelab = None
        rnd = random.Random(seed + len(sp['name']))
        for p in sp['configs'](tier):
            # elaborate once to learn the interface, then re-elaborate per sequence (fresh state)
            try:
                D = Design(facts, summaries)
                ins, outs = sp['build'](D, p)
                D.prepare()
            except ElabRaise:
                nref += 1
                continue
            except PyExc as e:
                viol = dict(kind='constructor fails: %s' % e, configuration=p)
                break
            except (ElabError, NetError) as e:
                notelab = '%s (configuration %s)' % (e, p)
                break
            ncfg += 1
            widths = {n: w.attrs['width'] for n, w in ins.items()}
            snap_vals = dict(D.values)
            snap_attr = [(ctx_, dict(ctx_.cfg.attr)) for ctx_ in D.seq + D.comb]
            scripted = list(sp['extra'](p)) if sp.get('extra') else []
            for seq in itertools.chain(scripted, sequences(ins, widths, tier, rnd)):
                nseq += 1
                D.values = dict(snap_vals)
                for ctx_, at in snap_attr:
                    ctx_.cfg.attr = {k: (list(v) if isinstance(v, list) else v) for k, v in at.items()}
                model = sp['seq'](p)
                try:
                    D.settle()
                    bad = cmp_outs(D, outs, model.outputs())
                    if bad:
                        viol = dict(kind='output differs at power-up', configuration=p, cycle=0, **bad)
                        break
                    hist = []
                    for t, v in enumerate(seq):
                        hist.append(v)
                        for n, w in ins.items():
                            D.put(w, v[n])
                        D.settle()
                        if hasattr(model, 'comb'):
                            bad = cmp_outs(D, outs, model.comb(v))
                            if bad:
                                viol = dict(kind='combinational output differs in cycle %d' % (t + 1), configuration=p, inputs_so_far=list(hist), **bad)
                                break
                        D.clock()
                        model.step(v)
                        bad = cmp_outs(D, outs, model.outputs())
                        if bad:
                            viol = dict(kind='output differs after edge %d' % (t + 1), configuration=p, inputs_so_far=list(hist), **bad)
                            break
                except Nondet:
                    continue
                except (EvalError, NetError) as e:
                    viol = dict(kind='netlist evaluation fails: %s' % e, configuration=p)
                if viol:
                    break
            if viol:
                break
        key = sp['name']
        if viol:
            ctx.violation(rule, key, '%s: %s' % (sp['name'], viol['kind']), where, witness=viol)
        elif notelab:
            ctx.error(rule, '%s could not be elaborated: %s' % (sp['name'], notelab))
        elif ncfg == 0:
            ctx.error(rule, '%s: no configuration of the grid was accepted by the constructor' % sp['name'])
        else:
            done += 1
            ctx.ok(rule, key, '%d configurations, %d input sequences from power-up agree with the reference state machine' % (ncfg, nseq), grade='bounded')
            ctx.sample(dict(rule=rule, block=sp['name'], configurations=ncfg, sequences=nseq, note=sp['note']))
    ctx.floor(rule, 'sequential blocks decided', done, floor)
    return done


def cmp_outs(D, outs, exp):
    for on, w in outs.items():
        e_ = exp.get(on)
        if e_ is None:
            continue
        got = D.get(w)
        if got != e_ & ((1 << w.attrs['width']) - 1):
            return dict(output=on, netlist=got, reference=e_)
    return None
