"""Abstract evaluation of the Verilog generator itself (rtl_generation.py) over an elaborated
design: the generator is string-building code over circuit *structure* (names, widths, port
lists) - no wire value exists - so it is interpreted by the same constant-propagating
interpreter as the constructors (hv/elab.py).  The transpiler (inspect/ast based) is outside
the interpreter's subset: designs containing transpiled leaves are reported as such."""
from .elab import ElabError, ElabRaise, PyExc, ObjV

RTL = 'py4hw/rtl_generation.py'


class GenError(Exception):
    pass


def generator(D, obj=None):
    gc = D.el.find_class('VerilogGenerator', RTL)
    if gc is None:
        raise GenError('VerilogGenerator not found')
    return D.el.instantiate(gc, [obj or D.sys], {})


def hierarchy_text(D, obj=None):
    g = generator(D, obj)
    try:
        return D.el.call(D.el.getattr_(g, 'getVerilogForHierarchy'), [], {}, {})
    except ElabRaise as e:
        raise GenError('generation raises: %s' % e)


def module_text(D, obj):
    g = generator(D, obj)
    try:
        return D.el.call(D.el.getattr_(g, 'getVerilog'), [obj], {}, {})
    except ElabRaise as e:
        raise GenError('generation raises: %s' % e)


def module_name(D, obj):
    f = D.el.eval_name('getVerilogModuleName', RTL)
    return D.el.call(f, [obj], {}, {})


def non_inlined_objects(D, g=None, obj=None, out=None):
    """objects that get their own module (the generator's own isInlinable decides)"""
    out = out if out is not None else []
    obj = obj or D.sys
    g = g or generator(D)
    for ch in obj.attrs.get('children', {}).values():
        inl = D.el.call(D.el.getattr_(g, 'isInlinable'), [ch], {}, {})
        if not inl:
            out.append(ch)
            non_inlined_objects(D, g, ch, out)
    return out
