"""Contract table: the documented function of each leaf / inlinable block, transcribed from
the class docstrings and the property statements, as IR over the block's own ports.
The result is always understood modulo 2^w(output) (the wire's mask, C06)."""
import ast

from .summ import Summariser, Env, c as C


def g(p):
    return ('get', ('p', p))


def w(p):
    return ('w', ('p', p))


def b(op, x, y):
    return ('bin', op, x, y)


def msk(x):
    return b('-', b('<<', C(1), x), C(1))


def fold_list(listattr, init, step):
    """fold over the list port: acc' = step(acc, elem-key, index-var)"""
    var = 'k#900'
    lv = ('var', var)
    pk = ('pe', listattr, lv)
    return ('fold', var, C(0), ('len', ('plist', listattr)), (('acc', init),), (('acc', step(('acc', 'acc', 900), pk, lv)),), 'acc')


# scalar-output contracts: class -> {out attr: expr}
CONTRACTS = {
    # ---- C07 arithmetic leaves
    'AddCarryIn': {'r': b('+', b('+', g('a'), g('b')), g('ci'))},
    'Sub': {'r': b('-', g('a'), g('b'))},
    'SubBorrowIn': {'r': b('-', b('-', g('a'), g('b')), g('bi'))},
    'Mul': {'r': b('*', g('a'), g('b'))},
    'SignedMul': {'r': b('*', ('signed', g('a'), w('a')), ('signed', g('b'), w('b')))},
    'Div': {'r': ('ite', ('cmp', '==', g('b'), C(0)), ('nondet',), b('//', g('a'), g('b')))},
    'Mod': {'r': ('ite', ('cmp', '==', g('b'), C(0)), ('nondet',), b('%', g('a'), g('b')))},
    'SignExtend': {'r': ('signed', g('a'), w('a'))},
    'ZeroExtend': {'r': g('a')},
    'ShiftLeftConstant': {'r': b('<<', g('a'), ('param', 'n'))},
    'ShiftRightConstant': {'r': b('>>', g('a'), ('param', 'n'))},
    'RotateLeftConstant': {'r': b('|', b('<<', g('a'), ('attr', 'n')), b('>>', g('a'), b('-', w('a'), ('attr', 'n'))))},
    'RotateRightConstant': {'r': b('|', b('>>', g('a'), ('attr', 'n')), b('<<', g('a'), b('-', w('a'), ('attr', 'n'))))},
    # ---- C08 logic leaves
    'And2': {'r': b('&', g('a'), g('b'))},
    'Or2': {'r': b('|', g('a'), g('b'))},
    'Not': {'r': ('un', '~', g('a'))},
    'Buf': {'r': g('a')},
    'Bit': {'r': b('&', b('>>', g('a'), ('attr', 'bit')), C(1))},
    'Mux2': {'r': ('ite', b('&', g('sel'), C(1)), g('sel1'), g('sel0'))},
    'Repeat': {'r': ('ite', ('cmp', '!=', g('i'), C(0)), msk(w('r')), C(0))},
    'Range': {'r': b('&', b('>>', g('a'), ('attr', 'low')), msk(b('+', b('-', ('attr', 'high'), ('attr', 'low')), C(1))))},
    'Constant': {'r': ('attr', 'value')},
    'ConcatenateMSBF': {'r': fold_list('ins', C(0), lambda acc, pk, i: b('|', b('<<', acc, ('w', pk)), ('get', pk)))},
    'ConcatenateLSBF': {'r': fold_list('ins', C(0), lambda acc, pk, i: b('|', b('<<', acc, ('w', pk)), ('get', pk)))},
    # ---- structural inlinables (documented function; used for emitter-vs-contract, and by the elaborator)
    'Nand2': {'r': ('un', '~', b('&', g('a'), g('b')))},
    'Nor2': {'r': ('un', '~', b('|', g('a'), g('b')))},
    'Xor2': {'r': b('^', g('a'), g('b'))},
    'And': {'r': fold_list('ins', C(-1), lambda acc, pk, i: b('&', acc, ('get', pk)))},
    'Or': {'r': fold_list('ins', C(0), lambda acc, pk, i: b('|', acc, ('get', pk)))},
    'Nor': {'r': ('un', '~', fold_list('ins', C(0), lambda acc, pk, i: b('|', acc, ('get', pk))))},
    'Equal': {'r': ('cmp', '==', g('a'), g('b'))},
    'EqualConstant': {'r': ('cmp', '==', g('a'), ('attr', 'v'))},
    'GatedClock': {'enout': g('enin')},
}

# per-element contracts (list outputs): class -> (list attr, lambda index-expr -> expr)
FORALL_CONTRACTS = {
    'BitsLSBF': ('bits', lambda i: b('&', b('>>', g('a'), i), C(1))),
    'BitsMSBF': ('bits', lambda i: b('&', b('>>', g('a'), i), C(1))),
}

# the attribute-level list order the constructor must establish (checked separately on the constructor):
#   BitsLSBF: bits[i] (i-th constructor argument) carries bit i;  BitsMSBF: argument i carries bit w-1-i (list reversed once)
#   ConcatenateMSBF: ins[0] is most significant (no reversal);  ConcatenateLSBF: list reversed once
LIST_ORDER = {'BitsLSBF': ('bits', 0), 'BitsMSBF': ('bits', 1), 'ConcatenateMSBF': ('ins', 0), 'ConcatenateLSBF': ('ins', 1)}


def contract_outputs(cname, cfg):
    from .ireval import ev
    from .blocks import mask
    out = {}
    for attr, x in CONTRACTS.get(cname, {}).items():
        k = ('p', attr)
        out[k] = ev(x, cfg) & mask(cfg.width[k])
    if cname in FORALL_CONTRACTS:
        la, f = FORALL_CONTRACTS[cname]
        for i in range(cfg.plen[la]):
            k = ('pe', la, i)
            out[k] = ev(f(C(i)), cfg) & mask(cfg.width[k])
    return out
