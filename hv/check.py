"""CLI: python3-vt -m hv.check <PROPERTY> [--tier quick|thorough] [--repo PATH]

Exit 0 = every rule instance passed (or is a listed known finding);
exit 1 = at least one unlisted violation (VIOLATION line printed);
exit 2 = the analysis itself could not be evaluated (ANALYSIS-ERROR line).
"""
import argparse
import importlib
import os
import sys
import traceback

from .srcmap import SourceMap, AnalysisError
from .facts import Facts
from .report import Ctx


def main(argv=None):
    ap = argparse.ArgumentParser()
    ap.add_argument('prop')
    ap.add_argument('--tier', default=os.environ.get('VERIF_TIER', 'quick'))
    ap.add_argument('--repo', default=os.environ.get('VERIF_REPO', '/repo'))
    a = ap.parse_args(argv)
    tier = a.tier if a.tier in ('quick', 'thorough') else 'quick'
    try:
        seed = int(os.environ.get('VERIF_SEED', '0'))
    except ValueError:
        seed = 0
    pid = a.prop.upper()
    ctx = Ctx(pid, tier, a.repo, seed)
    try:
        mod = importlib.import_module('hv.rules.' + pid.lower())
    except ImportError as e:
        print('ANALYSIS-ERROR property=%s no rule module: %s' % (pid, e))
        return 2
    try:
        sm = SourceMap(a.repo)
        facts = Facts(sm)
        # private helpers that do not exist in the tree the rules were confirmed on are read through (hv/inline.py)
        from .inline import normalise
        sm2, inl_report = normalise(sm, facts)
        if sm2 is not sm:
            sm, facts = sm2, Facts(sm2)
            ctx.analysed['helpers_inlined'] = {k: v[:12] for k, v in inl_report.items()}
        ctx.analysed['modules_parsed'] = len(facts.rels)
        ctx.analysed['modules_unparsable'] = sorted(sm.unparsable)
        ctx.analysed['classes'] = sum(len(v) for v in facts.classes.values())
        ctx.analysed['source_digest'] = sm.digest()
        mod.run(ctx, sm, facts)
        if tier == 'thorough' and hasattr(mod, 'selfval'):
            mod.selfval(ctx, sm)
    except AnalysisError as e:
        ctx.error('engine', str(e))
    except Exception as e:     # a traceback is the machinery's fault, never a violation
        tb = traceback.format_exc().strip().splitlines()
        ctx.error('engine', 'internal error %s: %s | %s' % (type(e).__name__, e, ' / '.join(tb[-6:])))
    return ctx.finish(getattr(mod, 'LEVEL_TEXT', ''))


if __name__ == '__main__':
    sys.exit(main())
