"""M6: abstract evaluation of the string-building emitter code (Inline*, Body*,
verilogBody) under one configuration of the block (widths, arities, constants,
optional ports) -> the Verilog text that emitter produces for every block of
that configuration.  The evaluation is over an *abstract object*: ports have a
name and a width, never a value."""
import ast
import string

from .ireval import Cfg, ev as ir_ev, EvalError
from .srcmap import norm
from .summ import Summariser, Env, NotSummarisable, c


class EmitError(Exception):
    pass


class ConfigRefused(EmitError):
    """the constructor (or the emitter) itself refuses this configuration: not a legal configuration of the block"""


class Emitter:
    def __init__(self, facts, cinfo, cfg, objname='obj', clkname='clk', ports=None):
        self.facts = facts
        self.c = cinfo
        self.cfg = cfg
        self.obj = objname
        self.clk = clkname
        if ports is None:
            ports, _ = facts.ports(cinfo)
        self.ports = ports
        self.S = Summariser(facts, cinfo, ports=ports, selfname=objname)
        self.steps = 0

    # -- naming ----------------------------------------------------------
    def name_of(self, pk):
        if pk[0] == 'p':
            pn = self.ports.get(pk[1], (None, None, False))[1]
            return pn or pk[1]
        if pk[0] == 'pe':
            return '%s_%d' % (pk[1], pk[2])
        if pk[0] == 'pf':
            return '%s_%s' % (pk[1], pk[2])
        raise EmitError('port key %s' % (pk,))

    def conc(self, pk, env):
        if pk[0] == 'pe':
            if isinstance(pk[2], int):
                return pk
            i = self.ival_ir(pk[2], env)
            return ('pe', pk[1], i)
        return pk

    # -- evaluation ------------------------------------------------------
    def senv(self, env):
        e = Env()
        for k, v in env.items():
            if isinstance(v, bool):
                e.loc[k] = c(int(v))
            elif isinstance(v, int):
                e.loc[k] = c(v)
            elif isinstance(v, str):
                e.loc[k] = c(v)
            elif isinstance(v, tuple) and v and v[0] == 'wire':
                e.loc[k] = v
        return e

    def ival_ir(self, x, env):
        try:
            return ir_ev(x, self.cfg)
        except EvalError as e:
            raise EmitError(str(e))

    def ival(self, e, env):
        try:
            x = self.S.expr(e, self.senv(env))
        except NotSummarisable as ex:
            raise EmitError('hole `%s`: %s' % (norm(e)[:60], ex))
        return self.ival_ir(x, env)

    def wire_of(self, e, env):
        pk = self.S.port_key(e, self.senv(env))
        if pk is None:
            raise EmitError('`%s` is not a port of %s' % (norm(e), self.c.name))
        pk = self.conc(pk, env)
        # optional port that is absent in this configuration
        if pk[0] == 'p' and self.cfg.attr.get(pk[1], 0) is None and pk[1] in self.cfg.attr:
            raise EmitError('port %s is absent in this configuration' % pk[1])
        if pk not in self.cfg.width:
            raise EmitError('port %s does not exist in this configuration' % (pk,))
        return pk

    def sval(self, e, env):
        """string value of e, or raise EmitError"""
        if isinstance(e, ast.Constant) and isinstance(e.value, str):
            return e.value
        if isinstance(e, ast.Name):
            if e.id in env and isinstance(env[e.id], str):
                return env[e.id]
            raise EmitError('name %s is not a string' % e.id)
        if isinstance(e, ast.BinOp) and isinstance(e.op, ast.Add):
            return self.hole(e.left, env) + self.hole(e.right, env)
        if isinstance(e, ast.JoinedStr):
            out = ''
            for v in e.values:
                if isinstance(v, ast.Constant):
                    out += v.value
                else:
                    spec = ''
                    if v.format_spec is not None:
                        spec = self.sval(v.format_spec, env)
                    if spec:
                        out += format(self.ival(v.value, env), spec)
                    else:
                        out += self.hole(v.value, env)
            return out
        if isinstance(e, ast.Call):
            f = e.func
            if isinstance(f, ast.Attribute) and f.attr == 'format':
                base = self.sval(f.value, env)
                args = [self.hole(a, env) for a in e.args]
                out = ''
                i = 0
                for lit, field, spec, conv in string.Formatter().parse(base):
                    out += lit
                    if field is not None:
                        if field == '':
                            if i >= len(args):
                                raise EmitError('format string has more fields than arguments')
                            out += args[i]
                            i += 1
                        elif field.isdigit():
                            out += args[int(field)]
                        else:
                            raise EmitError('named format field')
                return out
            if isinstance(f, ast.Name):
                if f.id == 'getParentWireName' and len(e.args) == 2:
                    return self.name_of(self.wire_of(e.args[1], env))
                if f.id == 'getWidthInfo' and len(e.args) == 1:
                    w = self.cfg.width[self.wire_of(e.args[0], env)]
                    return '[%d:0]' % (w - 1) if w > 1 else ''
                if f.id == 'str' and len(e.args) == 1:
                    return self.hole(e.args[0], env)
                if f.id == 'getPortName':
                    raise EmitError('getPortName in emitter')
        if isinstance(e, ast.Attribute) and e.attr == 'name':
            v = e.value
            if isinstance(v, ast.Name) and env.get(v.id) == ('clkdrv',):
                return self.clk
            if isinstance(v, ast.Call) and isinstance(v.func, ast.Name) and v.func.id == 'getObjectClockDriver':
                return self.clk
            if isinstance(v, ast.Attribute) or isinstance(v, ast.Name):
                # name of a wire (used by hand-written bodies): self.x.name
                try:
                    return self.name_of(self.wire_of(v, env))
                except EmitError:
                    pass
        raise EmitError('not a string expression: ' + norm(e)[:60])

    def hole(self, e, env):
        try:
            return self.sval(e, env)
        except EmitError as first:
            try:
                v = self.ival(e, env)
            except EmitError:
                raise first
            if isinstance(v, bool):
                v = int(v)
            return str(v)

    def value(self, e, env):
        """str | int | ('wire', pk) | ('list', attr)"""
        if isinstance(e, ast.Call) and isinstance(e.func, ast.Name) and e.func.id == 'getObjectClockDriver':
            return ('clkdrv',)
        try:
            return self.sval(e, env)
        except EmitError:
            pass
        try:
            pk = self.S.port_key(e, self.senv(env))
        except NotSummarisable:
            pk = None
        if pk is not None:
            return ('wire', self.conc(pk, env))
        return self.ival(e, env)

    def truth(self, e, env):
        if isinstance(e, ast.Compare) and len(e.ops) == 1 and isinstance(e.ops[0], (ast.Eq, ast.NotEq)):
            try:
                a, b = self.sval(e.left, env), self.sval(e.comparators[0], env)
                return (a == b) == isinstance(e.ops[0], ast.Eq)
            except EmitError:
                pass
        return bool(self.ival(e, env))

    def run_block(self, stmts, env):
        for s in stmts:
            self.steps += 1
            if self.steps > 20000:
                raise EmitError('emitter does not terminate')
            if isinstance(s, ast.Return):
                return ('ret', self.sval(s.value, env) if s.value is not None else '')
            if isinstance(s, ast.Expr):
                continue
            if isinstance(s, ast.Assign) and len(s.targets) == 1 and isinstance(s.targets[0], ast.Name):
                env[s.targets[0].id] = self.value(s.value, env)
            elif isinstance(s, ast.AnnAssign) and isinstance(s.target, ast.Name) and s.value is not None:
                env[s.target.id] = self.value(s.value, env)
            elif isinstance(s, ast.AugAssign) and isinstance(s.target, ast.Name) and isinstance(s.op, ast.Add):
                cur = env.get(s.target.id)
                if isinstance(cur, str):
                    env[s.target.id] = cur + self.hole(s.value, env)
                elif isinstance(cur, int):
                    env[s.target.id] = cur + self.ival(s.value, env)
                else:
                    raise EmitError('+= on unknown local')
            elif isinstance(s, ast.If):
                r = self.run_block(s.body if self.truth(s.test, env) else s.orelse, env)
                if r:
                    return r
            elif isinstance(s, ast.For):
                it = s.iter
                items = None
                if isinstance(it, ast.Call) and isinstance(it.func, ast.Name) and it.func.id == 'range':
                    a = [self.ival(x, env) for x in it.args]
                    items = list(range(*a))
                    if not isinstance(s.target, ast.Name):
                        raise EmitError('loop target')
                    for v in items:
                        env[s.target.id] = v
                        r = self.run_block(s.body, env)
                        if r:
                            return r
                else:
                    idx = None
                    lst = it
                    if isinstance(it, ast.Call) and isinstance(it.func, ast.Name) and it.func.id == 'enumerate':
                        lst = it.args[0]
                        idx, tgt = s.target.elts[0].id, s.target.elts[1].id
                    else:
                        tgt = s.target.id if isinstance(s.target, ast.Name) else None
                    if isinstance(lst, ast.Attribute) and isinstance(lst.value, ast.Name) and lst.value.id == self.obj \
                            and lst.attr not in self.ports and isinstance(self.cfg.attr.get(lst.attr), (str, list, tuple)) and tgt is not None:
                        for i, v in enumerate(self.cfg.attr[lst.attr]):
                            if idx:
                                env[idx] = i
                            env[tgt] = v
                            r = self.run_block(s.body, env)
                            if r:
                                return r
                        continue
                    if not (isinstance(lst, ast.Attribute) and isinstance(lst.value, ast.Name) and lst.value.id == self.obj
                            and lst.attr in self.ports and self.ports[lst.attr][2]) or tgt is None:
                        raise EmitError('loop over ' + norm(it)[:50])
                    n = self.cfg.plen[lst.attr]
                    for i in range(n):
                        if idx:
                            env[idx] = i
                        env[tgt] = ('wire', ('pe', lst.attr, i))
                        r = self.run_block(s.body, env)
                        if r:
                            return r
            elif isinstance(s, (ast.Pass, ast.Import, ast.ImportFrom)):
                continue
            else:
                raise EmitError('statement %s in emitter' % type(s).__name__)
        return None

    def run(self, fn):
        env = {}
        r = self.run_block(fn.body, env)
        if not r:
            raise EmitError('emitter returns nothing')
        return r[1]
